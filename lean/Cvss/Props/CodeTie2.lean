/-
  SOURCE TIE, CVSS2: the hand-written model `Cvss.Model.V2` equals the translation of cvss/cvss2.py that
  `tools/gen_code.py` regenerates from the SOURCE TEXT on every run (`Cvss.Gen.Code2`): the whole
  constructor (`__init__`: `parse_vector`, `check_mandatory`, `compute_*`) with its exception classes,
  `get_value`, the equations and the accessors.  Translated code runs in `Py.M = Except Py.Exc`.
  Every theorem declared directly in this namespace is an obligation.
-/
import Cvss.Py
import Cvss.Gen.Code2
import Cvss.Model.Json
import Cvss.Model.V2
namespace Cvss.Props.CodeTie2
open Cvss Cvss.Gen

namespace Aux

theorem q1 : mkRat 1 1 = (1 : Rat) := by decide
theorem q0 : mkRat 0 1 = (0 : Rat) := by decide
theorem q10 : mkRat 10 1 = (10 : Rat) := by decide
theorem q20 : mkRat 20 1 = (20 : Rat) := by decide
theorem q35 : mkRat 3 5 = mkRat 6 10 := by decide
theorem q25 : mkRat 2 5 = mkRat 4 10 := by decide
theorem q32 : mkRat 3 2 = mkRat 15 10 := by decide
theorem q147 : mkRat 147 125 = mkRat 1176 1000 := by decide

theorem to_bind {α β : Type} (x : Py.M α) (f : α → Py.M β) :
    (x >>= f).toOption = x.toOption.bind (fun a => (f a).toOption) := by
  cases x <;> rfl

theorem to_pure {α : Type} (a : α) : (pure a : Py.M α).toOption = some a := rfl

theorem to_ok {α : Type} (a : α) : (Except.ok a : Py.M α).toOption = some a := rfl

theorem to_req {α : Type} (t : Option α) : (Py.req t).toOption = t := by
  cases t <;> rfl

theorem to_getitem {β : Type} (k : Str) (d : List (Str × β)) : (Py.getitem k d).toOption = lookup k d := by
  unfold Py.getitem
  cases lookup k d <;> rfl

theorem to_ite {α : Type} (c : Prop) [Decidable c] (x y : Py.M α) :
    (if c then x else y).toOption = if c then x.toOption else y.toOption := by
  split <;> rfl

end Aux

/-- `round_to_1_decimal` is ROUND_HALF_UP to one decimal -/
theorem round_eq (x : Rat) : Code2.round_to_1_decimal x = .ok (roundHalfUp1 x) := by
  rfl

/-- `get_value` (a `None` weight counts as the failure it causes as soon as it is used) -/
theorem get_value_eq (self : Code2.Self) (a : Str) :
    (Code2.get_value self a).toOption.bind id = Model.V2.getValue self.metrics a := by
  unfold Code2.get_value Model.V2.getValue
  simp only [Aux.to_bind, Aux.to_pure, Aux.to_getitem, Py.getD, Model.V2.ND]
  cases h : lookup a Gen.V2.values with
  | none => rfl
  | some row =>
    simp only [Option.bind]
    cases h2 : lookup ((lookup a self.metrics).getD c!"ND") row <;> rfl

theorem get_value_description_eq (self : Code2.Self) (a : Str) :
    (Code2.get_value_description self a).toOption = Model.V2.getDescription self.metrics a := by
  unfold Code2.get_value_description Model.V2.getDescription
  simp only [Aux.to_bind, Aux.to_pure, Aux.to_getitem, Py.getD, Model.V2.ND]
  cases h : lookup a Gen.V2.valueNames with
  | none => rfl
  | some row =>
    simp only [Option.bind]
    cases h2 : lookup ((lookup a self.metrics).getD c!"ND") row <;> rfl

namespace Aux

theorem gv {β : Type} (self : Code2.Self) (a : Str) (g : Rat → Option β) :
    (Code2.get_value self a).toOption.bind (fun t => t.bind g) = (Model.V2.getValue self.metrics a).bind g := by
  rw [← get_value_eq]
  cases (Code2.get_value self a).toOption <;> rfl

end Aux

theorem impact_equation_eq (self : Code2.Self) :
    (Code2.impact_equation self).toOption = Model.V2.impactEq self.metrics := by
  unfold Code2.impact_equation Model.V2.impactEq
  simp only [Aux.to_bind, Aux.to_pure, Aux.to_req, Aux.gv, Aux.q1, Model.V2.r]
  rfl

theorem adjusted_impact_equation_eq (self : Code2.Self) :
    (Code2.adjusted_impact_equation self).toOption = Model.V2.adjustedImpactEq self.metrics := by
  unfold Code2.adjusted_impact_equation Model.V2.adjustedImpactEq
  simp only [Aux.to_bind, Aux.to_pure, Aux.to_req, Aux.gv, Aux.q1, Aux.q10, Model.V2.r]
  rfl

theorem base_score_equation_eq (self : Code2.Self) (adj : Bool) :
    (Code2.base_score_equation self adj).toOption = Model.V2.baseEq self.metrics adj := by
  unfold Code2.base_score_equation Model.V2.baseEq
  cases adj
  · simp only [Bool.false_eq_true, if_false, bind_pure, Aux.to_bind, Aux.to_ok, Aux.to_req,
      impact_equation_eq, Aux.gv, round_eq,
      Aux.q0, Aux.q20, Aux.q35, Aux.q25, Aux.q32, Aux.q147, Model.V2.r]
    rfl
  · simp only [if_true, bind_pure, Aux.to_bind, Aux.to_ok, Aux.to_req,
      adjusted_impact_equation_eq, Aux.gv, round_eq,
      Aux.q0, Aux.q20, Aux.q35, Aux.q25, Aux.q32, Aux.q147, Model.V2.r]
    rfl

namespace Aux

theorem allND_eq (m : List (Str × Str)) (g : List Str) :
    (List.all g (fun a => decide ((Py.getD a m c!"ND") = c!"ND"))) = Model.V2.allND m g := rfl

theorem temporal_true (self : Code2.Self) (b : Rat) :
    (Code2.temporal_score_equation self true).toOption = Model.V2.temporalEq self.metrics b true := by
  unfold Code2.temporal_score_equation Model.V2.temporalEq
  simp only [if_true, to_bind, to_pure, to_ok, to_req, base_score_equation_eq, Aux.gv, round_eq]
  cases Model.V2.baseEq self.metrics true <;> rfl

theorem temporal_false (self : Code2.Self) (b : Rat) (h : self.base_score = some b) :
    (Code2.temporal_score_equation self false).toOption = Model.V2.temporalEq self.metrics b false := by
  unfold Code2.temporal_score_equation Model.V2.temporalEq
  simp only [Bool.false_eq_true, if_false, to_bind, to_pure, to_ok, to_req, Aux.gv, round_eq, h]
  rfl

theorem ct (self : Code2.Self) (b : Rat) (h : self.base_score = some b) :
    (Code2.compute_temporal_score self).toOption =
      ((if Model.V2.allND self.metrics Gen.V2.temporal then pure none
        else do
          let t ← Model.V2.temporalEq self.metrics b false
          pure (some (pyMax 0 t))) >>= fun t => pure { self with temporal_score := t }) := by
  unfold Code2.compute_temporal_score
  simp only [allND_eq, to_bind, to_pure, to_ite, temporal_false self b h, q0]
  cases Model.V2.allND self.metrics Gen.V2.temporal
  · simp only [Bool.false_eq_true, if_false]
    cases Model.V2.temporalEq self.metrics b false <;> rfl
  · rfl

theorem ce (self : Code2.Self) (b : Rat) :
    (Code2.compute_environmental_score self).toOption =
      ((if Model.V2.allND self.metrics Gen.V2.environmental then pure none
        else do
          let ta ← Model.V2.temporalEq self.metrics b true
          let cdp ← Model.V2.getValue self.metrics c!"CDP"
          let td ← Model.V2.getValue self.metrics c!"TD"
          pure (some (pyMax 0 (roundHalfUp1 ((ta + (10 - ta) * cdp) * td))))) >>=
        fun e => pure { self with environmental_score := e }) := by
  unfold Code2.compute_environmental_score
  simp only [allND_eq, to_bind, to_pure, to_ok, to_ite, to_req, temporal_true self b, q0, q10, gv, round_eq]
  cases Model.V2.allND self.metrics Gen.V2.environmental
  · simp only [Bool.false_eq_true, if_false]
    cases Model.V2.temporalEq self.metrics b true with
    | none => rfl
    | some ta =>
      cases Model.V2.getValue self.metrics c!"CDP" with
      | none => rfl
      | some cdp =>
        cases Model.V2.getValue self.metrics c!"TD" <;> rfl
  · rfl

end Aux

/-- what `__init__` computes after `check_mandatory()`: the translated source and the model produce the
    same three scores (or both raise), for EVERY metric dict and whatever the attributes held before -/
theorem init_tail_eq (self : Code2.Self) (vector : Str) :
    (Code2.init_tail self vector).toOption.map
        (fun s => (s.vector, s.metrics, s.base_score, s.temporal_score, s.environmental_score)) =
      (Model.V2.computeScores self.metrics).map
        (fun x => (self.vector, self.metrics, some x.1, x.2.1, x.2.2)) := by
  unfold Code2.init_tail Code2.compute_base_score Model.V2.computeScores Model.V2.baseScore
  simp only [Aux.to_bind, Aux.to_pure, base_score_equation_eq, Aux.q0]
  cases Model.V2.baseEq self.metrics false with
  | none => rfl
  | some b0 =>
    simp only [Option.bind_some]
    rw [Aux.ct _ (pyMax 0 b0) rfl]
    simp only [Option.pure_def, Option.bind_eq_bind, Option.bind_some]
    have fin : ∀ (t : Option Rat),
        Option.map (fun s => (s.vector, s.metrics, s.base_score, s.temporal_score, s.environmental_score))
          (Code2.compute_environmental_score
            { vector := self.vector, metrics := self.metrics, base_score := some (pyMax 0 b0),
              temporal_score := t, environmental_score := self.environmental_score }).toOption =
        Option.map (fun x : Rat × Option Rat × Option Rat => (self.vector, self.metrics, some x.fst, x.snd.fst, x.snd.snd))
          (if Model.V2.allND self.metrics Gen.V2.environmental = true then some (pyMax 0 b0, t, none)
           else
            (Model.V2.temporalEq self.metrics (pyMax 0 b0) true).bind fun ta =>
              (Model.V2.getValue self.metrics c!"CDP").bind fun cdp =>
                (Model.V2.getValue self.metrics c!"TD").bind fun td =>
                  some (pyMax 0 b0, t, some (pyMax 0 (roundHalfUp1 ((ta + (10 - ta) * cdp) * td))))) := by
      intro t
      rw [Aux.ce _ (pyMax 0 b0)]
      simp only [Option.pure_def, Option.bind_eq_bind]
      cases Model.V2.allND self.metrics Gen.V2.environmental
      · simp only [Bool.false_eq_true, if_false]
        cases Model.V2.temporalEq self.metrics (pyMax 0 b0) true with
        | none => rfl
        | some ta =>
          cases Model.V2.getValue self.metrics c!"CDP" with
          | none => rfl
          | some cdp =>
            cases Model.V2.getValue self.metrics c!"TD" <;> rfl
      · rfl
    cases Model.V2.allND self.metrics Gen.V2.temporal
    · simp only [Bool.false_eq_true, if_false]
      cases Model.V2.temporalEq self.metrics (pyMax 0 b0) false with
      | none => rfl
      | some t => exact fin _
    · exact fin _

namespace Aux

/-- every exception the computation can raise is outside the library's own hierarchy -/
structure Foreign {α : Type} (x : Py.M α) : Prop where
  out : ∀ e, x = .error e → e.toErr = .foreign

theorem fg_pure {α : Type} (a : α) : Foreign (pure a : Py.M α) := ⟨by
  intro e h; cases h⟩

theorem fg_ok {α : Type} (a : α) : Foreign (Except.ok a : Py.M α) := ⟨by
  intro e h; cases h⟩

theorem fg_bind {α β : Type} (x : Py.M α) (f : α → Py.M β) (hx : Foreign x) (hf : ∀ a, Foreign (f a)) :
    Foreign (x >>= f) := ⟨by
  intro e h
  cases x with
  | error e' =>
    cases h
    exact hx.out _ rfl
  | ok a => exact (hf a).out e h⟩

theorem fg_ite {α : Type} (c : Prop) [Decidable c] (x y : Py.M α) (hx : Foreign x) (hy : Foreign y) :
    Foreign (if c then x else y) := by
  split <;> assumption

theorem fg_req {α : Type} (t : Option α) : Foreign (Py.req t) := ⟨by
  intro e h
  cases t with
  | none => cases h; rfl
  | some v => cases h⟩

theorem fg_getitem {β : Type} (k : Str) (d : List (Str × β)) : Foreign (Py.getitem k d) := ⟨by
  intro e h
  unfold Py.getitem at h
  cases hl : lookup k d with
  | none => rw [hl] at h; cases h; rfl
  | some v => rw [hl] at h; cases h⟩

theorem fg_round (x : Rat) : Foreign (Code2.round_to_1_decimal x) := fg_pure _

/-- one structural step; leaves (`get_value`, …) are supplied by `assumption` -/
macro "fg_step" : tactic =>
  `(tactic| first
    | intro _
    | assumption
    | apply fg_round
    | apply fg_req
    | apply fg_getitem
    | apply fg_pure
    | apply fg_ok
    | apply fg_ite
    | apply fg_bind)

theorem fg_get_value (self : Code2.Self) (a : Str) : Foreign (Code2.get_value self a) := by
  unfold Code2.get_value
  repeat fg_step

theorem fg_impact (self : Code2.Self) : Foreign (Code2.impact_equation self) := by
  unfold Code2.impact_equation
  repeat (first | apply fg_get_value | fg_step)

theorem fg_adjusted (self : Code2.Self) : Foreign (Code2.adjusted_impact_equation self) := by
  unfold Code2.adjusted_impact_equation
  repeat (first | apply fg_get_value | fg_step)

theorem fg_base (self : Code2.Self) (adj : Bool) : Foreign (Code2.base_score_equation self adj) := by
  unfold Code2.base_score_equation
  repeat (first | apply fg_get_value | apply fg_impact | apply fg_adjusted | fg_step)

theorem fg_temporal (self : Code2.Self) (adj : Bool) : Foreign (Code2.temporal_score_equation self adj) := by
  unfold Code2.temporal_score_equation
  repeat (first | apply fg_get_value | apply fg_base | fg_step)

theorem fg_cb (self : Code2.Self) : Foreign (Code2.compute_base_score self) := by
  unfold Code2.compute_base_score
  repeat (first | apply fg_base | fg_step)

theorem fg_ct (self : Code2.Self) : Foreign (Code2.compute_temporal_score self) := by
  unfold Code2.compute_temporal_score
  repeat (first | apply fg_temporal | fg_step)

theorem fg_ce (self : Code2.Self) : Foreign (Code2.compute_environmental_score self) := by
  unfold Code2.compute_environmental_score
  repeat (first | apply fg_get_value | apply fg_temporal | fg_step)

end Aux

/-- the scoring part never raises an exception of the library's own hierarchy -/
theorem init_tail_error (self : Code2.Self) (vector : Str) (e : Py.Exc)
    (h : Code2.init_tail self vector = .error e) : e.toErr = .foreign := by
  have : Aux.Foreign (Code2.init_tail self vector) := by
    unfold Code2.init_tail
    repeat (first | apply Aux.fg_cb | apply Aux.fg_ct | apply Aux.fg_ce | fg_step)
  exact this.out e h

namespace Aux

theorem hasKey_iff_mem {β : Type} (k : Str) (l : List (Str × β)) : hasKey k l = true ↔ k ∈ keys l := by
  induction l with
  | nil => simp [hasKey, lookup, keys]
  | cons p l ih =>
    obtain ⟨a, b⟩ := p
    by_cases hk : k = a
    · simp [hasKey, lookup, keys, hk]
    · have : (hasKey k ((a, b) :: l)) = hasKey k l := by simp [hasKey, lookup, hk]
      rw [this, ih]
      simp [keys, hk]

theorem lookup_map_keys {β : Type} (k : Str) (l : List (Str × List (Str × β))) :
    lookup k (l.map (fun (k, row) => (k, keys row))) = (lookup k l).map keys := by
  induction l with
  | nil => rfl
  | cons p l ih =>
    obtain ⟨a, b⟩ := p
    by_cases hk : k = a
    · simp [lookup, hk]
    · simp [lookup, hk, ih]

theorem insert_absent {β : Type} (k : Str) (v : β) (l : List (Str × β)) (h : hasKey k l = false) :
    insert k v l = l ++ [(k, v)] := by
  induction l with
  | nil => rfl
  | cons p l ih =>
    obtain ⟨a, b⟩ := p
    by_cases hk : k = a
    · simp [hasKey, lookup, hk] at h
    · have h' : hasKey k l = false := by simpa [hasKey, lookup, hk] using h
      simp [insert, hk, ih h']

def parseBody : Code2.Self → Str → Py.M Code2.Self :=
  fun (st : Code2.Self) (field : Str) => (do
    let self := st
    let () ← (if (field = c!"") then (do
        Py.raise .malformed) else (do
        pure ()))
    let (metric, value_) ← Py.tryExcept (do
        let (metric, value_) ← Py.unpack2 (splitOn ':' field)
        pure (metric, value_)) .valueError (do
        Py.raise .malformed)
    let self ← (if (Py.contains metric Gen.V2.abbrs = true) then (do
        let t1 ← Py.getitem metric Gen.V2.values
        let self ← (if (Py.contains value_ t1 = true) then (do
            let () ← (if (Py.contains metric self.metrics = true) then (do
                Py.raise .malformed) else (do
                pure ()))
            let self : Code2.Self := { self with metrics := Py.setitem metric value_ self.metrics }
            pure self) else (do
            Py.raise .malformed))
        pure self) else (do
        Py.raise .malformed))
    pure self)

theorem parse_step (st : Code2.Self) (field : Str) :
    (parseBody st field).mapError Py.Exc.toErr =
      (Model.parseField Model.V2.tables st.metrics field).map (fun m => { st with metrics := m }) := by
  unfold parseBody Model.parseField
  by_cases hf : field = []
  · simp [hf, Py.raise, bind, Except.bind, Except.mapError, Except.map, Py.Exc.toErr]
  · simp only [hf, if_false]
    rcases hs : splitOn ':' field with _ | ⟨a, _ | ⟨b, _ | ⟨c, r⟩⟩⟩
    · simp [Py.unpack2, Py.tryExcept, Py.raise, bind, Except.bind, pure, Except.pure,
        Except.mapError, Except.map, Py.Exc.toErr]
    · simp [Py.unpack2, Py.tryExcept, Py.raise, bind, Except.bind, pure, Except.pure,
        Except.mapError, Except.map, Py.Exc.toErr]
    · simp only [Py.unpack2, Py.tryExcept, bind, Except.bind, pure, Except.pure, Py.contains, Py.setitem,
        Model.V2.tables, lookup_map_keys]
      by_cases hm : hasKey a Gen.V2.abbrs = true
      · have hm' : a ∈ keys Gen.V2.abbrs := (hasKey_iff_mem _ _).1 hm
        simp only [hm, hm', if_true, Bool.false_eq_true, if_false, Py.getitem]
        cases hl : lookup a Gen.V2.values with
        | none => rfl
        | some row =>
          simp only [Option.map]
          by_cases hv : hasKey b row = true
          · have hv' : b ∈ keys row := (hasKey_iff_mem _ _).1 hv
            simp only [hv, hv', if_true]
            by_cases hd : hasKey a st.metrics = true
            · simp only [hd, if_true]
              rfl
            · have hd' : hasKey a st.metrics = false := by simpa using hd
              simp only [hd', Bool.false_eq_true, if_false, insert_absent _ _ _ hd']
              rfl
          · have hv' : ¬ b ∈ keys row := fun h => hv ((hasKey_iff_mem _ _).2 h)
            simp only [hv, hv', if_false]
            rfl
      · have hm' : ¬ a ∈ keys Gen.V2.abbrs := fun h => hm ((hasKey_iff_mem _ _).2 h)
        simp only [hm, hm', if_false, Bool.false_eq_true]
        rfl
    · simp [Py.unpack2, Py.tryExcept, Py.raise, bind, Except.bind, pure, Except.pure,
        Except.mapError, Except.map, Py.Exc.toErr]

theorem parse_fold (fs : List Str) (st : Code2.Self) :
    (List.foldlM parseBody st fs).mapError Py.Exc.toErr =
      (Model.parseFields Model.V2.tables st.metrics fs).map (fun m => { st with metrics := m }) := by
  induction fs generalizing st with
  | nil => rfl
  | cons f fs ih =>
    rw [List.foldlM_cons]
    have hstep := parse_step st f
    unfold Model.parseFields
    cases hb : parseBody st f with
    | error e =>
      rw [hb] at hstep
      cases hp : Model.parseField Model.V2.tables st.metrics f with
      | error e' =>
        rw [hp] at hstep
        simp only [Except.mapError, Except.map] at hstep
        cases hstep
        rfl
      | ok m => rw [hp] at hstep; cases hstep
    | ok s' =>
      rw [hb] at hstep
      cases hp : Model.parseField Model.V2.tables st.metrics f with
      | error e' => rw [hp] at hstep; cases hstep
      | ok m =>
        rw [hp] at hstep
        simp only [Except.mapError, Except.map] at hstep
        cases hstep
        exact ih _

def mandBody (m : List (Str × Str)) : List Str → Str → Py.M (List Str) :=
  fun (st : (List Str)) (mandatory_metric : Str) => (do
    let missing := st
    let missing ← (if (¬ (Py.contains mandatory_metric m = true)) then (do
        let missing : List Str := missing ++ [mandatory_metric]
        pure missing) else (do
        pure missing))
    pure missing)

theorem mand_step (m : List (Str × Str)) (k : Str) (acc : List Str) :
    mandBody m acc k = .ok (acc ++ [k].filter (fun k => !hasKey k m)) := by
  unfold mandBody
  by_cases hk : hasKey k m = true
  · simp [Py.contains, hk, pure, Except.pure]
  · simp [Py.contains, hk, pure, Except.pure]

theorem mand_fold (m : List (Str × Str)) (l : List Str) (acc : List Str) :
    List.foldlM (mandBody m) acc l = .ok (acc ++ l.filter (fun k => !hasKey k m)) := by
  induction l generalizing acc with
  | nil => simp [List.foldlM, pure, Except.pure]
  | cons k l ih =>
    rw [List.foldlM_cons, mand_step]
    simp only [bind, Except.bind, ih]
    rw [List.append_assoc, ← List.filter_append]
    rfl

theorem parse_vector_unf (self : Code2.Self) :
    Code2.parse_vector self =
      ((if self.vector = [] then Py.raise .malformed else pure ()) >>= fun () =>
        (if endsWithChar '/' self.vector = true then Py.raise .malformed else pure ()) >>= fun () =>
          List.foldlM parseBody self (splitOn '/' self.vector)) := rfl

theorem check_mandatory_unf (self : Code2.Self) :
    Code2.check_mandatory self =
      (List.foldlM (mandBody self.metrics) [] Gen.V2.mandatory >>= fun missing =>
        (if missing ≠ [] then Py.raise .mandatory else pure ()) >>= fun () => pure ()) := rfl

end Aux

/-- `parse_vector()` on a fresh object: same outcome class and same metric dict as the model's parser -/
theorem parse_vector_eq (self : Code2.Self) (h : self.metrics = []) :
    ((Code2.parse_vector self).mapError Py.Exc.toErr).map (fun x => (x.vector, x.metrics)) =
      (Model.parseNoPrefix Model.V2.tables self.vector).map (fun m => (self.vector, m)) := by
  rw [Aux.parse_vector_unf]
  unfold Model.parseNoPrefix
  by_cases hv : self.vector = []
  · simp only [hv, if_true]
    rfl
  · simp only [hv, if_false]
    by_cases he : endsWithChar '/' self.vector = true
    · simp only [he, if_true]
      rfl
    · simp only [he, if_false, Bool.false_eq_true, pure_bind]
      rw [Aux.parse_fold, h]
      cases Model.parseFields Model.V2.tables [] (splitOn '/' self.vector) <;> rfl

/-- `check_mandatory()` -/
theorem check_mandatory_eq (self : Code2.Self) :
    (Code2.check_mandatory self).mapError Py.Exc.toErr = Model.checkMandatory Model.V2.tables self.metrics := by
  rw [Aux.check_mandatory_unf, Aux.mand_fold]
  unfold Model.checkMandatory
  show _ = if (Gen.V2.mandatory.all fun k => hasKey k self.metrics) = true then Except.ok () else Except.error Err.mandatory
  simp only [List.nil_append, bind, Except.bind]
  by_cases hall : (Gen.V2.mandatory.all fun k => hasKey k self.metrics) = true
  · have : Gen.V2.mandatory.filter (fun k => !hasKey k self.metrics) = [] := by
      rw [List.filter_eq_nil_iff]
      intro k hk
      have := (List.all_eq_true.1 hall) k hk
      simp [this]
    rw [if_pos hall, this]
    rfl
  · have : Gen.V2.mandatory.filter (fun k => !hasKey k self.metrics) ≠ [] := by
      intro hnil
      apply hall
      rw [List.all_eq_true]
      intro k hk
      have := (List.filter_eq_nil_iff.1 hnil) k hk
      simpa using this
    rw [if_neg hall, if_pos this]
    rfl

/-- THE WHOLE CONSTRUCTOR, for every string: `CVSS2(s)` as translated from the source text and the
    model's `construct` fail with the same exception class or succeed with the same vector, metric
    dict and the same three scores -/
theorem construct_eq (s : Str) :
    ((Code2.construct s).mapError Py.Exc.toErr).map
        (fun x => (x.vector, x.metrics, x.base_score, x.temporal_score, x.environmental_score)) =
      (Model.V2.construct s).map (fun o => (o.vector, o.metrics, some o.base, o.temporal, o.env)) := by
  have hinit : Code2.construct s =
      (Code2.parse_vector (Code2.initSelf s []) >>= fun self =>
        Code2.check_mandatory self >>= fun _ => Code2.init_tail self s) := rfl
  rw [hinit]
  have hp := parse_vector_eq (Code2.initSelf s []) rfl
  have hs : (Code2.initSelf s []).vector = s := rfl
  rw [hs] at hp
  unfold Model.V2.construct Model.V2.parse
  cases hpv : Code2.parse_vector (Code2.initSelf s []) with
  | error e =>
    rw [hpv] at hp
    cases hm : Model.parseNoPrefix Model.V2.tables s with
    | ok m => rw [hm] at hp; cases hp
    | error e' =>
      rw [hm] at hp
      simp only [Except.mapError, Except.map] at hp
      cases hp
      rfl
  | ok self1 =>
    rw [hpv] at hp
    cases hm : Model.parseNoPrefix Model.V2.tables s with
    | error e' => rw [hm] at hp; cases hp
    | ok m =>
      rw [hm] at hp
      simp only [Except.mapError, Except.map] at hp
      have hvec : self1.vector = s := by injection hp with hp; exact (Prod.mk.inj hp).1
      have hmet : self1.metrics = m := by injection hp with hp; exact (Prod.mk.inj hp).2
      have hc := check_mandatory_eq self1
      rw [hmet] at hc
      simp only [bind, Except.bind]
      cases hcm : Code2.check_mandatory self1 with
      | error e =>
        rw [hcm] at hc
        rw [← hc]
        rfl
      | ok u =>
        rw [hcm] at hc
        rw [← hc]
        have ht := init_tail_eq self1 s
        rw [hmet, hvec] at ht
        cases hit : Code2.init_tail self1 s with
        | error e =>
          have hfe := init_tail_error self1 s e hit
          rw [hit] at ht
          cases hcs : Model.V2.computeScores m with
          | some x => rw [hcs] at ht; cases ht
          | none =>
            simp only [Except.mapError, Except.map, hfe, hcs]
        | ok s2 =>
          rw [hit] at ht
          cases hcs : Model.V2.computeScores m with
          | none => rw [hcs] at ht; cases ht
          | some x =>
            rw [hcs] at ht
            obtain ⟨b, t, e⟩ := x
            simp only [Except.toOption, Option.map] at ht
            injection ht with ht
            simp only [Except.mapError, Except.map, ht, hcs]

namespace Aux

theorem fmt2 (a b : Str) : Py.format c!"{0}:{1}" [a, b] = a ++ ':' :: b := by
  simp [Py.format, Py.formatAux, Py.fmtField]

def cleanBody (m : List (Str × Str)) (nd : Str) : List Str → Str → Py.M (List Str) :=
  fun (st : (List Str)) (metric : Str) => (do
      let vector := st
      let vector ← (if (Py.contains metric m = true) then (do
          let t1 ← Py.getitem metric m
          let value_ : Str := t1
          let vector ← (if (¬ (value_ = nd)) then (do
              let vector : List Str := vector ++ [(Py.format c!"{0}:{1}" [metric, value_])]
              pure vector) else (do
              pure vector))
          pure vector) else (do
          pure vector))
      pure vector)

def cleanF (m : List (Str × Str)) (nd : Str) : Str → Option Str :=
  fun k =>
    match lookup k m with
    | some v => if v ≠ nd then some (k ++ ':' :: v) else none
    | none => none

theorem clean_step (m : List (Str × Str)) (nd : Str) (k : Str) (acc : List Str) :
    cleanBody m nd acc k = .ok (acc ++ (cleanF m nd k).toList) := by
  unfold cleanBody cleanF
  simp only [Py.contains, hasKey, Py.getitem]
  cases h : lookup k m with
  | none => simp [pure, Except.pure]
  | some v =>
    by_cases hv : v = nd
    · simp [hv, pure, Except.pure, bind, Except.bind]
    · simp [hv, fmt2, pure, Except.pure, bind, Except.bind]

theorem clean_fold (m : List (Str × Str)) (nd : Str) (l : List Str) (acc : List Str) :
    List.foldlM (cleanBody m nd) acc l = .ok (acc ++ l.filterMap (cleanF m nd)) := by
  induction l generalizing acc with
  | nil => simp [List.foldlM, pure, Except.pure]
  | cons k l ih =>
    rw [List.foldlM_cons, clean_step]
    simp only [bind, Except.bind, ih, List.filterMap_cons]
    cases cleanF m nd k <;> simp

theorem sev_step (acc : List Str) (score : Option Rat) :
    (do
      let severities := acc
      let severities ← (if (score = none) then (do
          let severities : List Str := severities ++ [c!"None"]
          pure severities) else (do
          let v1 ← Py.req score
          let severities ← (if (v1 ≤ (mkRat (39) 10)) then (do
              let severities : List Str := severities ++ [c!"Low"]
              pure severities) else (do
              let v2 ← Py.req score
              let severities ← (if (v2 ≤ (mkRat (69) 10)) then (do
                  let severities : List Str := severities ++ [c!"Medium"]
                  pure severities) else (do
                  let severities : List Str := severities ++ [c!"High"]
                  pure severities))
              pure severities))
          pure severities))
      pure severities : Py.M (List Str)) = .ok (acc ++ [Model.V2.sevOf score]) := by
  cases score with
  | none => simp [Model.V2.sevOf, pure, Except.pure]
  | some s =>
    simp only [Model.V2.sevOf, Model.V2.r, Py.req]
    by_cases h1 : s ≤ mkRat 39 10
    · simp [h1, pure, Except.pure, bind, Except.bind]
    · by_cases h2 : s ≤ mkRat 69 10
      · simp [h1, h2, pure, Except.pure, bind, Except.bind]
      · simp [h1, h2, pure, Except.pure, bind, Except.bind]

end Aux

/-- `clean_vector()` -/
theorem clean_vector_eq (self : Code2.Self) :
    Code2.clean_vector self = .ok (Model.V2.cleanOf self.metrics) := by
  unfold Code2.clean_vector Model.V2.cleanOf
  have h := Aux.clean_fold self.metrics c!"ND" (keys Gen.V2.abbrs) []
  simp only [List.nil_append] at h
  show (List.foldlM (Aux.cleanBody self.metrics c!"ND") [] (keys Gen.V2.abbrs) >>=
    fun v => pure (join '/' v)) = _
  rw [h]
  rfl

/-- `severities()` -/
theorem severities_eq (self : Code2.Self) :
    Code2.severities self =
      .ok [Model.V2.sevOf self.base_score, Model.V2.sevOf self.temporal_score,
           Model.V2.sevOf self.environmental_score] := by
  unfold Code2.severities
  simp only [List.foldlM_cons, List.foldlM_nil, Aux.sev_step]
  rfl

/-- `temporal_vector()` / `environmental_vector()` -/
theorem temporal_vector_eq (self : Code2.Self) (o : Model.V2.Obj) (h : o.metrics = self.metrics) :
    Code2.temporal_vector self = .ok o.temporalVector := by
  unfold Code2.temporal_vector Model.V2.Obj.temporalVector
  simp [h, Model.V2.ND, pure, Except.pure]

theorem environmental_vector_eq (self : Code2.Self) (o : Model.V2.Obj) (h : o.metrics = self.metrics) :
    Code2.environmental_vector self = .ok o.environmentalVector := by
  unfold Code2.environmental_vector Model.V2.Obj.environmentalVector
  simp [h, Model.V2.ND, pure, Except.pure]


/-- the model's JSON values inside the translation's (which also has `null`) -/
def jOf : Model.JVal → Py.J
  | .str s => .str s
  | .num x => .num x

namespace Aux

/-- the model's JSON object seen as the translation's dict -/
def jm (l : Model.JObj) : List (Str × Py.J) := l.map (fun kv => (kv.1, jOf kv.2))

theorem insert_jm (k : Str) (v : Model.JVal) (l : Model.JObj) :
    insert k (jOf v) (jm l) = jm (insert k v l) := by
  induction l with
  | nil => rfl
  | cons p l ih =>
    obtain ⟨a, b⟩ := p
    by_cases hk : k = a
    · simp [insert, jm, hk]
    · have ih' : insert k (jOf v) (List.map (fun kv => (kv.1, jOf kv.2)) l) =
          List.map (fun kv => (kv.1, jOf kv.2)) (insert k v l) := ih
      simp [insert, jm, hk, ih']

theorem strLt_eq (a b : Str) : Py.strLt a b = Model.strLt a b := by
  induction a generalizing b with
  | nil => cases b <;> rfl
  | cons x xs ih =>
    cases b with
    | nil => rfl
    | cons y ys => simp only [Py.strLt, Model.strLt, ih]

theorem insertSorted_jm (kv : Str × Model.JVal) (l : Model.JObj) :
    Py.insertSorted (kv.1, jOf kv.2) (jm l) = jm (Model.insertSorted kv l) := by
  induction l with
  | nil => rfl
  | cons p l ih =>
    have ih' : Py.insertSorted (kv.1, jOf kv.2) (List.map (fun kv => (kv.1, jOf kv.2)) l) =
        List.map (fun kv => (kv.1, jOf kv.2)) (Model.insertSorted kv l) := ih
    by_cases h : Model.strLt kv.1 p.1 = true
    · simp [Py.insertSorted, Model.insertSorted, jm, strLt_eq, h]
    · simp [Py.insertSorted, Model.insertSorted, jm, strLt_eq, h, ih']

theorem foldl_sorted_jm (l acc : Model.JObj) :
    List.foldl (fun acc kv => Py.insertSorted kv acc) (jm acc) (jm l) =
      jm (List.foldl (fun acc kv => Model.insertSorted kv acc) acc l) := by
  induction l generalizing acc with
  | nil => rfl
  | cons p l ih =>
    have : jm (p :: l) = (p.1, jOf p.2) :: jm l := rfl
    rw [this, List.foldl_cons, List.foldl_cons, insertSorted_jm, ih]

theorem sortedItems_jm (l : Model.JObj) : Py.sortedItems (jm l) = jm (Model.sortObj l) :=
  foldl_sorted_jm l []

/-- the loop body of `as_json` (the same in the three loops) -/
def jsonBody (self : Code2.Self) : List (Str × Py.J) → Str → Py.M (List (Str × Py.J)) :=
  fun (st : (List (Str × Py.J))) (metric : Str) => (do
    let data := st
    let us : Str → Py.M Str := fun text => (do
        pure (replaceChar ' ' '_' (replaceChar '-' '_' (Py.upper text))))
    let add_metric_to_data : List (Str × Py.J) → Str → Py.M (List (Str × Py.J)) := fun data metric => (do
        let t2 ← Py.getitem metric Gen.V2.jsonKeys
        let k : Str := t2
        let t3 ← Code2.get_value_description self metric
        let t4 ← us t3
        let data : List (Str × Py.J) := Py.setitem k (Py.J.str t4) data
        pure data)
    let data ← add_metric_to_data data metric
    pure data)

theorem json_fold (self : Code2.Self) (l : List Str) (d : Model.JObj) :
    (List.foldlM (jsonBody self) (jm d) l).toOption =
      (Model.addMetrics Gen.V2.jsonKeys (Model.V2.getDescription self.metrics) Model.us2 d l).map jm := by
  induction l generalizing d with
  | nil => rfl
  | cons m l ih =>
    rw [List.foldlM_cons, to_bind]
    unfold Model.addMetrics
    have hstep : (jsonBody self (jm d) m).toOption =
        (lookup m Gen.V2.jsonKeys).bind fun k =>
          (Model.V2.getDescription self.metrics m).bind fun ds =>
            some (jm (insert k (.str (Model.us2 ds)) d)) := by
      unfold jsonBody
      simp only [to_bind, to_pure, to_getitem, get_value_description_eq, Py.setitem]
      cases lookup m Gen.V2.jsonKeys with
      | none => rfl
      | some k =>
        cases Model.V2.getDescription self.metrics m with
        | none => rfl
        | some ds =>
          simp only [Option.bind_some]
          rw [← insert_jm]
          rfl
    rw [hstep]
    cases lookup m Gen.V2.jsonKeys with
    | none => rfl
    | some k =>
      cases Model.V2.getDescription self.metrics m with
      | none => rfl
      | some ds =>
        simp only [Option.bind_some]
        exact ih _

theorem score_eq (t : Option Rat) :
    ((if (t ≠ none ∧ t ≠ some 0) then (do
          let v8 ← Py.req t
          pure v8) else (do
          pure (mkRat (0) 1))) : Py.M Rat) =
      .ok (if Model.truthy t = true then t.getD 0 else 0) := by
  cases t with
  | none => simp [Model.truthy, pure, Except.pure]
  | some x =>
    by_cases hx : x = 0
    · simp [Model.truthy, hx, pure, Except.pure]
    · simp [Model.truthy, hx, Py.req]

theorem as_json_unf (self : Code2.Self) (sort minimal : Bool) :
    Code2.as_json self sort minimal =
      (Py.req self.base_score >>= fun v1 =>
        List.foldlM (jsonBody self)
          ([(c!"version", (Py.J.str c!"2.0")), (c!"vectorString", (Py.J.str self.vector)),
            (c!"baseScore", (Py.J.num v1))] : List (Str × Py.J)) Gen.V2.mandatory >>= fun data =>
        (if ((¬ (minimal = true)) ∨ (¬ (self.temporal_score = none))) then
          (List.foldlM (jsonBody self) data Gen.V2.temporal >>= fun data =>
            (if (self.temporal_score ≠ none ∧ self.temporal_score ≠ some 0) then (do
              let v8 ← Py.req self.temporal_score
              pure v8) else (do
              pure (mkRat (0) 1))) >>= fun t9 =>
            pure (Py.setitem c!"temporalScore" (Py.J.num t9) data))
         else pure data) >>= fun data =>
        (if ((¬ (minimal = true)) ∨ (¬ (self.environmental_score = none))) then
          (List.foldlM (jsonBody self) data Gen.V2.environmental >>= fun data =>
            (if (self.environmental_score ≠ none ∧ self.environmental_score ≠ some 0) then (do
              let v13 ← Py.req self.environmental_score
              pure v13) else (do
              pure (mkRat (0) 1))) >>= fun t14 =>
            pure (Py.setitem c!"environmentalScore" (Py.J.num t14) data))
         else pure data) >>= fun data =>
        (if (sort = true) then pure (Py.sortedItems data) else pure data)) := rfl

def blk (m : List (Str × Str)) (minimal : Bool) (t : Option Rat) (g : List Str) (key : Str)
    (d : Model.JObj) : Option Model.JObj :=
  if (!minimal || t.isSome) = true then
    (Model.addMetrics Gen.V2.jsonKeys (Model.V2.getDescription m) Model.us2 d g).bind fun d' =>
      some (insert key (.num (if Model.truthy t = true then t.getD 0 else 0)) d')
  else some d

/-- one optional block (temporal / environmental) -/
theorem block_eq (self : Code2.Self) (minimal : Bool) (t : Option Rat) (g : List Str) (key : Str)
    (d : Model.JObj) :
    ((if ((¬ (minimal = true)) ∨ (¬ (t = none))) then
          (List.foldlM (jsonBody self) (jm d) g >>= fun data =>
            (if (t ≠ none ∧ t ≠ some 0) then (do
              let v8 ← Py.req t
              pure v8) else (do
              pure (mkRat (0) 1))) >>= fun t9 =>
            pure (Py.setitem key (Py.J.num t9) data))
         else pure (jm d)) : Py.M (List (Str × Py.J))).toOption =
      (blk self.metrics minimal t g key d).map jm := by
  unfold blk
  have hc : ((¬ (minimal = true)) ∨ (¬ (t = none))) ↔ (!minimal || t.isSome) = true := by
    cases minimal <;> cases t <;> simp
  by_cases h : (!minimal || t.isSome) = true
  · rw [if_pos (hc.2 h), if_pos h, to_bind, json_fold, score_eq]
    cases Model.addMetrics Gen.V2.jsonKeys (Model.V2.getDescription self.metrics) Model.us2 d g with
    | none => rfl
    | some d' =>
      simp only [Option.map_some, Option.bind_some, Py.setitem]
      rw [← insert_jm]
      rfl
  · rw [if_neg (fun hh => h (hc.1 hh)), if_neg h]
    rfl

theorem asJson2_alt (o : Model.V2.Obj) (sort minimal : Bool) :
    Model.asJson2 o sort minimal =
      (Model.addMetrics Gen.V2.jsonKeys (Model.V2.getDescription o.metrics) Model.us2
        [(c!"version", .str c!"2.0"), (c!"vectorString", .str o.vector), (c!"baseScore", .num o.base)]
        Gen.V2.mandatory).bind fun d1 =>
      (blk o.metrics minimal o.temporal Gen.V2.temporal c!"temporalScore" d1).bind fun d2 =>
      (blk o.metrics minimal o.env Gen.V2.environmental c!"environmentalScore" d2).bind fun d3 =>
      some (if sort = true then Model.sortObj d3 else d3) := by
  unfold Model.asJson2 blk
  simp only [Option.bind_eq_bind, Option.pure_def]
  congr 1
  funext d1
  by_cases h1 : (!minimal || o.temporal.isSome) = true <;>
    by_cases h2 : (!minimal || o.env.isSome) = true <;>
    simp only [h1, h2, if_true, if_false, Option.bind_some, Option.bind_assoc, Bool.false_eq_true]

theorem req_some {α : Type} (x : α) : Py.req (some x) = .ok x := rfl

end Aux

/-- `as_json(sort, minimal)` on a constructed object, all four option sets: same keys, same values, same
    order (or both raise) -/
theorem as_json_eq (self : Code2.Self) (o : Model.V2.Obj) (sort minimal : Bool)
    (hv : o.vector = self.vector) (hm : o.metrics = self.metrics) (hb : self.base_score = some o.base)
    (ht : self.temporal_score = o.temporal) (he : self.environmental_score = o.env) :
    (Code2.as_json self sort minimal).toOption =
      (Model.asJson2 o sort minimal).map (List.map (fun kv => (kv.1, jOf kv.2))) := by
  rw [Aux.as_json_unf, hb, Aux.asJson2_alt, ← ht, ← he, hv, hm]
  show _ = Option.map Aux.jm _
  rw [Aux.to_bind, Aux.req_some, Aux.to_ok, Option.bind_some, Aux.to_bind]
  have h0 : ([(c!"version", (Py.J.str c!"2.0")), (c!"vectorString", (Py.J.str self.vector)),
        (c!"baseScore", (Py.J.num o.base))] : List (Str × Py.J)) =
      Aux.jm [(c!"version", .str c!"2.0"), (c!"vectorString", .str self.vector), (c!"baseScore", .num o.base)] := rfl
  rw [h0, Aux.json_fold]
  generalize Model.addMetrics Gen.V2.jsonKeys (Model.V2.getDescription self.metrics) Model.us2
    [(c!"version", .str c!"2.0"), (c!"vectorString", .str self.vector), (c!"baseScore", .num o.base)]
    Gen.V2.mandatory = r1
  cases r1 with
  | none => rfl
  | some d1 =>
    simp only [Option.map_some, Option.bind_some]
    rw [Aux.to_bind, Aux.block_eq]
    generalize Aux.blk self.metrics minimal self.temporal_score Gen.V2.temporal c!"temporalScore" d1 = r2
    cases r2 with
    | none => rfl
    | some d2 =>
      simp only [Option.map_some, Option.bind_some]
      rw [Aux.to_bind, Aux.block_eq]
      generalize Aux.blk self.metrics minimal self.environmental_score Gen.V2.environmental
        c!"environmentalScore" d2 = r3
      cases r3 with
      | none => rfl
      | some d3 =>
        simp only [Option.map_some, Option.bind_some]
        cases sort
        · rfl
        · simp only [if_true, Aux.to_pure, Aux.sortedItems_jm]

end Cvss.Props.CodeTie2
