/-
  SOURCE TIE, CVSS2: the hand-written model `Cvss.Model.V2` equals the translation of cvss/cvss2.py's
  scoring methods that `tools/gen_code.py` regenerates from the SOURCE TEXT on every run
  (`Cvss.Gen.Code2`).  Every theorem declared directly in this namespace is an obligation.
-/
import Cvss.Py
import Cvss.Gen.Code2
import Cvss.Model.V2
namespace Cvss.Props.CodeTie2
open Cvss Cvss.Gen

namespace Aux

theorem q1 : mkRat 1 1 = (1 : Rat) := by decide
theorem q0 : mkRat 0 1 = (0 : Rat) := by decide
theorem q10 : mkRat 10 1 = (10 : Rat) := by decide
theorem q20 : mkRat 20 1 = (20 : Rat) := by decide
theorem q35 : mkRat 3 5 = mkRat 6 10 := by decide
theorem q25 : mkRat 2 5 = mkRat 4 10 := by decide
theorem q32 : mkRat 3 2 = mkRat 15 10 := by decide
theorem q147 : mkRat 147 125 = mkRat 1176 1000 := by decide

end Aux

/-- `round_to_1_decimal` is ROUND_HALF_UP to one decimal -/
theorem round_eq (x : Rat) : Code2.round_to_1_decimal x = some (roundHalfUp1 x) := by
  rfl

/-- `get_value` (a `None` weight counts as the failure it causes as soon as it is used) -/
theorem get_value_eq (self : Code2.Self) (a : Str) :
    (Code2.get_value self a).bind id = Model.V2.getValue self.metrics a := by
  unfold Code2.get_value Model.V2.getValue
  simp only [Py.getitem, Py.getD, Model.V2.ND, bind, pure]
  cases h : lookup a Gen.V2.values with
  | none => rfl
  | some row =>
    simp only [Option.bind]
    cases h2 : lookup ((lookup a self.metrics).getD c!"ND") row <;> rfl

theorem get_value_description_eq (self : Code2.Self) (a : Str) :
    Code2.get_value_description self a = Model.V2.getDescription self.metrics a := by
  unfold Code2.get_value_description Model.V2.getDescription
  simp only [Py.getitem, Py.getD, Model.V2.ND, bind, pure]
  cases h : lookup a Gen.V2.valueNames with
  | none => rfl
  | some row =>
    simp only [Option.bind]
    cases h2 : lookup ((lookup a self.metrics).getD c!"ND") row <;> rfl

namespace Aux

theorem gv {β : Type} (self : Code2.Self) (a : Str) (f : Rat → Option β) :
    (Code2.get_value self a >>= fun t => Py.req t >>= f) = (Model.V2.getValue self.metrics a >>= f) := by
  rw [← get_value_eq]
  cases Code2.get_value self a <;> rfl

end Aux

theorem impact_equation_eq (self : Code2.Self) :
    Code2.impact_equation self = Model.V2.impactEq self.metrics := by
  unfold Code2.impact_equation Model.V2.impactEq
  simp only [Aux.gv, Aux.q1, Model.V2.r]

theorem adjusted_impact_equation_eq (self : Code2.Self) :
    Code2.adjusted_impact_equation self = Model.V2.adjustedImpactEq self.metrics := by
  unfold Code2.adjusted_impact_equation Model.V2.adjustedImpactEq
  simp only [Aux.gv, Aux.q1, Aux.q10, Model.V2.r]

theorem base_score_equation_eq (self : Code2.Self) (adj : Bool) :
    Code2.base_score_equation self adj = Model.V2.baseEq self.metrics adj := by
  unfold Code2.base_score_equation Model.V2.baseEq
  cases adj
  · simp only [Bool.false_eq_true, if_false, bind_pure, impact_equation_eq, Aux.gv, round_eq,
      Aux.q0, Aux.q20, Aux.q35, Aux.q25, Aux.q32, Aux.q147, Model.V2.r]
    rfl
  · simp only [if_true, bind_pure, adjusted_impact_equation_eq, Aux.gv, round_eq,
      Aux.q0, Aux.q20, Aux.q35, Aux.q25, Aux.q32, Aux.q147, Model.V2.r]
    rfl

namespace Aux

theorem allND_eq (m : List (Str × Str)) (g : List Str) :
    (List.all g (fun a => decide ((Py.getD a m c!"ND") = c!"ND"))) = Model.V2.allND m g := rfl

theorem temporal_true (self : Code2.Self) (b : Rat) :
    Code2.temporal_score_equation self true = Model.V2.temporalEq self.metrics b true := by
  unfold Code2.temporal_score_equation Model.V2.temporalEq
  simp only [if_true, base_score_equation_eq, Aux.gv, round_eq]
  cases Model.V2.baseEq self.metrics true <;> rfl

theorem temporal_false (self : Code2.Self) (b : Rat) (h : self.base_score = some b) :
    Code2.temporal_score_equation self false = Model.V2.temporalEq self.metrics b false := by
  unfold Code2.temporal_score_equation Model.V2.temporalEq
  simp only [Bool.false_eq_true, if_false, Aux.gv, round_eq, h]
  rfl

theorem ct (self : Code2.Self) (b : Rat) (h : self.base_score = some b) :
    Code2.compute_temporal_score self =
      ((if Model.V2.allND self.metrics Gen.V2.temporal then pure none
        else do
          let t ← Model.V2.temporalEq self.metrics b false
          pure (some (pyMax 0 t))) >>= fun t => pure { self with temporal_score := t }) := by
  unfold Code2.compute_temporal_score
  simp only [allND_eq, temporal_false self b h, q0]
  cases Model.V2.allND self.metrics Gen.V2.temporal
  · simp only [Bool.false_eq_true, if_false]
    cases Model.V2.temporalEq self.metrics b false <;> rfl
  · rfl

theorem ce (self : Code2.Self) (b : Rat) :
    Code2.compute_environmental_score self =
      ((if Model.V2.allND self.metrics Gen.V2.environmental then pure none
        else do
          let ta ← Model.V2.temporalEq self.metrics b true
          let cdp ← Model.V2.getValue self.metrics c!"CDP"
          let td ← Model.V2.getValue self.metrics c!"TD"
          pure (some (pyMax 0 (roundHalfUp1 ((ta + (10 - ta) * cdp) * td))))) >>=
        fun e => pure { self with environmental_score := e }) := by
  unfold Code2.compute_environmental_score
  simp only [allND_eq, temporal_true self b, q0, q10, gv, round_eq]
  cases Model.V2.allND self.metrics Gen.V2.environmental
  · simp only [Bool.false_eq_true, if_false]
    cases Model.V2.temporalEq self.metrics b true with
    | none => rfl
    | some ta =>
      cases Model.V2.getValue self.metrics c!"CDP" with
      | none => rfl
      | some cdp =>
        cases Model.V2.getValue self.metrics c!"TD" <;> rfl
  · rfl

end Aux

/-- what `__init__` computes after `check_mandatory()`: the translated source and the model produce the
    same three scores (or both raise), for EVERY metric dict and whatever the attributes held before -/
theorem init_tail_eq (self : Code2.Self) (vector : Str) :
    (Code2.init_tail self vector).map
        (fun s => (s.vector, s.metrics, s.base_score, s.temporal_score, s.environmental_score)) =
      (Model.V2.computeScores self.metrics).map
        (fun x => (self.vector, self.metrics, some x.1, x.2.1, x.2.2)) := by
  unfold Code2.init_tail Code2.compute_base_score Model.V2.computeScores Model.V2.baseScore
  simp only [base_score_equation_eq, Aux.q0]
  cases Model.V2.baseEq self.metrics false with
  | none => rfl
  | some b0 =>
    show (Code2.compute_temporal_score { self with base_score := some (pyMax 0 b0) } >>=
        Code2.compute_environmental_score).map _ = _
    rw [Aux.ct _ (pyMax 0 b0) rfl]
    simp only [Option.pure_def, Option.bind_eq_bind, Option.bind_some]
    have fin : ∀ (t : Option Rat),
        Option.map (fun s => (s.vector, s.metrics, s.base_score, s.temporal_score, s.environmental_score))
          (Code2.compute_environmental_score
            { vector := self.vector, metrics := self.metrics, base_score := some (pyMax 0 b0),
              temporal_score := t, environmental_score := self.environmental_score }) =
        Option.map (fun x : Rat × Option Rat × Option Rat => (self.vector, self.metrics, some x.fst, x.snd.fst, x.snd.snd))
          (if Model.V2.allND self.metrics Gen.V2.environmental = true then some (pyMax 0 b0, t, none)
           else
            (Model.V2.temporalEq self.metrics (pyMax 0 b0) true).bind fun ta =>
              (Model.V2.getValue self.metrics c!"CDP").bind fun cdp =>
                (Model.V2.getValue self.metrics c!"TD").bind fun td =>
                  some (pyMax 0 b0, t, some (pyMax 0 (roundHalfUp1 ((ta + (10 - ta) * cdp) * td))))) := by
      intro t
      rw [Aux.ce _ (pyMax 0 b0)]
      simp only [Option.pure_def, Option.bind_eq_bind]
      cases Model.V2.allND self.metrics Gen.V2.environmental
      · simp only [Bool.false_eq_true, if_false]
        cases Model.V2.temporalEq self.metrics (pyMax 0 b0) true with
        | none => rfl
        | some ta =>
          cases Model.V2.getValue self.metrics c!"CDP" with
          | none => rfl
          | some cdp =>
            cases Model.V2.getValue self.metrics c!"TD" <;> rfl
      · rfl
    cases Model.V2.allND self.metrics Gen.V2.temporal
    · simp only [Bool.false_eq_true, if_false]
      cases Model.V2.temporalEq self.metrics (pyMax 0 b0) false with
      | none => rfl
      | some t => exact fin _
    · exact fin _


namespace Aux

theorem fmt2 (a b : Str) : Py.format c!"{0}:{1}" [a, b] = a ++ ':' :: b := by
  simp [Py.format, Py.formatAux, Py.fmtField]

def cleanBody (m : List (Str × Str)) (nd : Str) : List Str → Str → Option (List Str) :=
  fun (st : (List Str)) (metric : Str) => (do
      let vector := st
      let vector ← (if (Py.contains metric m = true) then (do
          let t1 ← Py.getitem metric m
          let value_ : Str := t1
          let vector ← (if (¬ (value_ = nd)) then (do
              let vector : List Str := vector ++ [(Py.format c!"{0}:{1}" [metric, value_])]
              pure vector) else (do
              pure vector))
          pure vector) else (do
          pure vector))
      pure vector)

def cleanF (m : List (Str × Str)) (nd : Str) : Str → Option Str :=
  fun k =>
    match lookup k m with
    | some v => if v ≠ nd then some (k ++ ':' :: v) else none
    | none => none

theorem clean_step (m : List (Str × Str)) (nd : Str) (k : Str) (acc : List Str) :
    cleanBody m nd acc k = some (acc ++ (cleanF m nd k).toList) := by
  unfold cleanBody cleanF
  simp only [Py.contains, hasKey, Py.getitem]
  cases h : lookup k m with
  | none => simp
  | some v =>
    by_cases hv : v = nd
    · simp [hv]
    · simp [hv, fmt2]

theorem clean_fold (m : List (Str × Str)) (nd : Str) (l : List Str) (acc : List Str) :
    List.foldlM (cleanBody m nd) acc l = some (acc ++ l.filterMap (cleanF m nd)) := by
  induction l generalizing acc with
  | nil => simp [List.foldlM]
  | cons k l ih =>
    rw [List.foldlM_cons, clean_step]
    simp only [Option.bind_eq_bind, Option.bind_some, ih, List.filterMap_cons]
    cases cleanF m nd k <;> simp

theorem sev_step (acc : List Str) (score : Option Rat) :
    (do
      let severities := acc
      let severities ← (if (score = none) then (do
          let severities : List Str := severities ++ [c!"None"]
          pure severities) else (do
          let v1 ← Py.req score
          let severities ← (if (v1 ≤ (mkRat (39) 10)) then (do
              let severities : List Str := severities ++ [c!"Low"]
              pure severities) else (do
              let v2 ← Py.req score
              let severities ← (if (v2 ≤ (mkRat (69) 10)) then (do
                  let severities : List Str := severities ++ [c!"Medium"]
                  pure severities) else (do
                  let severities : List Str := severities ++ [c!"High"]
                  pure severities))
              pure severities))
          pure severities))
      pure severities : Option (List Str)) = some (acc ++ [Model.V2.sevOf score]) := by
  cases score with
  | none => simp [Model.V2.sevOf]
  | some s =>
    simp only [Model.V2.sevOf, Model.V2.r, Py.req]
    by_cases h1 : s ≤ mkRat 39 10
    · simp [h1]
    · by_cases h2 : s ≤ mkRat 69 10
      · simp [h1, h2]
      · simp [h1, h2]

end Aux

/-- `clean_vector()` -/
theorem clean_vector_eq (self : Code2.Self) :
    Code2.clean_vector self = some (Model.V2.cleanOf self.metrics) := by
  unfold Code2.clean_vector Model.V2.cleanOf
  have h := Aux.clean_fold self.metrics c!"ND" (keys Gen.V2.abbrs) []
  simp only [List.nil_append] at h
  show (List.foldlM (Aux.cleanBody self.metrics c!"ND") [] (keys Gen.V2.abbrs) >>=
    fun v => pure (join '/' v)) = _
  rw [h]
  rfl

/-- `severities()` (the base score is always set once `__init__` has run) -/
theorem severities_eq (self : Code2.Self) :
    Code2.severities self =
      some [Model.V2.sevOf self.base_score, Model.V2.sevOf self.temporal_score,
            Model.V2.sevOf self.environmental_score] := by
  unfold Code2.severities
  simp only [List.foldlM_cons, List.foldlM_nil, Aux.sev_step]
  rfl

/-- `temporal_vector()` / `environmental_vector()` -/
theorem temporal_vector_eq (self : Code2.Self) (o : Model.V2.Obj) (h : o.metrics = self.metrics) :
    Code2.temporal_vector self = some o.temporalVector := by
  unfold Code2.temporal_vector Model.V2.Obj.temporalVector
  simp [h, Model.V2.ND]

theorem environmental_vector_eq (self : Code2.Self) (o : Model.V2.Obj) (h : o.metrics = self.metrics) :
    Code2.environmental_vector self = some o.environmentalVector := by
  unfold Code2.environmental_vector Model.V2.Obj.environmentalVector
  simp [h, Model.V2.ND]

end Cvss.Props.CodeTie2
