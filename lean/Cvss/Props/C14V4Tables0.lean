/-
  C14 (v4.0) finite check: the list of abstract steps of group 36 is complete and the class-wise distance
  bounds hold (all 729 level tuples of VC, VI, VA, CR, IR, AR).
-/
import Cvss.Lemmas.V4Mono
namespace Cvss.Props.C14
open Cvss Cvss.Lemmas.V4Mono

theorem cmp_g36 : Cmp36 := by unfold Cmp36; decide +kernel

end Cvss.Props.C14
