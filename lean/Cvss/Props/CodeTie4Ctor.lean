/-
  SOURCE TIE, CVSS4, constructor level: frame / error-class facts of the translated `compute_base_score`
  and the equality of the whole translated constructor with the model's `construct`.
-/
import Cvss.Props.CodeTie4
namespace Cvss.Props.CodeTie4
open Cvss Cvss.Gen

namespace Aux2

/-! ### computations that raise no exception of the library's own hierarchy -/

def Foreign {α : Type} (x : Py.M α) : Prop := ∀ e, x = .error e → e.toErr = .foreign

theorem Foreign.pure {α : Type} (a : α) : Foreign (pure a : Py.M α) := by intro e h; cases h
theorem Foreign.ok {α : Type} (a : α) : Foreign (.ok a : Py.M α) := by intro e h; cases h
theorem Foreign.of_ok {α : Type} {x : Py.M α} {a : α} (h : x = .ok a) : Foreign x := by
  subst h; exact Foreign.ok a
theorem Foreign.bind {α β : Type} {x : Py.M α} {f : α → Py.M β} (hx : Foreign x)
    (hf : ∀ a, Foreign (f a)) : Foreign (x >>= f) := by
  intro e h
  cases x with
  | error e' => cases h; exact hx _ rfl
  | ok a => exact hf a e h
theorem Foreign.ite {α : Type} {c : Prop} [Decidable c] {x y : Py.M α} (hx : Foreign x) (hy : Foreign y) :
    Foreign (if c then x else y) := by split <;> assumption
theorem Foreign.getitem {β : Type} (k : Str) (d : List (Str × β)) : Foreign (Py.getitem k d) := by
  intro e h; unfold Py.getitem at h; cases hl : lookup k d <;> rw [hl] at h <;> cases h; rfl
theorem Foreign.getitemO {β : Type} (k : Option Str) (d : List (Str × β)) : Foreign (Py.getitemO k d) := by
  cases k with
  | none => intro e h; cases h; rfl
  | some k => exact Foreign.getitem k d
theorem Foreign.getitemN (i : Int) (d : List (Nat × Nat)) : Foreign (Py.getitemN i d) := by
  intro e h; unfold Py.getitemN at h
  split at h
  · cases h; rfl
  · split at h <;> cases h; rfl
theorem Foreign.getitemNN (i j : Int) (d : List ((Nat × Nat) × Nat)) : Foreign (Py.getitemNN i j d) := by
  intro e h; unfold Py.getitemNN at h
  split at h
  · cases h; rfl
  · split at h <;> cases h; rfl
theorem Foreign.charAt (s : Str) (i : Nat) : Foreign (Py.charAt s i) := by
  intro e h; unfold Py.charAt at h; split at h <;> cases h; rfl
theorem Foreign.int (s : Str) : Foreign (Py.int s) := by
  intro e h; unfold Py.int at h; split at h <;> cases h; rfl
theorem Foreign.bound {α : Type} (o : Option α) : Foreign (Py.bound o) := by
  intro e h; cases o <;> cases h; rfl
theorem Foreign.div (a b : Rat) : Foreign (Py.div a b) := by
  intro e h; unfold Py.div at h; split at h <;> cases h; rfl
theorem Foreign.fdiv (a b : Option Rat) : Foreign (Py.fdiv a b) := by
  intro e h; unfold Py.fdiv at h; split at h <;> cases h; rfl
theorem Foreign.finite (a : Option Rat) : Foreign (Py.finite a) := by
  intro e h; cases a <;> cases h; rfl
theorem Foreign.m (self : Code4.Self) (k : Str) : Foreign (Code4.m self k) :=
  Foreign.of_ok (m_eq self k)
theorem Foreign.macroVector (self : Code4.Self) : Foreign (Code4.macroVector self) := by
  cases h : Model.V4.macroVector self.metrics with
  | none => obtain ⟨s, hs, _⟩ := macroVector_none self h; exact Foreign.of_ok hs
  | some d => exact Foreign.of_ok (macroVector_eq self d h)
theorem Foreign.foldlM {α β : Type} {f : β → α → Py.M β} (hf : ∀ s a, Foreign (f s a)) (l : List α) :
    ∀ s, Foreign (List.foldlM f s l) := by
  induction l with
  | nil => intro s; exact Foreign.pure s
  | cons a rest ih => intro s; rw [List.foldlM_cons]; exact Foreign.bind (hf s a) ih
theorem Foreign.mapM {α β : Type} {f : α → Py.M β} (hf : ∀ a, Foreign (f a)) (l : List α) :
    Foreign (List.mapM f l) := by
  induction l with
  | nil => rw [List.mapM_nil]; exact Foreign.pure _
  | cons a rest ih =>
    rw [List.mapM_cons]
    exact Foreign.bind (hf a) (fun b => Foreign.bind ih (fun bs => Foreign.pure _))

/-- one step of the syntax-directed proof that a computation is `Foreign` -/
syntax "foreign_step" : tactic
macro_rules
  | `(tactic| foreign_step) => `(tactic| with_reducible first
      | exact Foreign.pure _ | exact Foreign.ok _ | exact Foreign.getitem _ _ | exact Foreign.getitemO _ _
      | exact Foreign.getitemN _ _ | exact Foreign.getitemNN _ _ _ | exact Foreign.charAt _ _
      | exact Foreign.int _ | exact Foreign.bound _ | exact Foreign.div _ _ | exact Foreign.fdiv _ _
      | exact Foreign.finite _ | exact Foreign.m _ _ | exact Foreign.macroVector _
      | apply Foreign.ite | apply Foreign.foldlM | apply Foreign.mapM | apply Foreign.bind | intro _ | split)
macro "foreign" : tactic => `(tactic| repeat foreign_step)

theorem Foreign.final_rounding (x : Option Rat) : Foreign (Code4.final_rounding x) := by
  unfold Code4.final_rounding; foreign

macro_rules
  | `(tactic| foreign_step) => `(tactic| with_reducible exact Foreign.final_rounding _)

set_option maxRecDepth 100000 in
theorem Foreign.cbs (self : Code4.Self) : Foreign (Code4.compute_base_score self) := by
  unfold Code4.compute_base_score; foreign

/-! ### computations that leave `vector`, `metrics` and `original_metrics` alone -/

abbrev key (x : Code4.Self) : Str × List (Str × Str) × List (Str × Str) :=
  (x.vector, x.metrics, x.original_metrics)

def Keeps (k : Str × List (Str × Str) × List (Str × Str)) (m : Py.M Code4.Self) : Prop :=
  ∀ x, m = .ok x → key x = k

theorem Keeps.pure {k : Str × List (Str × Str) × List (Str × Str)} {y : Code4.Self} (h : key y = k) :
    Keeps k (pure y) := by
  intro x hx; cases hx; exact h
theorem Keeps.raise {k : Str × List (Str × Str) × List (Str × Str)} {e : Py.Exc} : Keeps k (Py.raise e) := by
  intro x hx; cases hx
theorem Keeps.bind {α : Type} {k : Str × List (Str × Str) × List (Str × Str)} {m : Py.M α}
    {f : α → Py.M Code4.Self} (hf : ∀ a, Keeps k (f a)) : Keeps k (m >>= f) := by
  intro x hx
  cases m with
  | error e => cases hx
  | ok a => exact hf a x hx
theorem Keeps.ite {k : Str × List (Str × Str) × List (Str × Str)} {c : Prop} [Decidable c]
    {x y : Py.M Code4.Self} (hx : Keeps k x) (hy : Keeps k y) : Keeps k (if c then x else y) := by
  split <;> assumption

/-- one step of the syntax-directed proof that a computation `Keeps` the key -/
syntax "keeps_step" : tactic
macro_rules
  | `(tactic| keeps_step) => `(tactic| first
      | exact Keeps.raise | exact Keeps.pure rfl
      | with_reducible first | apply Keeps.ite | apply Keeps.bind | intro _ | split)
macro "keeps" : tactic => `(tactic| repeat keeps_step)

set_option maxRecDepth 100000 in
theorem Keeps.cbs (self : Code4.Self) : Keeps (key self) (Code4.compute_base_score self) := by
  unfold Code4.compute_base_score; keeps

/-! ### a general invariant of the resulting object (for `add_missing_optional`, `compute_severity`) -/

def Inv (P : Code4.Self → Prop) (m : Py.M Code4.Self) : Prop := ∀ x, m = .ok x → P x

theorem Inv.pure {P : Code4.Self → Prop} {y : Code4.Self} (h : P y) : Inv P (pure y) := by
  intro x hx; cases hx; exact h
theorem Inv.bind {α : Type} {P : Code4.Self → Prop} {m : Py.M α}
    {f : α → Py.M Code4.Self} (hf : ∀ a, Inv P (f a)) : Inv P (m >>= f) := by
  intro x hx
  cases m with
  | error e => cases hx
  | ok a => exact hf a x hx
theorem Inv.bindS {P : Code4.Self → Prop} {m : Py.M Code4.Self} {f : Code4.Self → Py.M Code4.Self}
    (hm : Inv P m) (hf : ∀ y, P y → Inv P (f y)) : Inv P (m >>= f) := by
  intro x hx
  cases m with
  | error e => cases hx
  | ok a => exact hf a (hm a rfl) x hx
theorem Inv.ite {P : Code4.Self → Prop} {c : Prop} [Decidable c]
    {x y : Py.M Code4.Self} (hx : Inv P x) (hy : Inv P y) : Inv P (if c then x else y) := by
  split <;> assumption
theorem Inv.foldlM {α : Type} {P : Code4.Self → Prop} {f : Code4.Self → α → Py.M Code4.Self}
    (hf : ∀ s a, P s → Inv P (f s a)) (l : List α) :
    ∀ s, P s → Inv P (List.foldlM f s l) := by
  induction l with
  | nil => intro s hs; exact Inv.pure hs
  | cons a rest ih => intro s hs; rw [List.foldlM_cons]; exact Inv.bindS (hf s a hs) ih

syntax "inv_step" : tactic
macro_rules
  | `(tactic| inv_step) => `(tactic| first
      | exact Inv.pure (by first | assumption | exact rfl)
      | with_reducible first | apply Inv.ite | apply Inv.foldlM | apply Inv.bindS | apply Inv.bind
      | intro _ | assumption | exact rfl)
macro "inv" : tactic => `(tactic| repeat inv_step)

theorem Inv.amo (self : Code4.Self) :
    Inv (fun x => x.vector = self.vector) (Code4.add_missing_optional self) := by
  unfold Code4.add_missing_optional; inv

theorem Inv.sev (self : Code4.Self) :
    Inv (fun x => (x.vector, x.original_metrics, x.metrics, x.base_score) =
      (self.vector, self.original_metrics, self.metrics, self.base_score)) (Code4.compute_severity self) := by
  unfold Code4.compute_severity; inv

theorem Foreign.amo (self : Code4.Self) : Foreign (Code4.add_missing_optional self) := by
  unfold Code4.add_missing_optional; foreign

theorem construct_unfold (s : Str) :
    Code4.construct s =
      Code4.parse_vector (Code4.initSelf s []) >>= fun x =>
        Code4.check_mandatory x >>= fun _ =>
          Code4.add_missing_optional x >>= fun y =>
            Code4.compute_base_score y >>= fun z => Code4.compute_severity z := by
  unfold Code4.construct Code4.init; rfl

theorem build_none1 (s : Str) (m : Model.MMap)
    (h : Model.V4.fillModified m Model.V4.modifiedMetrics = none) : Model.V4.build s m = none := by
  simp [Model.V4.build, h]
theorem build_none2 (s : Str) (m m1 : Model.MMap)
    (h : Model.V4.fillModified m Model.V4.modifiedMetrics = some m1)
    (h2 : Model.V4.baseScore (Model.V4.fillDefaults m1 Model.V4.defaultedMetrics) = none) :
    Model.V4.build s m = none := by
  simp [Model.V4.build, h, h2]
theorem build_some (s : Str) (m m1 : Model.MMap) (b : Rat)
    (h : Model.V4.fillModified m Model.V4.modifiedMetrics = some m1)
    (h2 : Model.V4.baseScore (Model.V4.fillDefaults m1 Model.V4.defaultedMetrics) = some b) :
    Model.V4.build s m = some ⟨s, m, Model.V4.fillDefaults m1 Model.V4.defaultedMetrics, b,
      Model.V4.sevOf b⟩ := by
  simp [Model.V4.build, h, h2]

end Aux2

/-- it changes nothing but the score -/
theorem compute_base_score_frame (self x : Code4.Self) (h : Code4.compute_base_score self = .ok x) :
    x.vector = self.vector ∧ x.metrics = self.metrics ∧ x.original_metrics = self.original_metrics := by
  have h1 := Aux2.Keeps.cbs self x h
  simp only [Aux2.key, Prod.mk.injEq] at h1
  exact h1

/-- it raises nothing of the library's own hierarchy -/
theorem compute_base_score_error (self : Code4.Self) (e : Py.Exc)
    (h : Code4.compute_base_score self = .error e) : e.toErr = .foreign :=
  Aux2.Foreign.cbs self e h

/-- THE WHOLE CONSTRUCTOR, for every string: `CVSS4(s)` as translated from the source text and the
    model's `construct` fail with the same exception class or succeed with the same vector, original and
    filled-in metric dicts, score and rating -/
theorem construct_eq (s : Str) :
    ((Code4.construct s).mapError Py.Exc.toErr).map
        (fun x => (x.vector, x.original_metrics, x.metrics, x.base_score, x.severity)) =
      (Model.V4.construct s).map
        (fun o => (o.vector, o.orig, o.metrics, some o.base, some o.severity)) := by
  rw [Aux2.construct_unfold]
  have hp := parse_vector_eq (Code4.initSelf s []) rfl
  change _ = (Model.parseWithPrefix Model.V4.tables [Model.V4.pfx] s).map (fun r => (s, r.2)) at hp
  unfold Model.V4.construct Model.V4.parse
  cases hpv : Code4.parse_vector (Code4.initSelf s []) with
  | error e =>
    rw [hpv] at hp
    cases hm : Model.parseWithPrefix Model.V4.tables [Model.V4.pfx] s with
    | error e' => rw [hm] at hp; cases hp; rfl
    | ok r => rw [hm] at hp; cases hp
  | ok x =>
    rw [hpv] at hp
    cases hm : Model.parseWithPrefix Model.V4.tables [Model.V4.pfx] s with
    | error e' => rw [hm] at hp; cases hp
    | ok r =>
      obtain ⟨i, m⟩ := r
      rw [hm] at hp
      have hp' : (x.vector, x.metrics) = (s, m) := Except.ok.inj hp
      simp only [Prod.mk.injEq] at hp'
      obtain ⟨hx1, hx2⟩ := hp'
      have hc := check_mandatory_eq x
      rw [hx2] at hc
      change ((Code4.check_mandatory x >>= fun _ => Code4.add_missing_optional x >>= fun y =>
        Code4.compute_base_score y >>= fun z => Code4.compute_severity z).mapError _).map _ = _
      cases hcm : Code4.check_mandatory x with
      | error e => rw [hcm] at hc; simp only [← hc]; rfl
      | ok u =>
        rw [hcm] at hc
        simp only [← hc]
        change ((Code4.add_missing_optional x >>= fun y =>
          Code4.compute_base_score y >>= fun z => Code4.compute_severity z).mapError _).map _ =
          (match Model.V4.build s m with
            | none => (Except.error Err.foreign : Except Err Model.V4.Obj)
            | some o => Except.ok o).map _
        have ha := add_missing_optional_eq x
        rw [hx2] at ha
        cases hamo : Code4.add_missing_optional x with
        | error e =>
          have h2 := Aux2.Foreign.amo x e hamo
          rw [hamo] at ha
          cases hfm : Model.V4.fillModified m Model.V4.modifiedMetrics with
          | some m1 => rw [hfm] at ha; cases ha
          | none =>
            simp only [Aux2.build_none1 s m hfm]
            simp only [Aux.error_bind, Except.mapError, Except.map, h2]
        | ok y =>
          have hyv : y.vector = s := (Aux2.Inv.amo x y hamo).trans hx1
          rw [hamo] at ha
          cases hfm : Model.V4.fillModified m Model.V4.modifiedMetrics with
          | none => rw [hfm] at ha; cases ha
          | some m1 =>
            rw [hfm] at ha
            have ha' := Option.some.inj ha
            simp only [Prod.mk.injEq] at ha'
            obtain ⟨hyo, hym⟩ := ha'
            change ((Code4.compute_base_score y >>= fun z => Code4.compute_severity z).mapError _).map _ = _
            have hb := compute_base_score_eq y
            rw [hym] at hb
            cases hcbs : Code4.compute_base_score y with
            | error e =>
              have h2 := compute_base_score_error y e hcbs
              rw [hcbs] at hb
              cases hbs : Model.V4.baseScore (Model.V4.fillDefaults m1 Model.V4.defaultedMetrics) with
              | some b => rw [hbs] at hb; cases hb
              | none =>
                simp only [Aux2.build_none2 s m m1 hfm hbs]
                simp only [Aux.error_bind, Except.mapError, Except.map, h2]
            | ok z =>
              have hzf := compute_base_score_frame y z hcbs
              rw [hcbs] at hb
              cases hbs : Model.V4.baseScore (Model.V4.fillDefaults m1 Model.V4.defaultedMetrics) with
              | none => rw [hbs] at hb; cases hb
              | some b =>
                rw [hbs] at hb
                have hzb : z.base_score = some b := Option.some.inj hb
                change ((Code4.compute_severity z).mapError _).map _ = _
                have hs := compute_severity_eq z b hzb
                cases hcs : Code4.compute_severity z with
                | error e => rw [hcs] at hs; cases hs
                | ok w =>
                  rw [hcs] at hs
                  have hws : w.severity = some (Model.V4.sevOf b) := Except.ok.inj hs
                  have hwk := Aux2.Inv.sev z w hcs
                  simp only [Prod.mk.injEq] at hwk
                  obtain ⟨k1, k2, k3, k4⟩ := hwk
                  simp only [Aux2.build_some s m m1 b hfm hbs]
                  simp only [Except.mapError, Except.map, k1, k2, k3, k4, hws, hzf.1, hzf.2.1, hzf.2.2,
                    hyv, hyo, hym, hzb]

end Cvss.Props.CodeTie4
