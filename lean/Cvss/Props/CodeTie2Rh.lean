/-
  SOURCE TIE, CVSS2: Red Hat notation.  `rh_vector()` and the classmethod `from_rh_vector()` as translated from the
  source text (`float(text)` and `float == float` are the BUILTIN semantics of `Cvss/Model/Float.lean`, which the
  translation refers to through `Py.float` / `Py.scoreEq`) equal the model's `AnyObj.rh` / `fromRh`.
-/
import Cvss.Props.CodeTie2
import Cvss.Props.CodeTie2Scores
import Cvss.Model.Any
namespace Cvss.Props.CodeTie2
open Cvss Cvss.Gen Cvss.Model

/-- the model's `fromRh` for this version, before it is wrapped into `AnyObj` -/
def rhSpec (text : Str) : Except Err V2.Obj :=
  match splitFirst '/' text with
  | none => .error .rhMalformed
  | some (score, baseVector) =>
    match Float.parseFloat score with
    | none => .error .rhMalformed
    | some fv =>
      match V2.construct baseVector with
      | .error e => .error e
      | .ok o => if Float.eqScore o.base fv then .ok o else .error .rhMismatch

theorem rhSpec_eq_model (text : Str) : (rhSpec text).map AnyObj.o2 = fromRh .v2 text := by
  unfold rhSpec fromRh Model.construct
  cases hs : splitFirst '/' text with
  | none => rfl
  | some p =>
    obtain ⟨score, bv⟩ := p
    simp only []
    cases hf : Float.parseFloat score with
    | none => rfl
    | some fv =>
      simp only []
      cases hc : V2.construct bv with
      | error e => rfl
      | ok o =>
        simp only [Except.map]
        show _ = if Float.eqScore o.base fv then _ else _
        cases Float.eqScore o.base fv <;> rfl

/-- `X.from_rh_vector(text)`, for every string: same exception class (RH-malformed, the constructor's classes,
    mismatch) or the same object -/
theorem from_rh_vector_eq (text : Str) :
    ((Code2.from_rh_vector text).mapError Py.Exc.toErr).map
        (fun x => (x.vector, x.metrics, x.base_score, x.temporal_score, x.environmental_score)) =
      (rhSpec text).map
        (fun o => (o.vector, o.metrics, some o.base, o.temporal, o.env)) := by
  unfold Code2.from_rh_vector rhSpec
  cases hs : splitFirst '/' text with
  | none => simp [Py.split1, hs, Py.unpack2, Py.tryExcept, Py.raise, bind, Except.bind, Except.mapError, Except.map, Py.Exc.toErr]
  | some p =>
    obtain ⟨score, bv⟩ := p
    cases hf : Float.parseFloat score with
    | none => simp [Py.split1, hs, hf, Py.float, Py.unpack2, Py.tryExcept, Py.raise, bind, Except.bind, pure, Except.pure, Except.mapError, Except.map, Py.Exc.toErr]
    | some fv =>
      have hc := construct_eq bv
      cases hg : Code2.construct bv with
      | error e =>
        cases hm : V2.construct bv with
        | error e' =>
          rw [hg, hm] at hc
          simp only [Except.mapError, Except.map, Except.error.injEq] at hc
          simp [Py.split1, hs, hf, hg, hm, hc, Py.float, Py.unpack2, Py.tryExcept, bind, Except.bind, pure, Except.pure, Except.mapError, Except.map]
        | ok o => rw [hg, hm] at hc; cases hc
      | ok x =>
        cases hm : V2.construct bv with
        | error e' => rw [hg, hm] at hc; cases hc
        | ok o =>
          rw [hg, hm] at hc
          simp only [Except.mapError, Except.map, Except.ok.injEq, Prod.mk.injEq] at hc
          obtain ⟨h1, h2, h3, h4, h5⟩ := hc
          simp only [Py.split1, hs, hf, hg, hm, scores_eq, h3, Py.listAt, Py.scoreEq, Py.float, Py.unpack2, Py.tryExcept, Py.raise, bind, Except.bind, pure, Except.pure, Except.mapError, Except.map, List.getElem?_cons_zero]
          by_cases he : Float.eqScore o.base fv = true <;> simp [he, h1, h2, h3, h4, h5, Py.Exc.toErr]

/-- `rh_vector()` on a constructed object -/
theorem rh_vector_eq (self : Code2.Self) (o : V2.Obj) (hm : self.metrics = o.metrics) (hb : self.base_score = some o.base)
    (ht : self.temporal_score = o.temporal) (he : self.environmental_score = o.env) :
    Code2.rh_vector self = .ok (AnyObj.rh (.o2 o)) := by
  have _ := ht; have _ := he
  unfold Code2.rh_vector
  simp only [scores_eq, clean_vector_eq, hb, hm, Py.listAt, List.getElem?_cons_zero, bind, Except.bind, pure, Except.pure]
  simp [AnyObj.rh, AnyObj.base, AnyObj.clean, V2.Obj.clean, Py.strScore, showScore]

end Cvss.Props.CodeTie2
