/-
  SOURCE TIE, CVSS4: `scores()` / `severities()` as translated from the source text return the attributes the
  constructor set.
-/
import Cvss.Props.CodeTie4
namespace Cvss.Props.CodeTie4
open Cvss Cvss.Gen

theorem scores_eq (self : Code4.Self) : Code4.scores self = .ok [self.base_score] := rfl

theorem severities_eq (self : Code4.Self) : Code4.severities self = .ok [self.severity] := rfl

theorem scores_eq_model (self : Code4.Self) (o : Model.V4.Obj) (hb : self.base_score = some o.base) :
    Code4.scores self = .ok o.scores := by
  rw [scores_eq, hb]; rfl

theorem severities_eq_model (self : Code4.Self) (o : Model.V4.Obj) (hs : self.severity = some o.severity) :
    (Code4.severities self) = .ok (o.severities.map some) := by
  rw [severities_eq, hs]; rfl

end Cvss.Props.CodeTie4
