/-
  C14, kernel-evaluated finite check for the v3.1 environmental score: Unchanged → Changed
  (modified) scope never lowers the inner Roundup, over all reachable Modified Impact Sub-Scores
  and all exploitability tokens.
-/
import Cvss.Lemmas.Mono
namespace Cvss.Props.C14Tables3c
open Cvss Cvss.Lemmas.Mono

set_option maxRecDepth 100000 in
theorem scopeChk1 : V3.scopeChk 1 = true := by decide +kernel

end Cvss.Props.C14Tables3c
