/-
  C14, kernel-evaluated finite check: every single severity step of a v2 base metric, over all 729
  tuples of legal base tokens, does not lower the base score.
-/
import Cvss.Lemmas.Mono
namespace Cvss.Props.C14Tables2
open Cvss Cvss.Lemmas.Mono

/-- the same list as `C14.steps2base` -/
def steps2base : List (Str × Str × Str) :=
  [(c!"AV", c!"L", c!"A"), (c!"AV", c!"A", c!"N"), (c!"AC", c!"H", c!"M"), (c!"AC", c!"M", c!"L"),
   (c!"Au", c!"M", c!"S"), (c!"Au", c!"S", c!"N"), (c!"C", c!"N", c!"P"), (c!"C", c!"P", c!"C"),
   (c!"I", c!"N", c!"P"), (c!"I", c!"P", c!"C"), (c!"A", c!"N", c!"P"), (c!"A", c!"P", c!"C")]

set_option maxRecDepth 100000 in
theorem base_steps : stepChk V2.baseL V2.keys V2.rows steps2base = true := by
  decide +kernel

end Cvss.Props.C14Tables2
