/-
  C08 — the emitted strings are accepted by the library's own parser and conform to the official patterns
  (constructor level, all versions).
-/
import Cvss.Props.C08
import Cvss.Props.C07Final
import Cvss.Props.C04Final
import Cvss.Props.C16
import Cvss.Lemmas.Rh
import Cvss.Lemmas.V4Glue
namespace Cvss.Props.C08
open Cvss Cvss.Model Cvss.Spec Cvss.Spec.Regex Cvss.Lemmas.Construct

/-- clean vectors are accepted by the own constructor and match the official pattern of their version -/
theorem v2_clean_valid (s : Str) (o : V2.Obj) (h : V2.construct s = .ok o) :
    (∃ o', V2.construct o.clean = .ok o') ∧ Matches pattern20 o.clean := by
  obtain ⟨o', ho', -⟩ := C07.v2_clean_roundtrip s o h
  exact ⟨⟨o', ho'⟩, v2_accepted_matches _ ((C04.v2_construct_accepts_iff _).1 ⟨o', ho'⟩)⟩

theorem v3_clean_valid (s : Str) (o : V3.Obj) (h : V3.construct s = .ok o) :
    (∃ o', V3.construct (o.clean true) = .ok o') ∧
      Matches (if o.minor = 0 then pattern30 else pattern31) (o.clean true) := by
  obtain ⟨o', ho', -⟩ := C07.v3_clean_roundtrip s o h
  have hacc := (C04.v3_construct_accepts_iff _).1 ⟨o', ho'⟩
  obtain ⟨hp, -⟩ := C07.v3_construct_facts h
  obtain ⟨-, -, -, -, -, -, hi⟩ := C07.canon3 hp
  have hcl : o.clean true = V3.versionPrefix o.minor ++
      join '/' ((C07.definedPairs (keys Gen.V3.abbrs) Model.V3.X o.orig).map fieldOf) := by
    show V3.cleanOf o.minor o.orig true = _
    rw [C07.clean_v3, if_pos rfl]
  refine ⟨⟨o', ho'⟩, ?_⟩
  rcases hi with hi | hi
  · rw [if_pos hi]
    apply v30_accepted_matches _ hacc
    rw [hcl, hi]
    exact ⟨_, rfl⟩
  · rw [if_neg (by omega)]
    apply v31_accepted_matches _ hacc
    rw [hcl, hi]
    exact ⟨_, rfl⟩

theorem v4_clean_valid (s : Str) (o : V4.Obj) (h : V4.construct s = .ok o) :
    (∃ o', V4.construct (o.clean true) = .ok o') ∧ Matches pattern40 (o.clean true) := by
  obtain ⟨o', ho', -⟩ := C07.v4_clean_roundtrip s o h
  exact ⟨⟨o', ho'⟩, v4_clean_matches s o.orig (v4_construct_spec h).2.1⟩

/-- the vector part of the Red Hat notation IS the clean vector -/
theorem rh_vector_part (o : AnyObj) : ∃ score, o.rh = score ++ '/' :: o.clean ∧ '/' ∉ score :=
  ⟨showScore o.base, rfl, Lemmas.Rh.showScore_no_slash o.base⟩

/-- the interactive builder's result is accepted by the constructor of the corresponding class -/
theorem ask_result_constructs (v : Interactive.IVer) (allMetrics : Bool) (answers : List Str) (vec : Str) (n : Nat)
    (trace : List (Str × Nat)) (h : Interactive.ask v allMetrics answers = .result vec n trace) :
    ∃ o, construct (match v with | .i2 => Ver.v2 | .i4 => Ver.v4 | _ => Ver.v3) vec = .ok o := by
  cases v with
  | i2 =>
    obtain ⟨m, hm⟩ := C16.ask_result_parses_v2 allMetrics answers vec n trace h
    obtain ⟨o, ho, -⟩ := Lemmas.Invariance.v2_construct_of_parse hm
    exact ⟨.o2 o, by simp only [construct, ho]; rfl⟩
  | i30 =>
    obtain ⟨m, hm⟩ := C16.ask_result_parses_v3 .i30 (Or.inl rfl) allMetrics answers vec n trace h
    obtain ⟨o, ho, -⟩ := Lemmas.Invariance.v3_construct_of_parse hm
    exact ⟨.o3 o, by simp only [construct, ho]; rfl⟩
  | i31 =>
    obtain ⟨m, hm⟩ := C16.ask_result_parses_v3 .i31 (Or.inr rfl) allMetrics answers vec n trace h
    obtain ⟨o, ho, -⟩ := Lemmas.Invariance.v3_construct_of_parse hm
    exact ⟨.o3 o, by simp only [construct, ho]; rfl⟩
  | i4 =>
    obtain ⟨m, hm⟩ := C16.ask_result_parses_v4 allMetrics answers vec n trace h
    obtain ⟨o, ho, -⟩ := Lemmas.V4Glue.v4_construct_of_parse hm
    exact ⟨.o4 o, by simp only [construct, ho]; rfl⟩

end Cvss.Props.C08
