/-
  SOURCE TIE, CVSS4: the hand-written model `Cvss.Model.V4` equals the translation of cvss/cvss4.py that
  `tools/gen_code.py` regenerates from the SOURCE TEXT on every run (`Cvss.Gen.Code4`): `parse_vector`,
  `check_mandatory`, `add_missing_optional` (with their exception classes), `m`, `macroVector`,
  `compute_severity`, `get_value_description`, `clean_vector`, and the literal tables inside
  `compute_base_score` (`*_levels`, `step`, which table each severity distance reads).  The arithmetic of
  `compute_base_score` itself is outside the translator's subset and is tied by correspondence alone.
  Translated code runs in `Py.M = Except Py.Exc`.  Every theorem declared directly in this namespace is
  an obligation.
-/
import Mathlib.Tactic.Ring
import Mathlib.Tactic.NormNum
import Cvss.Py
import Cvss.Gen.Code4
import Cvss.Model.Json
import Cvss.Model.V4
-- (Mathlib's style linters are not part of this project's conventions)
set_option linter.unusedTactic false
set_option linter.unreachableTactic false
set_option linter.unnecessarySeqFocus false
namespace Cvss.Props.CodeTie4
open Cvss Cvss.Gen

namespace Aux

theorem ok_bind {ε α β : Type} (a : α) (f : α → Except ε β) : (Except.ok a >>= f) = f a := rfl
theorem error_bind {ε α β : Type} (e : ε) (f : α → Except ε β) :
    ((Except.error e : Except ε α) >>= f) = .error e := rfl
theorem pure_ok {ε α : Type} (a : α) : (pure a : Except ε α) = .ok a := rfl
theorem toOption_bind {ε α β : Type} (x : Except ε α) (f : α → Except ε β) :
    (x >>= f).toOption = x.toOption.bind (fun a => (f a).toOption) := by
  cases x <;> rfl

theorem levels_tables_eq : Code4.levels = Model.V4.levels := by
  decide +kernel

theorem ite_ok_ok {ε α : Type} (c : Prop) [Decidable c] (a b : α) :
    (if c then (Except.ok a : Except ε α) else .ok b) = .ok (if c then a else b) := by
  split <;> rfl

theorem app6 {a1 a2 a3 a4 a5 a6 : Str} {n1 n2 n3 n4 n5 n6 : Nat}
    (h1 : a1 = natToStr n1) (h2 : a2 = natToStr n2) (h3 : a3 = natToStr n3)
    (h4 : a4 = natToStr n4) (h5 : a5 = natToStr n5) (h6 : a6 = natToStr n6) :
    (((((a1 ++ a2) ++ a3) ++ a4) ++ a5) ++ a6) = Model.V4.mvKey [n1, n2, n3, n4, n5, n6] := by
  subst h1 h2 h3 h4 h5 h6
  simp [Model.V4.mvKey, List.flatMap_cons, List.append_assoc]

theorem n0 : natToStr 0 = ['0'] := by decide
theorem n1 : natToStr 1 = ['1'] := by decide
theorem n2 : natToStr 2 = ['2'] := by decide

end Aux

/-- `m(metric)`: the effective value (never raises) -/
theorem m_eq (self : Code4.Self) (k : Str) :
    Code4.m self k = .ok (Model.V4.mEff self.metrics k) := by
  unfold Code4.m Model.V4.mEff
  delta Model.V4.X
  simp only [Py.get?, Py.contains, hasKey, List.cons_append, List.nil_append,
    Aux.pure_ok]
  by_cases h1 : k = ['E'] ∧ lookup k self.metrics = some ['X']
  · simp only [if_pos h1]
  by_cases h2 : k = ['C', 'R'] ∧ lookup k self.metrics = some ['X']
  · simp only [if_neg h1, if_pos h2]
  by_cases h3 : k = ['I', 'R'] ∧ lookup k self.metrics = some ['X']
  · simp only [if_neg h1, if_neg h2, if_pos h3]
  by_cases h4 : k = ['A', 'R'] ∧ lookup k self.metrics = some ['X']
  · simp only [if_neg h1, if_neg h2, if_neg h3, if_pos h4]
  simp only [if_neg h1, if_neg h2, if_neg h3, if_neg h4]
  rcases Option.eq_none_or_eq_some (lookup ('M' :: k) self.metrics) with hM | ⟨ms, hM⟩
  · simp [hM]
  · simp only [Option.isSome_some, if_true, Py.getitem, hM, Aux.ok_bind]
    by_cases hx : ms = ['X'] <;> simp [hx]

/-- `macroVector()`: whenever the model produces six digits, the translated source returns exactly
    that six-character key (the model's `none` stands for a string containing "None") -/
theorem macroVector_eq (self : Code4.Self) (d : List Nat)
    (h : Model.V4.macroVector self.metrics = some d) :
    Code4.macroVector self = .ok (Model.V4.mvKey d) := by
  unfold Code4.macroVector
  simp only [m_eq, Aux.ok_bind, Aux.pure_ok, Aux.ite_ok_ok]
  unfold Model.V4.macroVector at h
  simp only [] at h
  split at h
  · exact absurd h (by simp)
  · rename_i e5 heq
    injection h with h
    subst h
    congr 1
    apply Aux.app6
    · by_cases a : Model.V4.mEff self.metrics ['A', 'V'] = some ['N'] <;>
      by_cases b : Model.V4.mEff self.metrics ['P', 'R'] = some ['N'] <;>
      by_cases c : Model.V4.mEff self.metrics ['U', 'I'] = some ['N'] <;>
      by_cases e : Model.V4.mEff self.metrics ['A', 'V'] = some ['P'] <;>
      simp [a, b, c, e, Aux.n0, Aux.n1, Aux.n2] <;> simp_all
    · by_cases a : Model.V4.mEff self.metrics ['A', 'C'] = some ['L'] <;>
      by_cases b : Model.V4.mEff self.metrics ['A', 'T'] = some ['N'] <;>
      simp [a, b, Aux.n0, Aux.n1]
    · by_cases a : Model.V4.mEff self.metrics ['V', 'C'] = some ['H'] <;>
      by_cases b : Model.V4.mEff self.metrics ['V', 'I'] = some ['H'] <;>
      by_cases c : Model.V4.mEff self.metrics ['V', 'A'] = some ['H'] <;>
      simp [a, b, c, Aux.n0, Aux.n1, Aux.n2]
    · by_cases a : Model.V4.mEff self.metrics ['M', 'S', 'I'] = some ['S'] <;>
      by_cases b : Model.V4.mEff self.metrics ['M', 'S', 'A'] = some ['S'] <;>
      by_cases c : Model.V4.mEff self.metrics ['S', 'C'] = some ['H'] <;>
      by_cases e : Model.V4.mEff self.metrics ['S', 'I'] = some ['H'] <;>
      by_cases f : Model.V4.mEff self.metrics ['S', 'A'] = some ['H'] <;>
      simp [a, b, c, e, f, Aux.n0, Aux.n1, Aux.n2]
    · by_cases a : Model.V4.mEff self.metrics ['E'] = some ['A'] <;>
      by_cases b : Model.V4.mEff self.metrics ['E'] = some ['P'] <;>
      by_cases c : Model.V4.mEff self.metrics ['E'] = some ['U'] <;>
      simp [a, b, c] at heq <;> subst heq <;> simp [a, b, c, Aux.n0, Aux.n1, Aux.n2]
    · by_cases a : Model.V4.mEff self.metrics ['C', 'R'] = some ['H'] <;>
      by_cases b : Model.V4.mEff self.metrics ['I', 'R'] = some ['H'] <;>
      by_cases c : Model.V4.mEff self.metrics ['A', 'R'] = some ['H'] <;>
      by_cases e : Model.V4.mEff self.metrics ['V', 'C'] = some ['H'] <;>
      by_cases f : Model.V4.mEff self.metrics ['V', 'I'] = some ['H'] <;>
      by_cases g : Model.V4.mEff self.metrics ['V', 'A'] = some ['H'] <;>
      simp [a, b, c, e, f, g, Aux.n0, Aux.n1]

/-- … and when the model has no macro vector, the source's string is not a six-digit key: it contains
    the letter 'N' (of "None") -/
theorem macroVector_none (self : Code4.Self)
    (h : Model.V4.macroVector self.metrics = none) :
    ∃ s, Code4.macroVector self = .ok s ∧ 'N' ∈ s := by
  unfold Code4.macroVector
  simp only [m_eq, Aux.ok_bind, Aux.pure_ok, Aux.ite_ok_ok]
  refine ⟨_, rfl, ?_⟩
  unfold Model.V4.macroVector at h
  simp only [] at h
  split at h
  · rename_i heq
    apply List.mem_append_left
    apply List.mem_append_right
    by_cases a : Model.V4.mEff self.metrics ['E'] = some ['A'] <;>
      by_cases b : Model.V4.mEff self.metrics ['E'] = some ['P'] <;>
      by_cases c : Model.V4.mEff self.metrics ['E'] = some ['U'] <;>
      simp [a, b, c] at heq <;> simp [a, b, c]
  · exact absurd h (by simp)

theorem get_value_description_eq (self : Code4.Self) (a : Str) :
    (Code4.get_value_description self a).toOption = Model.V4.getDescription self.metrics a := by
  unfold Code4.get_value_description Model.V4.getDescription
  simp only [Py.getD, Py.getitem, Model.V4.X, Aux.pure_ok]
  cases lookup a Gen.V4.valueNames with
  | none => rfl
  | some row =>
    simp only [Aux.ok_bind]
    cases lookup ((lookup a self.metrics).getD ['X']) row <;> rfl

namespace Aux

theorem fmt2 (a b : Str) : Py.format c!"{0}:{1}" [a, b] = a ++ ':' :: b := by
  simp [Py.format, Py.formatAux, Py.fmtField]

theorem getitem_some {β : Type} {k : Str} {d : List (Str × β)} {v : β} (h : lookup k d = some v) :
    Py.getitem k d = .ok v := by
  simp [Py.getitem, h]

theorem getitem_none {β : Type} {k : Str} {d : List (Str × β)} (h : lookup k d = none) :
    (Py.getitem k d : Py.M β) = .error .keyError := by
  simp [Py.getitem, h]

def cleanBody (m : List (Str × Str)) (nd : Str) : List Str → Str → Py.M (List Str) :=
  fun (st : (List Str)) (metric : Str) => (do
      let vector := st
      let vector ← (if (Py.contains metric m = true) then (do
          let t1 ← Py.getitem metric m
          let value_ : Str := t1
          let vector ← (if (¬ (value_ = nd)) then (do
              let vector : List Str := vector ++ [(Py.format c!"{0}:{1}" [metric, value_])]
              pure vector) else (do
              pure vector))
          pure vector) else (do
          pure vector))
      pure vector)

def cleanF (m : List (Str × Str)) (nd : Str) : Str → Option Str :=
  fun k =>
    match lookup k m with
    | some v => if v ≠ nd then some (k ++ ':' :: v) else none
    | none => none

theorem clean_step (m : List (Str × Str)) (nd : Str) (k : Str) (acc : List Str) :
    cleanBody m nd acc k = .ok (acc ++ (cleanF m nd k).toList) := by
  unfold cleanBody cleanF
  simp only [Py.contains, hasKey]
  rcases Option.eq_none_or_eq_some (lookup k m) with h | ⟨v, h⟩
  · simp [h, pure_ok]
  · by_cases hv : v = nd
    · simp [h, getitem_some h, hv, pure_ok, ok_bind]
    · simp [h, getitem_some h, hv, fmt2, pure_ok, ok_bind]

theorem clean_fold (m : List (Str × Str)) (nd : Str) (l : List Str) (acc : List Str) :
    List.foldlM (cleanBody m nd) acc l = .ok (acc ++ l.filterMap (cleanF m nd)) := by
  induction l generalizing acc with
  | nil => simp [List.foldlM, pure_ok]
  | cons k l ih =>
    rw [List.foldlM_cons, clean_step]
    simp only [ok_bind, ih, List.filterMap_cons]
    cases cleanF m nd k <;> simp

def mandBody (m : List (Str × Str)) : List Str → Str → Py.M (List Str) :=
  fun (st : (List Str)) (mandatory_metric : Str) => (do
    let missing := st
    let missing ← (if (¬ (Py.contains mandatory_metric m = true)) then (do
        let missing : List Str := missing ++ [mandatory_metric]
        pure missing) else (do
        pure missing))
    pure missing)

theorem mand_step (m : List (Str × Str)) (k : Str) (acc : List Str) :
    mandBody m acc k = .ok (if hasKey k m then acc else acc ++ [k]) := by
  unfold mandBody
  by_cases hk : hasKey k m = true <;> simp [hk, pure_ok]

theorem mand_fold (m : List (Str × Str)) (l : List Str) (acc : List Str) :
    List.foldlM (mandBody m) acc l = .ok (acc ++ l.filter (fun k => !hasKey k m)) := by
  induction l generalizing acc with
  | nil => simp [List.foldlM, pure_ok]
  | cons k l ih =>
    rw [List.foldlM_cons, mand_step, ok_bind, ih]
    by_cases hk : hasKey k m = true <;> simp [hk]


/-! ### `add_missing_optional` -/

def modBody : Code4.Self → Str → Py.M Code4.Self :=
  fun (st : Code4.Self) (abbreviation : Str) => (do
    let self := st
    let b2 ← (do
        if (¬ (Py.contains abbreviation self.metrics = true)) then pure true else (do
            let t1 ← Py.getitem abbreviation self.metrics
            pure (decide (t1 = c!"X"))))
    let self ← (if (b2 = true) then (do
        let t3 ← Py.getitem (List.drop 1 abbreviation) self.metrics
        let self : Code4.Self := { self with metrics := Py.setitem abbreviation t3 self.metrics }
        pure self) else (do
        pure self))
    pure self)

def defBody : Code4.Self → Str → Py.M Code4.Self :=
  fun (st : Code4.Self) (abbreviation : Str) => (do
    let self := st
    let self ← (if (¬ (Py.contains abbreviation self.metrics = true)) then (do
        let self : Code4.Self := { self with metrics := Py.setitem abbreviation c!"X" self.metrics }
        pure self) else (do
        pure self))
    pure self)

def needs (m : List (Str × Str)) (a : Str) : Bool :=
  match lookup a m with
  | some v => decide (v = Model.V4.X)
  | none => true

theorem mod_step (st : Code4.Self) (a : Str) :
    (modBody st a).toOption =
      if needs st.metrics a = true then
        (lookup (a.drop 1) st.metrics).map (fun b => { st with metrics := insert a b st.metrics })
      else some st := by
  unfold modBody needs
  simp only [Py.contains, hasKey, Model.V4.X]
  generalize List.drop 1 a = a'
  rcases Option.eq_none_or_eq_some (lookup a st.metrics) with h | ⟨v, h⟩
  · rcases Option.eq_none_or_eq_some (lookup a' st.metrics) with h' | ⟨b, h'⟩
    · simp [h, h', getitem_none h', pure_ok, ok_bind, error_bind, Except.toOption]
    · simp [h, h', getitem_some h', pure_ok, ok_bind, Except.toOption]
  · by_cases hv : v = ['X']
    · rcases Option.eq_none_or_eq_some (lookup a' st.metrics) with h' | ⟨b, h'⟩
      · simp [h, hv, h', getitem_some h, getitem_none h', pure_ok, ok_bind, error_bind, Except.toOption]
      · simp [h, hv, h', getitem_some h, getitem_some h', pure_ok, ok_bind, Except.toOption]
    · simp [h, hv, getitem_some h, pure_ok, ok_bind, Except.toOption]

theorem fillModified_cons (m : List (Str × Str)) (a : Str) (rest : List Str) :
    Model.V4.fillModified m (a :: rest) =
      if needs m a = true then
        (lookup (a.drop 1) m).bind (fun b => Model.V4.fillModified (insert a b m) rest)
      else Model.V4.fillModified m rest := by
  have h : Model.V4.fillModified m (a :: rest) =
      if needs m a = true then
        (match lookup (a.drop 1) m with
          | none => none
          | some b => Model.V4.fillModified (insert a b m) rest)
      else Model.V4.fillModified m rest := rfl
  rw [h]
  cases lookup (a.drop 1) m <;> rfl

theorem mod_fold (l : List Str) (st : Code4.Self) :
    (List.foldlM modBody st l).toOption =
      (Model.V4.fillModified st.metrics l).map (fun m => { st with metrics := m }) := by
  induction l generalizing st with
  | nil => simp [List.foldlM, pure_ok, Except.toOption, Model.V4.fillModified]
  | cons a l ih =>
    rw [List.foldlM_cons, toOption_bind, mod_step, fillModified_cons]
    simp only [ih]
    by_cases hn : needs st.metrics a = true
    · simp only [hn, if_true]
      cases lookup (List.drop 1 a) st.metrics <;> rfl
    · simp only [hn, Bool.false_eq_true, if_false]
      rfl

theorem def_step (st : Code4.Self) (a : Str) :
    defBody st a = .ok (if hasKey a st.metrics then st else
      { st with metrics := insert a Model.V4.X st.metrics }) := by
  unfold defBody
  by_cases hk : hasKey a st.metrics = true <;> simp [hk, pure_ok, Model.V4.X]

theorem def_fold (l : List Str) (st : Code4.Self) :
    List.foldlM defBody st l = .ok { st with metrics := Model.V4.fillDefaults st.metrics l } := by
  induction l generalizing st with
  | nil => simp [List.foldlM, pure_ok, Model.V4.fillDefaults]
  | cons a l ih =>
    rw [List.foldlM_cons, def_step, ok_bind, ih]
    simp only [Model.V4.fillDefaults]
    by_cases hk : hasKey a st.metrics = true <;> simp [hk]


/-! ### `parse_vector` -/

theorem lookup_legal (k : Str) (l : List (Str × List (Str × Str))) :
    lookup k (l.map (fun x => (x.fst, keys x.snd))) = (lookup k l).map keys := by
  induction l with
  | nil => rfl
  | cons p r ih =>
    obtain ⟨a, b⟩ := p
    simp only [List.map_cons, lookup, ih]
    split <;> rfl

theorem mem_keys_iff {β : Type} (v : Str) (row : List (Str × β)) :
    v ∈ keys row ↔ hasKey v row = true := by
  induction row with
  | nil => simp [keys, hasKey, lookup]
  | cons p r ih =>
    obtain ⟨a, b⟩ := p
    simp only [keys, List.map_cons, List.mem_cons, hasKey, lookup] at ih ⊢
    by_cases h : v = a
    · simp [h]
    · simp [h, ih]

theorem insert_absent {β : Type} (k : Str) (v : β) (l : List (Str × β)) (h : hasKey k l = false) :
    insert k v l = l ++ [(k, v)] := by
  induction l with
  | nil => rfl
  | cons p r ih =>
    obtain ⟨a, b⟩ := p
    simp only [hasKey, lookup] at h ih
    by_cases hk : k = a
    · simp [hk] at h
    · simp only [hk, if_false] at h
      simp [insert, hk, ih h]

def parseBody : Code4.Self → Str → Py.M Code4.Self :=
  fun (st : Code4.Self) (field : Str) => (do
    let self := st
    let () ← (if (field = c!"") then (do
        Py.raise .malformed) else (do
        pure ()))
    let (metric, value_) ← Py.tryExcept (do
        let (metric, value_) ← Py.unpack2 (splitOn ':' field)
        pure (metric, value_)) .valueError (do
        Py.raise .malformed)
    let () ← (if (Py.contains metric self.metrics = true) then (do
        Py.raise .malformed) else (do
        pure ()))
    let () ← (if (¬ (Py.contains metric Gen.V4.valueNames = true)) then (do
        Py.raise .malformed) else (do
        pure ()))
    let t1 ← Py.getitem metric Gen.V4.valueNames
    let () ← (if (¬ (Py.contains value_ t1 = true)) then (do
        Py.raise .malformed) else (do
        pure ()))
    let self : Code4.Self := { self with metrics := Py.setitem metric value_ self.metrics }
    pure self)

theorem parse_step (st : Code4.Self) (f : Str) :
    (parseBody st f).mapError Py.Exc.toErr =
      (Model.parseField Model.V4.tables st.metrics f).map (fun m => { st with metrics := m }) := by
  unfold parseBody Model.parseField
  by_cases hf : f = []
  · simp [hf, Py.raise, error_bind, Except.mapError, Except.map, Py.Exc.toErr]
  simp only [hf, if_false, pure_ok, ok_bind]
  generalize splitOn ':' f = L
  rcases L with _ | ⟨m, _ | ⟨v, _ | ⟨w, r⟩⟩⟩
  · simp [Py.unpack2, Py.tryExcept, Py.raise, error_bind, Except.mapError, Except.map, Py.Exc.toErr]
  · simp [Py.unpack2, Py.tryExcept, Py.raise, error_bind, Except.mapError, Except.map, Py.Exc.toErr]
  · simp only [Py.unpack2, Py.tryExcept, ok_bind, Model.V4.tables, Py.contains, if_true]
    rw [lookup_legal]
    by_cases hd : hasKey m st.metrics = true
    · simp [hd, Py.raise, error_bind, Except.mapError, Except.map, Py.Exc.toErr]
    simp only [hd, Bool.false_eq_true, if_false, ok_bind]
    rcases Option.eq_none_or_eq_some (lookup m Gen.V4.valueNames) with hl | ⟨row, hl⟩
    · simp [hasKey, hl, Py.raise, error_bind, Except.mapError, Except.map, Py.Exc.toErr]
    simp only [hasKey, hl, getitem_some hl, Option.isSome_some, not_true_eq_false, if_false,
      ok_bind, Option.map_some]
    by_cases hv : hasKey v row = true
    · have hv' : v ∈ keys row := (mem_keys_iff v row).2 hv
      have hd' : hasKey m st.metrics = false := by simpa using hd
      simp [hasKey] at hv
      simp [hv, hv', Py.setitem, insert_absent m v st.metrics hd', ok_bind, Except.mapError,
        Except.map]
    · have hv' : ¬ v ∈ keys row := fun h => hv ((mem_keys_iff v row).1 h)
      simp [hasKey] at hv
      simp [hv, hv', Py.raise, error_bind, Except.mapError, Except.map, Py.Exc.toErr]
  · simp [Py.unpack2, Py.tryExcept, Py.raise, error_bind, Except.mapError, Except.map, Py.Exc.toErr]

theorem parse_fold (l : List Str) (st : Code4.Self) :
    (List.foldlM parseBody st l).mapError Py.Exc.toErr =
      (Model.parseFields Model.V4.tables st.metrics l).map (fun m => { st with metrics := m }) := by
  induction l generalizing st with
  | nil => simp [List.foldlM, pure_ok, Model.parseFields, Except.mapError, Except.map]
  | cons f l ih =>
    rw [List.foldlM_cons]
    simp only [Model.parseFields]
    have hs := parse_step st f
    cases hb : parseBody st f with
    | error e =>
      rw [hb] at hs
      cases hp : Model.parseField Model.V4.tables st.metrics f with
      | error e' =>
        rw [hp] at hs
        simp only [Except.mapError, Except.map, Except.error.injEq] at hs
        simp [error_bind, Except.mapError, Except.map, hs]
      | ok m' =>
        rw [hp] at hs
        simp [Except.mapError, Except.map] at hs
    | ok s' =>
      rw [hb] at hs
      cases hp : Model.parseField Model.V4.tables st.metrics f with
      | error e' =>
        rw [hp] at hs
        simp [Except.mapError, Except.map] at hs
      | ok m' =>
        rw [hp] at hs
        simp only [Except.mapError, Except.map, Except.ok.injEq] at hs
        subst hs
        simp only [ok_bind, ih]

theorem parse_vector_unfold (self : Code4.Self) :
    Code4.parse_vector self = (do
      let () ← (if (self.vector = c!"") then (do
          Py.raise .malformed) else (do
          pure ()))
      let () ← (if (endsWithChar '/' self.vector = true) then (do
          Py.raise .malformed) else (do
          pure ()))
      let () ← (if (¬ (startsWith c!"CVSS:4.0/" self.vector = true)) then (do
          Py.raise .malformed) else (do
          pure ()))
      let fields ← Py.tryExcept (do
          let fields : List Str := (List.drop 1 (splitOn '/' self.vector))
          pure fields) .indexError (do
          Py.raise .malformed)
      let self ← List.foldlM parseBody self fields
      pure self) := rfl

end Aux

/-- `parse_vector()` on a fresh object: same outcome class and same metric dict as the model's parser -/
theorem parse_vector_eq (self : Code4.Self) (h : self.metrics = []) :
    ((Code4.parse_vector self).mapError Py.Exc.toErr).map (fun x => (x.vector, x.metrics)) =
      (Model.parseWithPrefix Model.V4.tables [Model.V4.pfx] self.vector).map (fun r => (self.vector, r.2)) := by
  rw [Aux.parse_vector_unfold]
  unfold Model.parseWithPrefix
  by_cases h1 : self.vector = []
  · simp [h1, Py.raise, Aux.error_bind, Except.mapError, Except.map, Py.Exc.toErr]
  by_cases h2 : endsWithChar '/' self.vector = true
  · simp [h1, h2, Py.raise, Aux.error_bind, Aux.ok_bind, Aux.pure_ok, Except.mapError, Except.map,
      Py.Exc.toErr]
  simp only [Model.V4.pfx]
  by_cases h3 : startsWith c!"CVSS:4.0/" self.vector = true
  · simp only [h1, h2, h3, if_false, if_true, not_true_eq_false, Aux.pure_ok, Aux.ok_bind, Py.tryExcept,
      List.findIdx?_cons, List.findIdx?_nil, Bool.false_eq_true]
    rw [Aux.parse_fold, h]
    cases Model.parseFields Model.V4.tables [] (List.drop 1 (splitOn '/' self.vector)) <;> rfl
  · simp [h1, h2, h3, Py.raise, Aux.error_bind, Aux.ok_bind, Aux.pure_ok, Except.mapError, Except.map,
      Py.Exc.toErr, List.findIdx?_cons]

/-- `check_mandatory()` -/
theorem check_mandatory_eq (self : Code4.Self) :
    (Code4.check_mandatory self).mapError Py.Exc.toErr = Model.checkMandatory Model.V4.tables self.metrics := by
  have h := Aux.mand_fold self.metrics Gen.V4.mandatory []
  simp only [List.nil_append] at h
  unfold Code4.check_mandatory Model.checkMandatory
  show ((List.foldlM (Aux.mandBody self.metrics) [] Gen.V4.mandatory >>=
    fun v => _).mapError _) = _
  rw [h]
  simp only [Aux.ok_bind, Model.V4.tables]
  by_cases hall : (Gen.V4.mandatory.all fun k => hasKey k self.metrics) = true
  · have : List.filter (fun k => !hasKey k self.metrics) Gen.V4.mandatory = [] := by
      simp only [List.filter_eq_nil_iff]
      intro a ha
      simp only [List.all_eq_true] at hall
      simp [hall a ha]
    simp [this, hall, Aux.pure_ok, Aux.ok_bind, Except.mapError]
  · have : List.filter (fun k => !hasKey k self.metrics) Gen.V4.mandatory ≠ [] := by
      intro h0
      apply hall
      simp only [List.filter_eq_nil_iff] at h0
      simp only [List.all_eq_true]
      intro a ha
      simpa using h0 a ha
    simp [this, hall, Aux.pure_ok, Aux.error_bind, Except.mapError, Py.raise, Py.Exc.toErr]

/-- `add_missing_optional()`: the original dict is kept, Modified metrics inherit, defaults are filled in -/
theorem add_missing_optional_eq (self : Code4.Self) :
    (Code4.add_missing_optional self).toOption.map (fun s => (s.original_metrics, s.metrics)) =
      (Model.V4.fillModified self.metrics Model.V4.modifiedMetrics).map
        (fun m1 => (self.metrics, Model.V4.fillDefaults m1 Model.V4.defaultedMetrics)) := by
  unfold Code4.add_missing_optional
  show ((List.foldlM Aux.modBody { self with original_metrics := self.metrics }
      Model.V4.modifiedMetrics >>= fun s1 =>
    List.foldlM Aux.defBody s1 Model.V4.defaultedMetrics).toOption.map _) = _
  rw [Aux.toOption_bind, Aux.mod_fold]
  simp only [Aux.def_fold, Except.toOption]
  cases Model.V4.fillModified self.metrics Model.V4.modifiedMetrics <;> rfl

/-- `compute_severity()` once the score is set -/
theorem compute_severity_eq (self : Code4.Self) (b : Rat) (h : self.base_score = some b) :
    (Code4.compute_severity self).map (fun s => s.severity) = .ok (some (Model.V4.sevOf b)) := by
  unfold Code4.compute_severity Model.V4.sevOf
  simp only [h, Py.req, Aux.ok_bind, Aux.pure_ok, Model.V4.r]
  by_cases h0 : b = 0
  · subst h0
    simp [Except.map]
  have e0 : (mkRat 0 1 : Rat) = 0 := by decide
  simp only [e0, Option.some.injEq, if_neg h0]
  by_cases h1 : b ≤ mkRat 39 10
  · simp [h1, Except.map]
  by_cases h2 : b ≤ mkRat 69 10
  · simp [h1, h2, Except.map]
  by_cases h3 : b ≤ mkRat 89 10
  · simp [h1, h2, h3, Except.map]
  · simp [h1, h2, h3, Except.map]

/-- `clean_vector(output_prefix)` -/
theorem clean_vector_eq (self : Code4.Self) (p : Bool) :
    Code4.clean_vector self p = .ok (Model.V4.cleanOf self.original_metrics p) := by
  have h := Aux.clean_fold self.original_metrics c!"X" (keys Gen.V4.abbrs) []
  simp only [List.nil_append] at h
  unfold Code4.clean_vector Model.V4.cleanOf
  show (List.foldlM (Aux.cleanBody self.original_metrics c!"X") [] (keys Gen.V4.abbrs) >>=
    fun v => _) = _
  rw [h]
  cases p <;> rfl

/-- the literal `*_levels` tables: same look-ups (entry order inside a dict literal is irrelevant) -/
theorem levels_eq (k v : Str) :
    (lookup k Code4.levels).bind (lookup v) = (lookup k Model.V4.levels).bind (lookup v) := by
  rw [Aux.levels_tables_eq]

theorem levels_keys_perm : (keys Code4.levels).Perm (keys Model.V4.levels) := by
  have : keys Code4.levels = keys Model.V4.levels := by
    simp [keys, Code4.levels, Model.V4.levels]
  rw [this]

theorem step_eq : Code4.step = Model.V4.r 1 10 := rfl

/-- every one of the 14 severity distances is `X_levels[m(X)] - X_levels[max vector's X]` with the
    metric's own table, in the model's order -/
theorem distMetrics_eq : Code4.distMetrics = Model.V4.distMetrics := rfl


/-- the model's JSON values inside the translation's (which also has `null`) -/
def jOf : Model.JVal → Py.J
  | .str s => .str s
  | .num x => .num x

namespace Aux

def jm (d : Model.JObj) : List (Str × Py.J) := d.map (fun kv => (kv.1, jOf kv.2))

theorem insert_jm (k : Str) (v : Model.JVal) (d : Model.JObj) :
    insert k (jOf v) (jm d) = jm (insert k v d) := by
  induction d with
  | nil => rfl
  | cons p r ih =>
    obtain ⟨a, b⟩ := p
    simp only [jm, List.map_cons, insert] at ih ⊢
    by_cases hk : k = a
    · simp [hk]
    · simp [hk, ih]

theorem strLt_eq (a b : Str) : Py.strLt a b = Model.strLt a b := by
  induction a generalizing b with
  | nil => cases b <;> rfl
  | cons x xs ih =>
    cases b with
    | nil => rfl
    | cons y ys => simp only [Py.strLt, Model.strLt, ih]

theorem insertSorted_jm (kv : Str × Model.JVal) (d : Model.JObj) :
    Py.insertSorted (kv.1, jOf kv.2) (jm d) = jm (Model.insertSorted kv d) := by
  induction d with
  | nil => rfl
  | cons p r ih =>
    simp only [jm, List.map_cons, Py.insertSorted, Model.insertSorted, strLt_eq] at ih ⊢
    by_cases hk : Model.strLt kv.1 p.1 = true
    · simp [hk]
    · simp [hk, ih]

theorem foldl_sorted_jm (l : Model.JObj) (acc : Model.JObj) :
    List.foldl (fun acc kv => Py.insertSorted kv acc) (jm acc) (jm l) =
      jm (List.foldl (fun acc kv => Model.insertSorted kv acc) acc l) := by
  induction l generalizing acc with
  | nil => rfl
  | cons p r ih =>
    simp only [jm, List.map_cons, List.foldl_cons] at ih ⊢
    have := insertSorted_jm p acc
    simp only [jm] at this
    rw [this, ih]

theorem sorted_jm (d : Model.JObj) : Py.sortedItems (jm d) = jm (Model.sortObj d) :=
  foldl_sorted_jm d []

def jsonBody (self : Code4.Self) : List (Str × Py.J) → Str → Py.M (List (Str × Py.J)) :=
  fun (st : (List (Str × Py.J))) (metric : Str) => (do
    let data := st
    let us : Str → Py.M Str := fun text => (do
        if (text = c!"Adjacent") then (do
            pure c!"ADJACENT_NETWORK") else (do
            pure (replaceChar ' ' '_' (replaceChar '-' '_' (Py.upper text)))))
    let add_metric_to_data : List (Str × Py.J) → Str → Py.M (List (Str × Py.J)) := fun data metric => (do
        let t1 ← Py.getitem metric Gen.V4.jsonKeys
        let k : Str := t1
        let t2 ← Code4.get_value_description self metric
        let t3 ← us t2
        let data : List (Str × Py.J) := Py.setitem k (Py.J.str t3) data
        pure data)
    let data ← add_metric_to_data data metric
    pure data)

theorem us_eq (t : Str) :
    (if (t = c!"Adjacent") then (Except.ok c!"ADJACENT_NETWORK" : Py.M Str) else
      (Except.ok (replaceChar ' ' '_' (replaceChar '-' '_' (Py.upper t))))) = .ok (Model.us3 t) := by
  unfold Model.us3 Model.us2
  split <;> rfl

theorem json_step (self : Code4.Self) (d : Model.JObj) (m : Str) :
    (jsonBody self (jm d) m).toOption =
      match lookup m Gen.V4.jsonKeys, Model.V4.getDescription self.metrics m with
      | some k, some ds => some (jm (insert k (.str (Model.us3 ds)) d))
      | _, _ => none := by
  unfold jsonBody
  simp only []
  have hg := get_value_description_eq self m
  rcases Option.eq_none_or_eq_some (lookup m Gen.V4.jsonKeys) with hk | ⟨k, hk⟩
  · rw [getitem_none hk, hk]
    rfl
  · rw [getitem_some hk, hk]
    simp only [ok_bind]
    cases hd : Code4.get_value_description self m with
    | error e =>
      rw [hd] at hg
      simp only [Except.toOption] at hg
      rw [← hg]
      rfl
    | ok ds =>
      rw [hd] at hg
      simp only [Except.toOption] at hg
      rw [← hg]
      simp only [ok_bind, us_eq, pure_ok, Py.setitem, Except.toOption]
      exact congrArg some (insert_jm k (.str (Model.us3 ds)) d)

theorem json_fold (self : Code4.Self) (l : List Str) (d : Model.JObj) :
    (List.foldlM (jsonBody self) (jm d) l).toOption =
      (Model.addMetrics Gen.V4.jsonKeys (Model.V4.getDescription self.metrics) Model.us3 d l).map jm := by
  induction l generalizing d with
  | nil => rfl
  | cons a l ih =>
    rw [List.foldlM_cons, toOption_bind, json_step]
    simp only [Model.addMetrics]
    cases lookup a Gen.V4.jsonKeys with
    | none => rfl
    | some k =>
      cases Model.V4.getDescription self.metrics a with
      | none => rfl
      | some ds => simp only [Option.bind_some, ih]

theorem as_json_unfold (self : Code4.Self) (sort minimal : Bool) :
    Code4.as_json self sort minimal = (do
      let data ← List.foldlM (jsonBody self)
        ([(c!"version", (Py.J.str c!"4")), (c!"vectorString", (Py.J.str self.vector))] : List (Str × Py.J))
        Gen.V4.metricsOrder
      let v4 ← Py.req self.base_score
      let data : List (Str × Py.J) := Py.setitem c!"baseScore" (Py.J.num v4) data
      let data : List (Str × Py.J) := Py.setitem c!"baseSeverity" (match self.severity with | some x => Py.J.str x | none => Py.J.null) data
      let data ← (if (sort = true) then (do
          let data : List (Str × Py.J) := (Py.sortedItems data)
          pure data) else (do
          pure data))
      pure data) := rfl

end Aux

/-- `as_json(sort, minimal)` on a constructed object, all four option sets: same keys, same values, same
    order (or both raise) -/
theorem as_json_eq (self : Code4.Self) (o : Model.V4.Obj) (sort minimal : Bool)
    (hv : o.vector = self.vector) (hm : o.metrics = self.metrics) (hb : self.base_score = some o.base)
    (hs : self.severity = some o.severity) :
    (Code4.as_json self sort minimal).toOption =
      (Model.asJson4 o sort minimal).map (List.map (fun kv => (kv.1, jOf kv.2))) := by
  rw [Aux.as_json_unfold]
  have hmodel : Model.asJson4 o sort minimal =
      (Model.addMetrics Gen.V4.jsonKeys (Model.V4.getDescription o.metrics) Model.us3
        [(c!"version", .str c!"4"), (c!"vectorString", .str o.vector)] Gen.V4.metricsOrder).bind
        (fun d1 => some (if sort = true then
          Model.sortObj (insert c!"baseSeverity" (.str o.severity) (insert c!"baseScore" (.num o.base) d1))
          else insert c!"baseSeverity" (.str o.severity) (insert c!"baseScore" (.num o.base) d1))) := rfl
  rw [hmodel, hv, hm]
  have hf := Aux.json_fold self Gen.V4.metricsOrder
    [(c!"version", .str c!"4"), (c!"vectorString", .str self.vector)]
  simp only [Aux.jm, List.map_cons, List.map_nil, jOf] at hf
  rw [Aux.toOption_bind, hf]
  cases Model.addMetrics Gen.V4.jsonKeys (Model.V4.getDescription self.metrics) Model.us3
      [(c!"version", .str c!"4"), (c!"vectorString", .str self.vector)] Gen.V4.metricsOrder with
  | none => rfl
  | some d1 =>
    have e1 : insert c!"baseScore" (Py.J.num o.base) (Aux.jm d1) =
        Aux.jm (insert c!"baseScore" (.num o.base) d1) := Aux.insert_jm _ (.num o.base) d1
    have e2 : insert c!"baseSeverity" (Py.J.str o.severity)
        (Aux.jm (insert c!"baseScore" (.num o.base) d1)) =
        Aux.jm (insert c!"baseSeverity" (.str o.severity) (insert c!"baseScore" (.num o.base) d1)) :=
      Aux.insert_jm _ (.str o.severity) _
    simp only [Option.map_some, Option.bind_some, hb, hs, Py.req, Aux.ok_bind, Aux.pure_ok,
      Py.setitem, e1, e2]
    cases sort
    · rfl
    · simp only [if_true, Except.toOption, Aux.sorted_jm]
      rfl


/-- `final_rounding(x)` on a finite value -/
theorem final_rounding_eq (x : Rat) : Code4.final_rounding (some x) = .ok (Model.V4.finalRounding x) := by
  rfl

/-! ### `compute_base_score`: the generated body restated in pieces -/

set_option maxRecDepth 100000
set_option linter.unusedVariables false

namespace Aux


def AVl : List (Str × Rat) := ([(c!"N", (mkRat (0) 1)), (c!"A", (mkRat (1) 10)), (c!"L", (mkRat (1) 5)), (c!"P", (mkRat (3) 10))] : List (Str × Rat))
def PRl : List (Str × Rat) := ([(c!"N", (mkRat (0) 1)), (c!"L", (mkRat (1) 10)), (c!"H", (mkRat (1) 5))] : List (Str × Rat))
def UIl : List (Str × Rat) := ([(c!"N", (mkRat (0) 1)), (c!"P", (mkRat (1) 10)), (c!"A", (mkRat (1) 5))] : List (Str × Rat))
def ACl : List (Str × Rat) := ([(c!"L", (mkRat (0) 1)), (c!"H", (mkRat (1) 10))] : List (Str × Rat))
def ATl : List (Str × Rat) := ([(c!"N", (mkRat (0) 1)), (c!"P", (mkRat (1) 10))] : List (Str × Rat))
def VCl : List (Str × Rat) := ([(c!"H", (mkRat (0) 1)), (c!"L", (mkRat (1) 10)), (c!"N", (mkRat (1) 5))] : List (Str × Rat))
def VIl : List (Str × Rat) := ([(c!"H", (mkRat (0) 1)), (c!"L", (mkRat (1) 10)), (c!"N", (mkRat (1) 5))] : List (Str × Rat))
def VAl : List (Str × Rat) := ([(c!"H", (mkRat (0) 1)), (c!"L", (mkRat (1) 10)), (c!"N", (mkRat (1) 5))] : List (Str × Rat))
def SCl : List (Str × Rat) := ([(c!"H", (mkRat (1) 10)), (c!"L", (mkRat (1) 5)), (c!"N", (mkRat (3) 10))] : List (Str × Rat))
def SIl : List (Str × Rat) := ([(c!"S", (mkRat (0) 1)), (c!"H", (mkRat (1) 10)), (c!"L", (mkRat (1) 5)), (c!"N", (mkRat (3) 10))] : List (Str × Rat))
def SAl : List (Str × Rat) := ([(c!"S", (mkRat (0) 1)), (c!"H", (mkRat (1) 10)), (c!"L", (mkRat (1) 5)), (c!"N", (mkRat (3) 10))] : List (Str × Rat))
def CRl : List (Str × Rat) := ([(c!"H", (mkRat (0) 1)), (c!"M", (mkRat (1) 10)), (c!"L", (mkRat (1) 5))] : List (Str × Rat))
def IRl : List (Str × Rat) := ([(c!"H", (mkRat (0) 1)), (c!"M", (mkRat (1) 10)), (c!"L", (mkRat (1) 5))] : List (Str × Rat))
def ARl : List (Str × Rat) := ([(c!"H", (mkRat (0) 1)), (c!"M", (mkRat (1) 10)), (c!"L", (mkRat (1) 5))] : List (Str × Rat))

def cbsStr36 (eq1_val eq2_val eq3_val eq4_val eq5_val eq6_val : Int) : Py.M (Option Str × Option Str × Option Str) :=
  (if ((eq3_val = (1 : Int)) ∧ (eq6_val = (1 : Int))) then (do
      let eq3eq6_next_lower_macro : Str := (List.flatten (List.map (fun val => (Py.strOInt (some val))) ([eq1_val, eq2_val, (eq3_val + (1 : Int)), eq4_val, eq5_val, eq6_val] : List Int)))
      pure ((some eq3eq6_next_lower_macro), (none : Option Str), (none : Option Str))) else (do
      let (eq3eq6_next_lower_macro, eq3eq6_next_lower_macro_left, eq3eq6_next_lower_macro_right) ← (if ((eq3_val = (0 : Int)) ∧ (eq6_val = (1 : Int))) then (do
          let eq3eq6_next_lower_macro : Str := (List.flatten (List.map (fun val => (Py.strOInt (some val))) ([eq1_val, eq2_val, (eq3_val + (1 : Int)), eq4_val, eq5_val, eq6_val] : List Int)))
          pure ((some eq3eq6_next_lower_macro), (none : Option Str), (none : Option Str))) else (do
          let (eq3eq6_next_lower_macro, eq3eq6_next_lower_macro_left, eq3eq6_next_lower_macro_right) ← (if ((eq3_val = (1 : Int)) ∧ (eq6_val = (0 : Int))) then (do
              let eq3eq6_next_lower_macro : Str := (List.flatten (List.map (fun val => (Py.strOInt (some val))) ([eq1_val, eq2_val, eq3_val, eq4_val, eq5_val, (eq6_val + (1 : Int))] : List Int)))
              pure ((some eq3eq6_next_lower_macro), (none : Option Str), (none : Option Str))) else (do
              let (eq3eq6_next_lower_macro_left, eq3eq6_next_lower_macro_right, eq3eq6_next_lower_macro) ← (if ((eq3_val = (0 : Int)) ∧ (eq6_val = (0 : Int))) then (do
                  let eq3eq6_next_lower_macro_left : Str := (List.flatten (List.map (fun val => (Py.strOInt (some val))) ([eq1_val, eq2_val, eq3_val, eq4_val, eq5_val, (eq6_val + (1 : Int))] : List Int)))
                  let eq3eq6_next_lower_macro_right : Str := (List.flatten (List.map (fun val => (Py.strOInt (some val))) ([eq1_val, eq2_val, (eq3_val + (1 : Int)), eq4_val, eq5_val, eq6_val] : List Int)))
                  pure ((some eq3eq6_next_lower_macro_left), (some eq3eq6_next_lower_macro_right), (none : Option Str))) else (do
                  let eq3eq6_next_lower_macro : Str := (List.flatten (List.map (fun val => (Py.strOInt (some val))) ([eq1_val, eq2_val, (eq3_val + (1 : Int)), eq4_val, eq5_val, (eq6_val + (1 : Int))] : List Int)))
                  pure ((none : Option Str), (none : Option Str), (some eq3eq6_next_lower_macro))))
              pure (eq3eq6_next_lower_macro, eq3eq6_next_lower_macro_left, eq3eq6_next_lower_macro_right)))
          pure (eq3eq6_next_lower_macro, eq3eq6_next_lower_macro_left, eq3eq6_next_lower_macro_right)))
      pure (eq3eq6_next_lower_macro, eq3eq6_next_lower_macro_left, eq3eq6_next_lower_macro_right)))

def cbsScore36 (eq3_val eq6_val : Int) (eq3eq6_next_lower_macro eq3eq6_next_lower_macro_left eq3eq6_next_lower_macro_right : Option Str) : Py.M (Option Rat) :=
  (if ((eq3_val = (0 : Int)) ∧ (eq6_val = (0 : Int))) then (do
      let u17 ← Py.bound eq3eq6_next_lower_macro_left
      let score_eq3eq6_next_lower_macro_left : Option Rat := (Py.get? u17 Gen.V4.lookupTable)
      let u18 ← Py.bound eq3eq6_next_lower_macro_right
      let score_eq3eq6_next_lower_macro_right : Option Rat := (Py.get? u18 Gen.V4.lookupTable)
      let score_eq3eq6_next_lower_macro : Option Rat := (Py.fmax score_eq3eq6_next_lower_macro_left score_eq3eq6_next_lower_macro_right)
      pure score_eq3eq6_next_lower_macro) else (do
      let u19 ← Py.bound eq3eq6_next_lower_macro
      let score_eq3eq6_next_lower_macro : Option Rat := (Py.get? u19 Gen.V4.lookupTable)
      pure score_eq3eq6_next_lower_macro))

def cbsProduct (eq1_maxes eq2_maxes eq3_eq6_maxes eq4_maxes eq5_maxes : List (List (Str × Str))) : Py.M (List (List (Str × Str))) :=
  List.foldlM (fun (st : (List (List (Str × Str)))) (eq1_max : List (Str × Str)) => (do
    let max_vectors := st
    let max_vectors ← List.foldlM (fun (st : (List (List (Str × Str)))) (eq2_max : List (Str × Str)) => (do
      let max_vectors := st
      let max_vectors ← List.foldlM (fun (st : (List (List (Str × Str)))) (eq3_eq6_max : List (Str × Str)) => (do
        let max_vectors := st
        let max_vectors ← List.foldlM (fun (st : (List (List (Str × Str)))) (eq4_max : List (Str × Str)) => (do
          let max_vectors := st
          let max_vectors ← List.foldlM (fun (st : (List (List (Str × Str)))) (eq5max : List (Str × Str)) => (do
            let max_vectors := st
            let max_vectors : List (List (Str × Str)) := max_vectors ++ [((((eq1_max ++ eq2_max) ++ eq3_eq6_max) ++ eq4_max) ++ eq5max)]
            pure max_vectors)) max_vectors eq5_maxes
          pure max_vectors)) max_vectors eq4_maxes
        pure max_vectors)) max_vectors eq3_eq6_maxes
      pure max_vectors)) max_vectors eq2_maxes
    pure max_vectors)) ([] : List (List (Str × Str))) eq1_maxes

abbrev SState := (Option Rat) × (Option Rat) × (Option Rat) × (Option Rat) × (Option Rat) × (Option Rat) × (Option Rat) × (Option Rat) × (Option Rat) × (Option Rat) × (Option Rat) × (Option Rat) × (Option Rat) × (Option Rat) × Bool

def cbsSearchBody (self : Code4.Self) : SState → List (Str × Str) → Py.M SState :=
  fun (st : (Option Rat) × (Option Rat) × (Option Rat) × (Option Rat) × (Option Rat) × (Option Rat) × (Option Rat) × (Option Rat) × (Option Rat) × (Option Rat) × (Option Rat) × (Option Rat) × (Option Rat) × (Option Rat) × Bool) (max_vector : List (Str × Str)) => (do
    let (severity_distance_AV, severity_distance_PR, severity_distance_UI, severity_distance_AC, severity_distance_AT, severity_distance_VC, severity_distance_VI, severity_distance_VA, severity_distance_SC, severity_distance_SI, severity_distance_SA, severity_distance_CR, severity_distance_IR, severity_distance_AR, stopped87) := st
    if stopped87 = true then pure st else (do
      let t31 ← Code4.m self c!"AV"
      let t32 ← Py.getitemO t31 AVl
      let t33 ← Py.getitem c!"AV" max_vector
      let t34 ← Py.getitem t33 AVl
      let severity_distance_AV : Option Rat := (some (t32 - t34))
      let t35 ← Code4.m self c!"PR"
      let t36 ← Py.getitemO t35 PRl
      let t37 ← Py.getitem c!"PR" max_vector
      let t38 ← Py.getitem t37 PRl
      let severity_distance_PR : Option Rat := (some (t36 - t38))
      let t39 ← Code4.m self c!"UI"
      let t40 ← Py.getitemO t39 UIl
      let t41 ← Py.getitem c!"UI" max_vector
      let t42 ← Py.getitem t41 UIl
      let severity_distance_UI : Option Rat := (some (t40 - t42))
      let t43 ← Code4.m self c!"AC"
      let t44 ← Py.getitemO t43 ACl
      let t45 ← Py.getitem c!"AC" max_vector
      let t46 ← Py.getitem t45 ACl
      let severity_distance_AC : Option Rat := (some (t44 - t46))
      let t47 ← Code4.m self c!"AT"
      let t48 ← Py.getitemO t47 ATl
      let t49 ← Py.getitem c!"AT" max_vector
      let t50 ← Py.getitem t49 ATl
      let severity_distance_AT : Option Rat := (some (t48 - t50))
      let t51 ← Code4.m self c!"VC"
      let t52 ← Py.getitemO t51 VCl
      let t53 ← Py.getitem c!"VC" max_vector
      let t54 ← Py.getitem t53 VCl
      let severity_distance_VC : Option Rat := (some (t52 - t54))
      let t55 ← Code4.m self c!"VI"
      let t56 ← Py.getitemO t55 VIl
      let t57 ← Py.getitem c!"VI" max_vector
      let t58 ← Py.getitem t57 VIl
      let severity_distance_VI : Option Rat := (some (t56 - t58))
      let t59 ← Code4.m self c!"VA"
      let t60 ← Py.getitemO t59 VAl
      let t61 ← Py.getitem c!"VA" max_vector
      let t62 ← Py.getitem t61 VAl
      let severity_distance_VA : Option Rat := (some (t60 - t62))
      let t63 ← Code4.m self c!"SC"
      let t64 ← Py.getitemO t63 SCl
      let t65 ← Py.getitem c!"SC" max_vector
      let t66 ← Py.getitem t65 SCl
      let severity_distance_SC : Option Rat := (some (t64 - t66))
      let t67 ← Code4.m self c!"SI"
      let t68 ← Py.getitemO t67 SIl
      let t69 ← Py.getitem c!"SI" max_vector
      let t70 ← Py.getitem t69 SIl
      let severity_distance_SI : Option Rat := (some (t68 - t70))
      let t71 ← Code4.m self c!"SA"
      let t72 ← Py.getitemO t71 SAl
      let t73 ← Py.getitem c!"SA" max_vector
      let t74 ← Py.getitem t73 SAl
      let severity_distance_SA : Option Rat := (some (t72 - t74))
      let t75 ← Code4.m self c!"CR"
      let t76 ← Py.getitemO t75 CRl
      let t77 ← Py.getitem c!"CR" max_vector
      let t78 ← Py.getitem t77 CRl
      let severity_distance_CR : Option Rat := (some (t76 - t78))
      let t79 ← Code4.m self c!"IR"
      let t80 ← Py.getitemO t79 IRl
      let t81 ← Py.getitem c!"IR" max_vector
      let t82 ← Py.getitem t81 IRl
      let severity_distance_IR : Option Rat := (some (t80 - t82))
      let t83 ← Code4.m self c!"AR"
      let t84 ← Py.getitemO t83 ARl
      let t85 ← Py.getitem c!"AR" max_vector
      let t86 ← Py.getitem t85 ARl
      let severity_distance_AR : Option Rat := (some (t84 - t86))
      let u102 ← Py.bound severity_distance_AV
      let u103 ← Py.bound severity_distance_PR
      let u104 ← Py.bound severity_distance_UI
      let u105 ← Py.bound severity_distance_AC
      let u106 ← Py.bound severity_distance_AT
      let u107 ← Py.bound severity_distance_VC
      let u108 ← Py.bound severity_distance_VI
      let u109 ← Py.bound severity_distance_VA
      let u110 ← Py.bound severity_distance_SC
      let u111 ← Py.bound severity_distance_SI
      let u112 ← Py.bound severity_distance_SA
      let u113 ← Py.bound severity_distance_CR
      let u114 ← Py.bound severity_distance_IR
      let u115 ← Py.bound severity_distance_AR
      pure (severity_distance_AV, severity_distance_PR, severity_distance_UI, severity_distance_AC, severity_distance_AT, severity_distance_VC, severity_distance_VI, severity_distance_VA, severity_distance_SC, severity_distance_SI, severity_distance_SA, severity_distance_CR, severity_distance_IR, severity_distance_AR, (decide (¬ ((List.any ([u102, u103, u104, u105, u106, u107, u108, u109, u110, u111, u112, u113, u114, u115] : List Rat) (fun met => decide (met < (((0 : Int) : Int) : Rat)))) = true))))))

def cbsBlk (n : Int) (avail : Option Rat) (cur ms : Rat) : Py.M (Int × Rat × Option Rat) :=
  (if (True ∧ (Py.fge avail (some (((0 : Int) : Int) : Rat)) = true)) then (do
      let n_existing_lower : Int := (n + (1 : Int))
      let t134 ← Py.div cur ms
      let percent_to_next_eq1_severity : Rat := t134
      let normalized_severity_eq1 : Option Rat := (Py.fmul avail (some percent_to_next_eq1_severity))
      pure (n_existing_lower, percent_to_next_eq1_severity, normalized_severity_eq1)) else (do
      pure (n, (((0 : Int) : Int) : Rat), (some (((0 : Int) : Int) : Rat)))))

def cbsBlk5 (n : Int) (avail : Option Rat) : Py.M (Int × Int × Option Rat) :=
  (if (True ∧ (Py.fge avail (some (((0 : Int) : Int) : Rat)) = true)) then (do
      let n_existing_lower : Int := (n + (1 : Int))
      let percent_to_next_eq5_severity : Int := (0 : Int)
      let normalized_severity_eq5 : Option Rat := (Py.fmul avail (some ((percent_to_next_eq5_severity : Int) : Rat)))
      pure (n_existing_lower, percent_to_next_eq5_severity, normalized_severity_eq5)) else (do
      pure (n, (0 : Int), (some (((0 : Int) : Int) : Rat)))))

def cbsFinal (self : Code4.Self) (value_ : Rat) (n_existing_lower : Int)
    (normalized_severity_eq1 normalized_severity_eq2 normalized_severity_eq3eq6 normalized_severity_eq4
      normalized_severity_eq5 : Option Rat) : Py.M Code4.Self := do
  let t139 ← (if (n_existing_lower = (0 : Int)) then (do
      pure (some (((0 : Int) : Int) : Rat))) else (do
      let t138 ← Py.fdiv (Py.fadd (Py.fadd (Py.fadd (Py.fadd normalized_severity_eq1 normalized_severity_eq2) normalized_severity_eq3eq6) normalized_severity_eq4) normalized_severity_eq5) (some ((n_existing_lower : Int) : Rat))
      pure t138))
  let mean_distance : Option Rat := t139
  let value_ : Option Rat := (Py.fsub (some value_) mean_distance)
  let value_ : Option Rat := (Py.fmax (some (mkRat (0) 1)) value_)
  let value_ : Option Rat := (Py.fmin (some (mkRat (10) 1)) value_)
  let t140 ← Code4.final_rounding value_
  let self : Code4.Self := { self with base_score := (some t140) }
  pure self

def cbsArith (self : Code4.Self) (value_ : Rat) (eq1_val eq2_val eq3_val eq4_val eq6_val : Int)
    (s1 s2 s36 s4 s5 : Option Rat) (c1 c2 c36 c4 : Rat) : Py.M Code4.Self := do
  let step_ : Rat := (mkRat (1) 10)
  let t130 ← Py.getitemN eq1_val Gen.V4.maxSeverityEq1
  let max_severity_eq1 : Rat := (((t130 : Int) : Rat) * step_)
  let t131 ← Py.getitemN eq2_val Gen.V4.maxSeverityEq2
  let max_severity_eq2 : Rat := (((t131 : Int) : Rat) * step_)
  let t132 ← Py.getitemNN eq3_val eq6_val Gen.V4.maxSeverityEq36
  let max_severity_eq3eq6 : Rat := (((t132 : Int) : Rat) * step_)
  let t133 ← Py.getitemN eq4_val Gen.V4.maxSeverityEq4
  let max_severity_eq4 : Rat := (((t133 : Int) : Rat) * step_)
  let (n_existing_lower, percent_to_next_eq1_severity, normalized_severity_eq1) ← cbsBlk (0 : Int) (Py.fsub (some value_) s1) c1 max_severity_eq1
  let (n_existing_lower, percent_to_next_eq2_severity, normalized_severity_eq2) ← cbsBlk n_existing_lower (Py.fsub (some value_) s2) c2 max_severity_eq2
  let (n_existing_lower, percent_to_next_eq3eq6_severity, normalized_severity_eq3eq6) ← cbsBlk n_existing_lower (Py.fsub (some value_) s36) c36 max_severity_eq3eq6
  let (n_existing_lower, percent_to_next_eq4_severity, normalized_severity_eq4) ← cbsBlk n_existing_lower (Py.fsub (some value_) s4) c4 max_severity_eq4
  let (n_existing_lower, percent_to_next_eq5_severity, normalized_severity_eq5) ← cbsBlk5 n_existing_lower (Py.fsub (some value_) s5)
  cbsFinal self value_ n_existing_lower normalized_severity_eq1 normalized_severity_eq2 normalized_severity_eq3eq6 normalized_severity_eq4 normalized_severity_eq5

def cbsTail (self : Code4.Self) (value_ : Rat) (eq1_val eq2_val eq3_val eq4_val eq6_val : Int)
    (s1 s2 s36 s4 s5 : Option Rat)
    (severity_distance_AV severity_distance_PR severity_distance_UI severity_distance_AC severity_distance_AT
      severity_distance_VC severity_distance_VI severity_distance_VA severity_distance_SC severity_distance_SI
      severity_distance_SA severity_distance_CR severity_distance_IR severity_distance_AR : Option Rat) :
    Py.M Code4.Self := do
  let u116 ← Py.bound severity_distance_AV
  let u117 ← Py.bound severity_distance_PR
  let u118 ← Py.bound severity_distance_UI
  let current_severity_distance_eq1 : Rat := ((u116 + u117) + u118)
  let u119 ← Py.bound severity_distance_AC
  let u120 ← Py.bound severity_distance_AT
  let current_severity_distance_eq2 : Rat := (u119 + u120)
  let u121 ← Py.bound severity_distance_VC
  let u122 ← Py.bound severity_distance_VI
  let u123 ← Py.bound severity_distance_VA
  let u124 ← Py.bound severity_distance_CR
  let u125 ← Py.bound severity_distance_IR
  let u126 ← Py.bound severity_distance_AR
  let current_severity_distance_eq3eq6 : Rat := (((((u121 + u122) + u123) + u124) + u125) + u126)
  let u127 ← Py.bound severity_distance_SC
  let u128 ← Py.bound severity_distance_SI
  let u129 ← Py.bound severity_distance_SA
  let current_severity_distance_eq4 : Rat := ((u127 + u128) + u129)
  cbsArith self value_ eq1_val eq2_val eq3_val eq4_val eq6_val s1 s2 s36 s4 s5
    current_severity_distance_eq1 current_severity_distance_eq2 current_severity_distance_eq3eq6 current_severity_distance_eq4

def mvS (l : List Int) : Str := (List.flatten (List.map (fun val => (Py.strOInt (some val))) l))

def cbsRest (self : Code4.Self) (macroVector : Str) (value_ : Rat) (eq1_val eq2_val eq3_val eq4_val eq5_val eq6_val : Int) :
    Py.M Code4.Self := do
  let (eq3eq6_next_lower_macro, eq3eq6_next_lower_macro_left, eq3eq6_next_lower_macro_right) ← cbsStr36 eq1_val eq2_val eq3_val eq4_val eq5_val eq6_val
  let score_eq3eq6_next_lower_macro ← cbsScore36 eq3_val eq6_val eq3eq6_next_lower_macro eq3eq6_next_lower_macro_left eq3eq6_next_lower_macro_right
  let t20 ← Py.charAt macroVector 0
  let t21 ← Py.getitem t20 Gen.V4.maxEq1
  let eq1_maxes : List (List (Str × Str)) := t21
  let t22 ← Py.charAt macroVector 1
  let t23 ← Py.getitem t22 Gen.V4.maxEq2
  let eq2_maxes : List (List (Str × Str)) := t23
  let t24 ← Py.charAt macroVector 5
  let t25 ← Py.charAt macroVector 2
  let t26 ← Py.getitem (t25 ++ t24) Gen.V4.maxEq36
  let eq3_eq6_maxes : List (List (Str × Str)) := t26
  let t27 ← Py.charAt macroVector 3
  let t28 ← Py.getitem t27 Gen.V4.maxEq4
  let eq4_maxes : List (List (Str × Str)) := t28
  let t29 ← Py.charAt macroVector 4
  let t30 ← Py.getitem t29 Gen.V4.maxEq5
  let eq5_maxes : List (List (Str × Str)) := t30
  let max_vectors ← cbsProduct eq1_maxes eq2_maxes eq3_eq6_maxes eq4_maxes eq5_maxes
  let (severity_distance_AV, severity_distance_PR, severity_distance_UI, severity_distance_AC, severity_distance_AT, severity_distance_VC, severity_distance_VI, severity_distance_VA, severity_distance_SC, severity_distance_SI, severity_distance_SA, severity_distance_CR, severity_distance_IR, severity_distance_AR, stopped87) ← List.foldlM (cbsSearchBody self) ((none : Option Rat), (none : Option Rat), (none : Option Rat), (none : Option Rat), (none : Option Rat), (none : Option Rat), (none : Option Rat), (none : Option Rat), (none : Option Rat), (none : Option Rat), (none : Option Rat), (none : Option Rat), (none : Option Rat), (none : Option Rat), false) max_vectors
  cbsTail self value_ eq1_val eq2_val eq3_val eq4_val eq6_val
    (Py.get? (mvS [(eq1_val + (1 : Int)), eq2_val, eq3_val, eq4_val, eq5_val, eq6_val]) Gen.V4.lookupTable)
    (Py.get? (mvS [eq1_val, (eq2_val + (1 : Int)), eq3_val, eq4_val, eq5_val, eq6_val]) Gen.V4.lookupTable)
    score_eq3eq6_next_lower_macro
    (Py.get? (mvS [eq1_val, eq2_val, eq3_val, (eq4_val + (1 : Int)), eq5_val, eq6_val]) Gen.V4.lookupTable)
    (Py.get? (mvS [eq1_val, eq2_val, eq3_val, eq4_val, (eq5_val + (1 : Int)), eq6_val]) Gen.V4.lookupTable)
    severity_distance_AV severity_distance_PR severity_distance_UI severity_distance_AC severity_distance_AT
    severity_distance_VC severity_distance_VI severity_distance_VA severity_distance_SC severity_distance_SI
    severity_distance_SA severity_distance_CR severity_distance_IR severity_distance_AR

def cbsMain (self : Code4.Self) (macroVector : Str) : Py.M Code4.Self := do
  let t4 ← Py.getitem macroVector Gen.V4.lookupTable
  let t5 ← Py.charAt macroVector 0
  let t6 ← Py.int t5
  let t7 ← Py.charAt macroVector 1
  let t8 ← Py.int t7
  let t9 ← Py.charAt macroVector 2
  let t10 ← Py.int t9
  let t11 ← Py.charAt macroVector 3
  let t12 ← Py.int t11
  let t13 ← Py.charAt macroVector 4
  let t14 ← Py.int t13
  let t15 ← Py.charAt macroVector 5
  let t16 ← Py.int t15
  cbsRest self macroVector t4 t6 t8 t10 t12 t14 t16

def cbsAll (self : Code4.Self) : Py.M Code4.Self := do
  let t1 ← Code4.macroVector self
  let l3 ← List.mapM (fun (metric : Str) => (do
      let t2 ← Code4.m self metric
      pure (decide (t2 = some c!"N")))) ([c!"VC", c!"VI", c!"VA", c!"SC", c!"SI", c!"SA"] : List Str)
  if ((List.all l3 (fun b => b)) = true) then (do
      let self : Code4.Self := { self with base_score := (some (mkRat (0) 1)) }
      pure self) else cbsMain self t1

theorem cbs_unfold (self : Code4.Self) : Code4.compute_base_score self = cbsAll self := rfl

theorem fold_flat {α β : Type} (F : List β → α → Py.M (List β)) (h : α → List β)
    (hF : ∀ acc x, F acc x = .ok (acc ++ h x)) (l : List α) (init : List β) :
    List.foldlM F init l = .ok (init ++ l.flatMap h) := by
  induction l generalizing init with
  | nil => simp [List.foldlM, pure_ok]
  | cons a l ih =>
    rw [List.foldlM_cons, hF, ok_bind, ih]
    simp [List.flatMap_cons, List.append_assoc]

theorem flatMap_single {α β : Type} (f : α → β) (l : List α) :
    l.flatMap (fun x => [f x]) = l.map f := by
  induction l with
  | nil => rfl
  | cons a l ih => simp [List.flatMap_cons, ih]

theorem cbsProduct_eq (e1 e2 e36 e4 e5 : List (List (Str × Str))) :
    cbsProduct e1 e2 e36 e4 e5 = .ok (Model.V4.product e1 e2 e36 e4 e5) := by
  unfold cbsProduct Model.V4.product
  refine (fold_flat _ (fun a => e2.flatMap fun b => e36.flatMap fun c => e4.flatMap fun d =>
    e5.map fun e => a ++ b ++ c ++ d ++ e) ?_ _ _).trans (by simp)
  intro acc a
  refine (fold_flat _ (fun b => e36.flatMap fun c => e4.flatMap fun d =>
    e5.map fun e => a ++ b ++ c ++ d ++ e) ?_ _ _)
  intro acc b
  refine (fold_flat _ (fun c => e4.flatMap fun d =>
    e5.map fun e => a ++ b ++ c ++ d ++ e) ?_ _ _)
  intro acc c
  refine (fold_flat _ (fun d =>
    e5.map fun e => a ++ b ++ c ++ d ++ e) ?_ _ _)
  intro acc d
  refine (fold_flat _ (fun e => [a ++ b ++ c ++ d ++ e]) ?_ _ _).trans (by rw [flatMap_single])
  intro acc e
  rfl

theorem strOInt_nat (n : Nat) : Py.strOInt (some (n : Int)) = natToStr n := rfl

theorem mvS_map (l : List Nat) : mvS (l.map (fun (n : Nat) => (n : Int))) = Model.V4.mvKey l := by
  unfold mvS Model.V4.mvKey
  induction l with
  | nil => rfl
  | cons a l ih =>
    simp only [List.map_cons, List.flatten_cons, List.flatMap_cons, strOInt_nat] at ih ⊢
    rw [ih]

theorem mvS6 (a b c d e f : Nat) :
    mvS [(a : Int), (b : Int), (c : Int), (d : Int), (e : Int), (f : Int)] = Model.V4.mvKey [a, b, c, d, e, f] :=
  mvS_map [a, b, c, d, e, f]

theorem cast_succ' (n : Nat) : ((n : Int) + (1 : Int)) = ((n + 1 : Nat) : Int) := rfl

/-- the model's `s36` -/
def mS36 (e1 e2 e3 e4 e5 e6 : Nat) : Option Rat :=
  if e3 = 1 ∧ e6 = 1 then Model.V4.lookupScore [e1, e2, e3 + 1, e4, e5, e6]
  else if e3 = 0 ∧ e6 = 1 then Model.V4.lookupScore [e1, e2, e3 + 1, e4, e5, e6]
  else if e3 = 1 ∧ e6 = 0 then Model.V4.lookupScore [e1, e2, e3, e4, e5, e6 + 1]
  else if e3 = 0 ∧ e6 = 0 then
    Model.V4.pyMaxNan (Model.V4.lookupScore [e1, e2, e3, e4, e5, e6 + 1]) (Model.V4.lookupScore [e1, e2, e3 + 1, e4, e5, e6])
  else Model.V4.lookupScore [e1, e2, e3 + 1, e4, e5, e6 + 1]

theorem fmax_eq (a b : Option Rat) : Py.fmax a b = Model.V4.pyMaxNan a b := by
  cases a <;> cases b <;> simp only [Py.fmax, Py.fgt, Py.flt, Model.V4.pyMaxNan, gt_iff_lt, decide_eq_true_eq] <;>
    (try split) <;> simp

theorem s36_eq (e1 e2 e3 e4 e5 e6 : Nat) :
    ∃ a b c, cbsStr36 e1 e2 e3 e4 e5 e6 = .ok (a, b, c) ∧
      cbsScore36 e3 e6 a b c = .ok (mS36 e1 e2 e3 e4 e5 e6) := by
  have h31 : ((e3 : Int) = 1) ↔ e3 = 1 := by omega
  have h30 : ((e3 : Int) = 0) ↔ e3 = 0 := by omega
  have h61 : ((e6 : Int) = 1) ↔ e6 = 1 := by omega
  have h60 : ((e6 : Int) = 0) ↔ e6 = 0 := by omega
  unfold cbsStr36 cbsScore36 mS36
  simp only [h31, h30, h61, h60]
  by_cases c1 : e3 = 1 ∧ e6 = 1
  · refine ⟨_, _, _, by rw [if_pos c1]; rfl, ?_⟩
    have c0 : ¬ (e3 = 0 ∧ e6 = 0) := by omega
    simp only [if_pos c1, if_neg c0, Py.bound, ok_bind, pure_ok, Py.get?, Model.V4.lookupScore]
    rw [cast_succ', ← mvS, mvS6]
  by_cases c2 : e3 = 0 ∧ e6 = 1
  · refine ⟨_, _, _, by simp only [if_neg c1, if_pos c2]; rfl, ?_⟩
    have c0 : ¬ (e3 = 0 ∧ e6 = 0) := by omega
    simp only [if_neg c1, if_pos c2, if_neg c0, Py.bound, ok_bind, pure_ok, Py.get?, Model.V4.lookupScore]
    rw [cast_succ', ← mvS, mvS6]
  by_cases c3 : e3 = 1 ∧ e6 = 0
  · refine ⟨_, _, _, by simp only [if_neg c1, if_neg c2, if_pos c3]; rfl, ?_⟩
    have c0 : ¬ (e3 = 0 ∧ e6 = 0) := by omega
    simp only [if_neg c1, if_neg c2, if_pos c3, if_neg c0, Py.bound, ok_bind, pure_ok, Py.get?, Model.V4.lookupScore]
    rw [cast_succ', ← mvS, mvS6]
  by_cases c0 : e3 = 0 ∧ e6 = 0
  · refine ⟨_, _, _, by simp only [if_neg c1, if_neg c2, if_neg c3, if_pos c0]; rfl, ?_⟩
    simp only [if_neg c1, if_neg c2, if_neg c3, if_pos c0, Py.bound, ok_bind, pure_ok, Py.get?, Model.V4.lookupScore,
      fmax_eq]
    rw [cast_succ', cast_succ', ← mvS, ← mvS, mvS6, mvS6]
  · refine ⟨_, _, _, by simp only [if_neg c1, if_neg c2, if_neg c3, if_neg c0]; rfl, ?_⟩
    simp only [if_neg c1, if_neg c2, if_neg c3, if_neg c0, Py.bound, ok_bind, pure_ok, Py.get?, Model.V4.lookupScore]
    rw [cast_succ', cast_succ', ← mvS, mvS6]

theorem fdiv_some (a b : Rat) (h : b ≠ 0) : Py.fdiv (some a) (some b) = .ok (some (a / b)) := by
  unfold Py.fdiv
  split
  · rename_i h1 h2 h3
    simp at h3
    exact absurd h3 h
  · simp_all
  · simp_all

theorem getitemN_nat (n : Nat) (d : List (Nat × Nat)) :
    Py.getitemN (n : Int) d = match lookup n d with
      | some v => .ok (v : Int)
      | none => .error .keyError := by
  unfold Py.getitemN
  have h : ¬ ((n : Int) < 0) := by omega
  simp only [if_neg h, Int.toNat_natCast]
  cases lookup n d <;> rfl

theorem getitemNN_nat (i j : Nat) (d : List ((Nat × Nat) × Nat)) :
    Py.getitemNN (i : Int) (j : Int) d = match lookup (i, j) d with
      | some v => .ok (v : Int)
      | none => .error .keyError := by
  unfold Py.getitemNN
  have h : ¬ ((i : Int) < 0 ∨ (j : Int) < 0) := by omega
  simp only [if_neg h, Int.toNat_natCast]
  cases lookup (i, j) d <;> rfl

theorem blk_ok (n : Int) (value : Rat) (lower : Option Rat) (cur ms : Rat) :
    match Model.V4.contribution value lower cur ms with
    | none => ∃ e, cbsBlk n (Py.fsub (some value) lower) cur ms = .error e
    | some k => ∃ p, cbsBlk n (Py.fsub (some value) lower) cur ms = .ok (n + (k.1 : Int), p, some k.2) := by
  unfold cbsBlk Model.V4.contribution
  cases lower with
  | none =>
    simp only [Py.fsub, Py.fge, Py.fle, Bool.false_eq_true, and_false, if_false, pure_ok]
    exact ⟨0, by simp⟩
  | some l =>
    simp only [Py.fsub, Py.fge, Py.fle, true_and, decide_eq_true_eq, Int.cast_zero, ge_iff_le]
    by_cases h : 0 ≤ value - l
    · simp only [if_pos h, Py.div]
      by_cases h0 : ms = 0
      · simp only [if_pos h0]
        exact ⟨_, rfl⟩
      · simp only [if_neg h0, ok_bind, pure_ok, Py.fmul]
        exact ⟨cur / ms, by simp⟩
    · simp only [if_neg h, pure_ok]
      exact ⟨0, by simp⟩

/-- the model's `k5` -/
def mK5 (value : Rat) (s5 : Option Rat) : Nat × Rat :=
  match s5 with
  | none => (0, 0)
  | some l => if value - l ≥ 0 then (1, 0) else (0, 0)

theorem blk5_ok (n : Int) (value : Rat) (lower : Option Rat) :
    ∃ p, cbsBlk5 n (Py.fsub (some value) lower) = .ok (n + ((mK5 value lower).1 : Int), p, some (mK5 value lower).2) := by
  unfold cbsBlk5 mK5
  cases lower with
  | none =>
    simp only [Py.fsub, Py.fge, Py.fle, Bool.false_eq_true, and_false, if_false, pure_ok]
    exact ⟨0, by simp⟩
  | some l =>
    simp only [Py.fsub, Py.fge, Py.fle, true_and, decide_eq_true_eq, Int.cast_zero, ge_iff_le]
    by_cases h : 0 ≤ value - l
    · simp only [if_pos h, pure_ok, Py.fmul]
      exact ⟨0, by simp⟩
    · simp only [if_neg h, pure_ok]
      exact ⟨0, by simp⟩

theorem cbsFinal_eq (self : Code4.Self) (value : Rat) (N : Nat) (x1 x2 x3 x4 x5 : Rat) :
    cbsFinal self value (N : Int) (some x1) (some x2) (some x3) (some x4) (some x5) =
      .ok { self with base_score := some (Model.V4.finalRounding (pyMin 10 (pyMax 0
        (value - (if N = 0 then (0 : Rat) else (x1 + x2 + x3 + x4 + x5) / N))))) } := by
  unfold cbsFinal
  have e0 : (mkRat 0 1 : Rat) = 0 := by rfl
  have e10 : (mkRat 10 1 : Rat) = 10 := by norm_num
  have hmax : ∀ v : Rat, Py.fmax (some 0) (some v) = some (pyMax 0 v) := by
    intro v
    simp only [Py.fmax, Py.fgt, Py.flt, pyMax, gt_iff_lt, decide_eq_true_eq]
    split <;> rfl
  have hmin : ∀ v : Rat, Py.fmin (some 10) (some v) = some (pyMin 10 v) := by
    intro v
    simp only [Py.fmin, Py.flt, pyMin, decide_eq_true_eq]
    split <;> rfl
  by_cases hN : N = 0
  · subst hN
    simp only [Nat.cast_zero, if_true, pure_ok, ok_bind, Py.fsub, Int.cast_zero, e0, e10, hmax, hmin,
      final_rounding_eq]
  · have hN' : ¬ ((N : Int) = 0) := by omega
    have hNq : (N : Rat) ≠ 0 := by
      exact_mod_cast hN
    simp only [if_neg hN', if_neg hN, Py.fadd, fdiv_some _ _ hNq, pure_ok, ok_bind, Py.fsub, e0, e10, hmax, hmin,
      final_rounding_eq, Int.cast_natCast]

/-- the model's arithmetic after the search -/
def mArith (value : Rat) (e1 e2 e3 e4 e6 : Nat) (s1 s2 s36 s4 s5 : Option Rat) (c1 c2 c36 c4 : Rat) : Option Rat := do
  let step : Rat := Model.V4.r 1 10
  let ms1 ← lookup e1 Gen.V4.maxSeverityEq1
  let ms2 ← lookup e2 Gen.V4.maxSeverityEq2
  let ms36 ← lookup (e3, e6) Gen.V4.maxSeverityEq36
  let ms4 ← lookup e4 Gen.V4.maxSeverityEq4
  let k1 ← Model.V4.contribution value s1 c1 (ms1 * step)
  let k2 ← Model.V4.contribution value s2 c2 (ms2 * step)
  let k36 ← Model.V4.contribution value s36 c36 (ms36 * step)
  let k4 ← Model.V4.contribution value s4 c4 (ms4 * step)
  let k5 : Nat × Rat := mK5 value s5
  let n := k1.1 + k2.1 + k36.1 + k4.1 + k5.1
  let mean : Rat := if n = 0 then 0 else (k1.2 + k2.2 + k36.2 + k4.2 + k5.2) / n
  let v := value - mean
  let v := pyMax 0 v
  let v := pyMin 10 v
  pure (Model.V4.finalRounding v)

theorem cbsArith_eq (self : Code4.Self) (value : Rat) (e1 e2 e3 e4 e6 : Nat) (s1 s2 s36 s4 s5 : Option Rat)
    (c1 c2 c36 c4 : Rat) :
    (cbsArith self value e1 e2 e3 e4 e6 s1 s2 s36 s4 s5 c1 c2 c36 c4).toOption.map (fun x => x.base_score) =
      (mArith value e1 e2 e3 e4 e6 s1 s2 s36 s4 s5 c1 c2 c36 c4).map some := by
  unfold cbsArith mArith
  simp only [getitemN_nat, getitemNN_nat, Model.V4.r, Option.bind_eq_bind, Option.pure_def]
  cases lookup e1 Gen.V4.maxSeverityEq1 with
  | none => rfl
  | some ms1 =>
  cases lookup e2 Gen.V4.maxSeverityEq2 with
  | none => rfl
  | some ms2 =>
  cases lookup (e3, e6) Gen.V4.maxSeverityEq36 with
  | none => rfl
  | some ms36 =>
  cases lookup e4 Gen.V4.maxSeverityEq4 with
  | none => rfl
  | some ms4 =>
  simp only [ok_bind, Option.bind_some, Int.cast_natCast]
  have b1 := blk_ok 0 value s1 c1 ((ms1 : Rat) * mkRat 1 10)
  cases hk1 : Model.V4.contribution value s1 c1 ((ms1 : Rat) * mkRat 1 10) with
  | none =>
    rw [hk1] at b1
    obtain ⟨e, he⟩ := b1
    rw [he]
    rfl
  | some k1 =>
  rw [hk1] at b1
  obtain ⟨p1, hp1⟩ := b1
  rw [hp1]
  simp only [ok_bind, Option.bind_some]
  have b2 := blk_ok (0 + (k1.1 : Int)) value s2 c2 ((ms2 : Rat) * mkRat 1 10)
  cases hk2 : Model.V4.contribution value s2 c2 ((ms2 : Rat) * mkRat 1 10) with
  | none =>
    rw [hk2] at b2
    obtain ⟨e, he⟩ := b2
    rw [he]
    rfl
  | some k2 =>
  rw [hk2] at b2
  obtain ⟨p2, hp2⟩ := b2
  rw [hp2]
  simp only [ok_bind, Option.bind_some]
  have b3 := blk_ok (0 + (k1.1 : Int) + (k2.1 : Int)) value s36 c36 ((ms36 : Rat) * mkRat 1 10)
  cases hk3 : Model.V4.contribution value s36 c36 ((ms36 : Rat) * mkRat 1 10) with
  | none =>
    rw [hk3] at b3
    obtain ⟨e, he⟩ := b3
    rw [he]
    rfl
  | some k3 =>
  rw [hk3] at b3
  obtain ⟨p3, hp3⟩ := b3
  rw [hp3]
  simp only [ok_bind, Option.bind_some]
  have b4 := blk_ok (0 + (k1.1 : Int) + (k2.1 : Int) + (k3.1 : Int)) value s4 c4 ((ms4 : Rat) * mkRat 1 10)
  cases hk4 : Model.V4.contribution value s4 c4 ((ms4 : Rat) * mkRat 1 10) with
  | none =>
    rw [hk4] at b4
    obtain ⟨e, he⟩ := b4
    rw [he]
    rfl
  | some k4 =>
  rw [hk4] at b4
  obtain ⟨p4, hp4⟩ := b4
  rw [hp4]
  simp only [ok_bind, Option.bind_some]
  obtain ⟨p5, hp5⟩ := blk5_ok (0 + (k1.1 : Int) + (k2.1 : Int) + (k3.1 : Int) + (k4.1 : Int)) value s5
  rw [hp5]
  simp only [ok_bind]
  have hn : (0 + (k1.1 : Int) + (k2.1 : Int) + (k3.1 : Int) + (k4.1 : Int) + ((mK5 value s5).1 : Int)) =
      ((k1.1 + k2.1 + k3.1 + k4.1 + (mK5 value s5).1 : Nat) : Int) := by
    push_cast
    ring
  rw [hn, cbsFinal_eq]
  rfl

/-- reading the 14 variables after the loop -/
def rv (v1 v2 v3 v4 v5 v6 v7 v8 v9 v10 v11 v12 v13 v14 : Option Rat) : Option (List Rat) :=
  v1.bind fun d1 => v2.bind fun d2 => v3.bind fun d3 => v4.bind fun d4 => v5.bind fun d5 =>
  v6.bind fun d6 => v7.bind fun d7 => v8.bind fun d8 => v9.bind fun d9 => v10.bind fun d10 =>
  v11.bind fun d11 => v12.bind fun d12 => v13.bind fun d13 => v14.bind fun d14 =>
    some [d1, d2, d3, d4, d5, d6, d7, d8, d9, d10, d11, d12, d13, d14]

/-- the model after the search -/
def mTail (value : Rat) (e1 e2 e3 e4 e6 : Nat) (s1 s2 s36 s4 s5 : Option Rat) (d : List Rat) : Option Rat :=
  match d with
  | [dAV, dPR, dUI, dAC, dAT, dVC, dVI, dVA, dSC, dSI, dSA, dCR, dIR, dAR] =>
    mArith value e1 e2 e3 e4 e6 s1 s2 s36 s4 s5 (dAV + dPR + dUI) (dAC + dAT)
      (dVC + dVI + dVA + dCR + dIR + dAR) (dSC + dSI + dSA)
  | _ => none

theorem cbsTail_eq (self : Code4.Self) (value : Rat) (e1 e2 e3 e4 e6 : Nat) (s1 s2 s36 s4 s5 : Option Rat)
    (v1 v2 v3 v4 v5 v6 v7 v8 v9 v10 v11 v12 v13 v14 : Option Rat) :
    (cbsTail self value e1 e2 e3 e4 e6 s1 s2 s36 s4 s5 v1 v2 v3 v4 v5 v6 v7 v8 v9 v10 v11 v12 v13 v14).toOption.map
        (fun x => x.base_score) =
      (rv v1 v2 v3 v4 v5 v6 v7 v8 v9 v10 v11 v12 v13 v14).bind
        (fun d => (mTail value e1 e2 e3 e4 e6 s1 s2 s36 s4 s5 d).map some) := by
  cases v1 with
  | none => rfl
  | some d1 =>
  cases v2 with
  | none => rfl
  | some d2 =>
  cases v3 with
  | none => rfl
  | some d3 =>
  cases v4 with
  | none => rfl
  | some d4 =>
  cases v5 with
  | none => rfl
  | some d5 =>
  cases v6 with
  | none => rfl
  | some d6 =>
  cases v7 with
  | none => rfl
  | some d7 =>
  cases v8 with
  | none => rfl
  | some d8 =>
  cases v9 <;> cases v10 <;> cases v11 <;> cases v12 <;> cases v13 <;> cases v14 <;> try rfl
  exact cbsArith_eq self value e1 e2 e3 e4 e6 s1 s2 s36 s4 s5 _ _ _ _

/-- one severity distance, with the metric's own table -/
def dW (m : Model.MMap) (mv : List (Str × Str)) (k : Str) (tbl : List (Str × Rat)) : Option Rat :=
  (Model.V4.mEff m k).bind fun cur => (lookup cur tbl).bind fun lc => (lookup k mv).bind fun v =>
    (lookup v tbl).bind fun lm => some (lc - lm)

def distBlock (self : Code4.Self) (k : Str) (tbl : List (Str × Rat)) (mv : List (Str × Str)) : Py.M Rat := do
  let t31 ← Code4.m self k
  let t32 ← Py.getitemO t31 tbl
  let t33 ← Py.getitem k mv
  let t34 ← Py.getitem t33 tbl
  pure (t32 - t34)

theorem distBlock_eq (self : Code4.Self) (k : Str) (tbl : List (Str × Rat)) (mv : List (Str × Str)) :
    (distBlock self k tbl mv).toOption = dW self.metrics mv k tbl := by
  unfold distBlock dW
  simp only [m_eq, ok_bind]
  cases Model.V4.mEff self.metrics k with
  | none => rfl
  | some cur =>
    simp only [Py.getitemO, Py.getitem, Option.bind_some]
    cases lookup cur tbl with
    | none => rfl
    | some lc =>
      simp only [ok_bind, Option.bind_some]
      cases lookup k mv with
      | none => rfl
      | some v =>
        simp only [ok_bind, Option.bind_some]
        cases lookup v tbl with
        | none => rfl
        | some lm => rfl

theorem distance_dW (m : Model.MMap) (mv : List (Str × Str)) (k : Str) (tbl : List (Str × Rat))
    (h : lookup k Code4.levels = some tbl) : Model.V4.distance m mv k = dW m mv k tbl := by
  unfold Model.V4.distance dW
  rw [← levels_tables_eq, h]
  rfl

def searchNice (self : Code4.Self) (mv : List (Str × Str)) : Py.M SState := do
  let dAV ← distBlock self c!"AV" AVl mv
  let dPR ← distBlock self c!"PR" PRl mv
  let dUI ← distBlock self c!"UI" UIl mv
  let dAC ← distBlock self c!"AC" ACl mv
  let dAT ← distBlock self c!"AT" ATl mv
  let dVC ← distBlock self c!"VC" VCl mv
  let dVI ← distBlock self c!"VI" VIl mv
  let dVA ← distBlock self c!"VA" VAl mv
  let dSC ← distBlock self c!"SC" SCl mv
  let dSI ← distBlock self c!"SI" SIl mv
  let dSA ← distBlock self c!"SA" SAl mv
  let dCR ← distBlock self c!"CR" CRl mv
  let dIR ← distBlock self c!"IR" IRl mv
  let dAR ← distBlock self c!"AR" ARl mv
  pure (some dAV, some dPR, some dUI, some dAC, some dAT, some dVC, some dVI, some dVA, some dSC, some dSI,
    some dSA, some dCR, some dIR, some dAR,
    (decide (¬ ((List.any ([dAV, dPR, dUI, dAC, dAT, dVC, dVI, dVA, dSC, dSI, dSA, dCR, dIR, dAR] : List Rat) (fun met => decide (met < (((0 : Int) : Int) : Rat)))) = true))))

theorem body_nice (self : Code4.Self) (mv : List (Str × Str))
    (v1 v2 v3 v4 v5 v6 v7 v8 v9 v10 v11 v12 v13 v14 : Option Rat) :
    cbsSearchBody self (v1, v2, v3, v4, v5, v6, v7, v8, v9, v10, v11, v12, v13, v14, false) mv =
      searchNice self mv := by
  unfold cbsSearchBody searchNice distBlock
  simp only [Bool.false_eq_true, if_false]
  simp only [Py.bound, ok_bind]
  simp only [pure_ok]
  simp only [bind_assoc, ok_bind]

theorem body_stop (self : Code4.Self) (mv : List (Str × Str))
    (v1 v2 v3 v4 v5 v6 v7 v8 v9 v10 v11 v12 v13 v14 : Option Rat) :
    cbsSearchBody self (v1, v2, v3, v4, v5, v6, v7, v8, v9, v10, v11, v12, v13, v14, true) mv =
      .ok (v1, v2, v3, v4, v5, v6, v7, v8, v9, v10, v11, v12, v13, v14, true) := rfl

/-- the new loop state after an iteration that computed the distance list `d` -/
def stOf (d : List Rat) : Option SState :=
  match d with
  | [d1, d2, d3, d4, d5, d6, d7, d8, d9, d10, d11, d12, d13, d14] =>
    some (some d1, some d2, some d3, some d4, some d5, some d6, some d7, some d8, some d9, some d10, some d11,
      some d12, some d13, some d14, !(d.any (· < 0)))
  | _ => none

def bind14 {β : Type} (o1 o2 o3 o4 o5 o6 o7 o8 o9 o10 o11 o12 o13 o14 : Option Rat)
    (F : Rat → Rat → Rat → Rat → Rat → Rat → Rat → Rat → Rat → Rat → Rat → Rat → Rat → Rat → Option β) : Option β :=
  o1.bind fun d1 => o2.bind fun d2 => o3.bind fun d3 => o4.bind fun d4 => o5.bind fun d5 =>
  o6.bind fun d6 => o7.bind fun d7 => o8.bind fun d8 => o9.bind fun d9 => o10.bind fun d10 =>
  o11.bind fun d11 => o12.bind fun d12 => o13.bind fun d13 => o14.bind fun d14 =>
    F d1 d2 d3 d4 d5 d6 d7 d8 d9 d10 d11 d12 d13 d14

theorem mapM14 {α : Type} (f : α → Option Rat) (k1 k2 k3 k4 k5 k6 k7 k8 k9 k10 k11 k12 k13 k14 : α) :
    [k1, k2, k3, k4, k5, k6, k7, k8, k9, k10, k11, k12, k13, k14].mapM f =
      bind14 (f k1) (f k2) (f k3) (f k4) (f k5) (f k6) (f k7) (f k8) (f k9) (f k10) (f k11) (f k12) (f k13) (f k14)
        (fun d1 d2 d3 d4 d5 d6 d7 d8 d9 d10 d11 d12 d13 d14 =>
          some [d1, d2, d3, d4, d5, d6, d7, d8, d9, d10, d11, d12, d13, d14]) := by
  simp only [List.mapM_cons, List.mapM_nil]
  generalize f k1 = o1; generalize f k2 = o2; generalize f k3 = o3; generalize f k4 = o4
  generalize f k5 = o5; generalize f k6 = o6; generalize f k7 = o7; generalize f k8 = o8
  generalize f k9 = o9; generalize f k10 = o10; generalize f k11 = o11; generalize f k12 = o12
  generalize f k13 = o13; generalize f k14 = o14
  revert o1 o2 o3 o4 o5 o6 o7 o8 o9 o10 o11 o12 o13 o14
  iterate 14 (intro o; cases o; (· intros; rfl))
  rfl

theorem nice14 {β : Type} (x1 x2 x3 x4 x5 x6 x7 x8 x9 x10 x11 x12 x13 x14 : Py.M Rat)
    (F : Rat → Rat → Rat → Rat → Rat → Rat → Rat → Rat → Rat → Rat → Rat → Rat → Rat → Rat → β) :
    (x1 >>= fun d1 => x2 >>= fun d2 => x3 >>= fun d3 => x4 >>= fun d4 => x5 >>= fun d5 =>
      x6 >>= fun d6 => x7 >>= fun d7 => x8 >>= fun d8 => x9 >>= fun d9 => x10 >>= fun d10 =>
      x11 >>= fun d11 => x12 >>= fun d12 => x13 >>= fun d13 => x14 >>= fun d14 =>
        (pure (F d1 d2 d3 d4 d5 d6 d7 d8 d9 d10 d11 d12 d13 d14) : Py.M β)).toOption =
      bind14 x1.toOption x2.toOption x3.toOption x4.toOption x5.toOption x6.toOption x7.toOption x8.toOption
        x9.toOption x10.toOption x11.toOption x12.toOption x13.toOption x14.toOption
        (fun d1 d2 d3 d4 d5 d6 d7 d8 d9 d10 d11 d12 d13 d14 => some (F d1 d2 d3 d4 d5 d6 d7 d8 d9 d10 d11 d12 d13 d14)) := by
  revert x1 x2 x3 x4 x5 x6 x7 x8 x9 x10 x11 x12 x13 x14
  iterate 14 (intro x; cases x; (· intros; rfl))
  rfl

theorem bind14_len (o1 o2 o3 o4 o5 o6 o7 o8 o9 o10 o11 o12 o13 o14 : Option Rat) (d : List Rat) :
    bind14 o1 o2 o3 o4 o5 o6 o7 o8 o9 o10 o11 o12 o13 o14
        (fun d1 d2 d3 d4 d5 d6 d7 d8 d9 d10 d11 d12 d13 d14 =>
          some [d1, d2, d3, d4, d5, d6, d7, d8, d9, d10, d11, d12, d13, d14]) = some d →
    ∃ d1 d2 d3 d4 d5 d6 d7 d8 d9 d10 d11 d12 d13 d14,
      d = [d1, d2, d3, d4, d5, d6, d7, d8, d9, d10, d11, d12, d13, d14] := by
  revert o1 o2 o3 o4 o5 o6 o7 o8 o9 o10 o11 o12 o13 o14
  iterate 14 (intro o; cases o; (· intros; rename_i h; cases h))
  intro h
  simp only [bind14, Option.bind_some, Option.some.injEq] at h
  exact ⟨_, _, _, _, _, _, _, _, _, _, _, _, _, _, h.symm⟩

def dAll (m : Model.MMap) (mv : List (Str × Str)) : Option (List Rat) :=
  bind14 (dW m mv c!"AV" AVl) (dW m mv c!"PR" PRl) (dW m mv c!"UI" UIl) (dW m mv c!"AC" ACl) (dW m mv c!"AT" ATl)
    (dW m mv c!"VC" VCl) (dW m mv c!"VI" VIl) (dW m mv c!"VA" VAl) (dW m mv c!"SC" SCl) (dW m mv c!"SI" SIl)
    (dW m mv c!"SA" SAl) (dW m mv c!"CR" CRl) (dW m mv c!"IR" IRl) (dW m mv c!"AR" ARl)
    (fun d1 d2 d3 d4 d5 d6 d7 d8 d9 d10 d11 d12 d13 d14 =>
      some [d1, d2, d3, d4, d5, d6, d7, d8, d9, d10, d11, d12, d13, d14])

theorem distances_dAll (m : Model.MMap) (mv : List (Str × Str)) : Model.V4.distances m mv = dAll m mv := by
  unfold Model.V4.distances Model.V4.distMetrics dAll
  rw [mapM14]
  rw [distance_dW m mv c!"AV" AVl rfl, distance_dW m mv c!"PR" PRl rfl, distance_dW m mv c!"UI" UIl rfl,
    distance_dW m mv c!"AC" ACl rfl, distance_dW m mv c!"AT" ATl rfl, distance_dW m mv c!"VC" VCl rfl,
    distance_dW m mv c!"VI" VIl rfl, distance_dW m mv c!"VA" VAl rfl, distance_dW m mv c!"SC" SCl rfl,
    distance_dW m mv c!"SI" SIl rfl, distance_dW m mv c!"SA" SAl rfl, distance_dW m mv c!"CR" CRl rfl,
    distance_dW m mv c!"IR" IRl rfl, distance_dW m mv c!"AR" ARl rfl]

theorem searchNice_eq (self : Code4.Self) (mv : List (Str × Str)) :
    (searchNice self mv).toOption = (dAll self.metrics mv).bind stOf := by
  unfold searchNice dAll
  rw [nice14]
  simp only [distBlock_eq]
  generalize dW self.metrics mv c!"AV" AVl = o1; generalize dW self.metrics mv c!"PR" PRl = o2
  generalize dW self.metrics mv c!"UI" UIl = o3; generalize dW self.metrics mv c!"AC" ACl = o4
  generalize dW self.metrics mv c!"AT" ATl = o5; generalize dW self.metrics mv c!"VC" VCl = o6
  generalize dW self.metrics mv c!"VI" VIl = o7; generalize dW self.metrics mv c!"VA" VAl = o8
  generalize dW self.metrics mv c!"SC" SCl = o9; generalize dW self.metrics mv c!"SI" SIl = o10
  generalize dW self.metrics mv c!"SA" SAl = o11; generalize dW self.metrics mv c!"CR" CRl = o12
  generalize dW self.metrics mv c!"IR" IRl = o13; generalize dW self.metrics mv c!"AR" ARl = o14
  revert o1 o2 o3 o4 o5 o6 o7 o8 o9 o10 o11 o12 o13 o14
  iterate 14 (intro o; cases o; (· intros; rfl))
  simp only [bind14, stOf, Option.bind_some, Int.cast_zero, decide_not, Bool.decide_eq_true]

def rvS (st : SState) : Option (List Rat) :=
  match st with
  | (v1, v2, v3, v4, v5, v6, v7, v8, v9, v10, v11, v12, v13, v14, _) =>
    rv v1 v2 v3 v4 v5 v6 v7 v8 v9 v10 v11 v12 v13 v14

def stoppedS (st : SState) : Bool :=
  match st with
  | (_, _, _, _, _, _, _, _, _, _, _, _, _, _, b) => b

theorem toOption_ok {ε α : Type} (a : α) : (Except.ok a : Except ε α).toOption = some a := rfl

theorem search_cons (m : Model.MMap) (mv : List (Str × Str)) (rest : List (List (Str × Str)))
    (last : Option (List Rat)) :
    Model.V4.search m (mv :: rest) last =
      match Model.V4.distances m mv with
      | none => none
      | some d => if d.any (· < 0) then Model.V4.search m rest (some d) else some d := rfl

theorem search_fold (self : Code4.Self) (l : List (List (Str × Str))) (st : SState) :
    (List.foldlM (cbsSearchBody self) st l).toOption.bind rvS =
      if stoppedS st = true then rvS st else Model.V4.search self.metrics l (rvS st) := by
  induction l generalizing st with
  | nil =>
    obtain ⟨v1, v2, v3, v4, v5, v6, v7, v8, v9, v10, v11, v12, v13, v14, b⟩ := st
    cases b <;> rfl
  | cons mv rest ih =>
    obtain ⟨v1, v2, v3, v4, v5, v6, v7, v8, v9, v10, v11, v12, v13, v14, b⟩ := st
    rw [List.foldlM_cons, toOption_bind]
    cases b with
    | true =>
      rw [body_stop, toOption_ok, Option.bind_some]
      exact ih _
    | false =>
      rw [body_nice, searchNice_eq, ← distances_dAll, search_cons]
      cases hd : Model.V4.distances self.metrics mv with
      | none => rfl
      | some d =>
        have hd' := hd
        rw [distances_dAll] at hd'
        obtain ⟨d1, d2, d3, d4, d5, d6, d7, d8, d9, d10, d11, d12, d13, d14, rfl⟩ := bind14_len _ _ _ _ _ _ _ _ _ _ _ _ _ _ _ hd'
        simp only [Option.bind_some, stOf]
        rw [ih]
        cases hany : List.any [d1, d2, d3, d4, d5, d6, d7, d8, d9, d10, d11, d12, d13, d14] (· < 0) <;> rfl

/-- the model once the macro vector digits and the table value are known -/
def mRest (m : Model.MMap) (value : Rat) (e1 e2 e3 e4 e5 e6 : Nat) : Option Rat := do
  let s1 := Model.V4.lookupScore [e1 + 1, e2, e3, e4, e5, e6]
  let s2 := Model.V4.lookupScore [e1, e2 + 1, e3, e4, e5, e6]
  let s36 := mS36 e1 e2 e3 e4 e5 e6
  let s4 := Model.V4.lookupScore [e1, e2, e3, e4 + 1, e5, e6]
  let s5 := Model.V4.lookupScore [e1, e2, e3, e4, e5 + 1, e6]
  let m1 ← lookup (natToStr e1) Gen.V4.maxEq1
  let m2 ← lookup (natToStr e2) Gen.V4.maxEq2
  let m36 ← lookup (natToStr e3 ++ natToStr e6) Gen.V4.maxEq36
  let m4 ← lookup (natToStr e4) Gen.V4.maxEq4
  let m5 ← lookup (natToStr e5) Gen.V4.maxEq5
  let d ← Model.V4.search m (Model.V4.product m1 m2 m36 m4 m5) none
  mTail value e1 e2 e3 e4 e6 s1 s2 s36 s4 s5 d

theorem baseScore_unfold (m : Model.MMap) :
    Model.V4.baseScore m =
      if [c!"VC", c!"VI", c!"VA", c!"SC", c!"SI", c!"SA"].all (fun k => Model.V4.mEff m k = some c!"N") then some 0
      else (Model.V4.macroVector m).bind fun mv => (Model.V4.lookupScore mv).bind fun value =>
        match mv with
        | [e1, e2, e3, e4, e5, e6] => mRest m value e1 e2 e3 e4 e5 e6
        | _ => none := rfl

theorem macroVector_shape (m : Model.MMap) (d : List Nat) (h : Model.V4.macroVector m = some d) :
    ∃ e1 e2 e3 e4 e5 e6, d = [e1, e2, e3, e4, e5, e6] ∧ e1 ≤ 2 ∧ e2 ≤ 2 ∧ e3 ≤ 2 ∧ e4 ≤ 2 ∧ e5 ≤ 2 ∧ e6 ≤ 2 := by
  unfold Model.V4.macroVector at h
  simp only [] at h
  split at h
  · exact absurd h (by simp)
  · rename_i e5 heq
    injection h with h
    subst h
    refine ⟨_, _, _, _, _, _, rfl, ?_, ?_, ?_, ?_, ?_, ?_⟩
    · split
      · omega
      · split <;> omega
    · split <;> omega
    · split
      · omega
      · split <;> omega
    · split
      · omega
      · split <;> omega
    · split at heq
      · injection heq with heq; omega
      · split at heq
        · injection heq with heq; omega
        · split at heq
          · injection heq with heq; omega
          · exact absurd heq (by simp)
    · split <;> omega

theorem natToStr_small (n : Nat) (h : n ≤ 2) : natToStr n = [Char.ofNat (48 + n)] := by
  rcases n with _ | _ | _ | n
  · decide
  · decide
  · decide
  · omega

theorem int_small (n : Nat) (h : n ≤ 2) : Py.int (natToStr n) = .ok (n : Int) := by
  rcases n with _ | _ | _ | n
  · decide
  · decide
  · decide
  · omega

theorem charAt_mvKey (e1 e2 e3 e4 e5 e6 : Nat) (h1 : e1 ≤ 2) (h2 : e2 ≤ 2) (h3 : e3 ≤ 2) (h4 : e4 ≤ 2)
    (h5 : e5 ≤ 2) (h6 : e6 ≤ 2) :
    Py.charAt (Model.V4.mvKey [e1, e2, e3, e4, e5, e6]) 0 = .ok (natToStr e1) ∧
    Py.charAt (Model.V4.mvKey [e1, e2, e3, e4, e5, e6]) 1 = .ok (natToStr e2) ∧
    Py.charAt (Model.V4.mvKey [e1, e2, e3, e4, e5, e6]) 2 = .ok (natToStr e3) ∧
    Py.charAt (Model.V4.mvKey [e1, e2, e3, e4, e5, e6]) 3 = .ok (natToStr e4) ∧
    Py.charAt (Model.V4.mvKey [e1, e2, e3, e4, e5, e6]) 4 = .ok (natToStr e5) ∧
    Py.charAt (Model.V4.mvKey [e1, e2, e3, e4, e5, e6]) 5 = .ok (natToStr e6) := by
  simp only [Model.V4.mvKey, List.flatMap_cons, List.flatMap_nil, natToStr_small _ h1, natToStr_small _ h2,
    natToStr_small _ h3, natToStr_small _ h4, natToStr_small _ h5, natToStr_small _ h6]
  exact ⟨rfl, rfl, rfl, rfl, rfl, rfl⟩

theorem lookup_mem_keys {β : Type} (k : Str) (l : List (Str × β)) (v : β) (h : lookup k l = some v) :
    k ∈ keys l := by
  induction l with
  | nil => simp [lookup] at h
  | cons p r ih =>
    obtain ⟨a, b⟩ := p
    simp only [lookup] at h
    by_cases hk : k = a
    · simp [keys, hk]
    · simp only [hk, if_false] at h
      simp only [keys, List.map_cons, List.mem_cons]
      exact Or.inr (ih h)

theorem table_keys_noN : ∀ k ∈ keys Gen.V4.lookupTable, ¬ 'N' ∈ k := by
  decide +kernel

theorem lookup_N (k : Str) (h : 'N' ∈ k) : lookup k Gen.V4.lookupTable = none := by
  cases hl : lookup k Gen.V4.lookupTable with
  | none => rfl
  | some v => exact absurd h (table_keys_noN k (lookup_mem_keys k _ v hl))

def initS : SState :=
  ((none : Option Rat), (none : Option Rat), (none : Option Rat), (none : Option Rat), (none : Option Rat), (none : Option Rat), (none : Option Rat), (none : Option Rat), (none : Option Rat), (none : Option Rat), (none : Option Rat), (none : Option Rat), (none : Option Rat), (none : Option Rat), false)

theorem search_then (self : Code4.Self) (maxvs : List (List (Str × Str))) (K : SState → Py.M Code4.Self)
    (G : List Rat → Option (Option Rat))
    (hK : ∀ st, ((K st).toOption).map (fun x => x.base_score) = (rvS st).bind G) :
    ((List.foldlM (cbsSearchBody self) initS maxvs >>= K).toOption).map (fun x => x.base_score) =
      (Model.V4.search self.metrics maxvs none).bind G := by
  have h := search_fold self maxvs initS
  have h1 : stoppedS initS = false := rfl
  have h2 : rvS initS = none := rfl
  rw [h1, h2] at h
  simp only [Bool.false_eq_true, if_false] at h
  rw [← h, toOption_bind]
  cases (List.foldlM (cbsSearchBody self) initS maxvs).toOption with
  | none => rfl
  | some st => exact hK st

theorem cbsRest_eq (self : Code4.Self) (value : Rat) (e1 e2 e3 e4 e5 e6 : Nat) (h1 : e1 ≤ 2) (h2 : e2 ≤ 2)
    (h3 : e3 ≤ 2) (h4 : e4 ≤ 2) (h5 : e5 ≤ 2) (h6 : e6 ≤ 2) :
    (cbsRest self (Model.V4.mvKey [e1, e2, e3, e4, e5, e6]) value e1 e2 e3 e4 e5 e6).toOption.map
        (fun x => x.base_score) =
      (mRest self.metrics value e1 e2 e3 e4 e5 e6).map some := by
  unfold cbsRest mRest
  obtain ⟨a, b, c, hs1, hs2⟩ := s36_eq e1 e2 e3 e4 e5 e6
  obtain ⟨c0, c1, c2, c3, c4, c5⟩ := charAt_mvKey e1 e2 e3 e4 e5 e6 h1 h2 h3 h4 h5 h6
  rw [hs1]
  simp only [ok_bind]
  rw [hs2]
  simp only [ok_bind, c0, c1, c2, c3, c4, c5, Py.getitem, Option.bind_eq_bind]
  cases lookup (natToStr e1) Gen.V4.maxEq1 with
  | none => rfl
  | some m1 =>
  cases lookup (natToStr e2) Gen.V4.maxEq2 with
  | none => rfl
  | some m2 =>
  cases lookup (natToStr e3 ++ natToStr e6) Gen.V4.maxEq36 with
  | none => rfl
  | some m36 =>
  cases lookup (natToStr e4) Gen.V4.maxEq4 with
  | none => rfl
  | some m4 =>
  cases lookup (natToStr e5) Gen.V4.maxEq5 with
  | none => rfl
  | some m5 =>
  simp only [ok_bind, Option.bind_some, cbsProduct_eq, Option.map_bind]
  refine search_then self _ _ _ ?_
  intro st
  obtain ⟨v1, v2, v3, v4, v5, v6, v7, v8, v9, v10, v11, v12, v13, v14, b⟩ := st
  simp only [Py.get?, cast_succ', mvS6]
  exact cbsTail_eq self value e1 e2 e3 e4 e6 _ _ _ _ _ v1 v2 v3 v4 v5 v6 v7 v8 v9 v10 v11 v12 v13 v14

theorem cbsMain_eq (self : Code4.Self) (e1 e2 e3 e4 e5 e6 : Nat) (h1 : e1 ≤ 2) (h2 : e2 ≤ 2)
    (h3 : e3 ≤ 2) (h4 : e4 ≤ 2) (h5 : e5 ≤ 2) (h6 : e6 ≤ 2) :
    (cbsMain self (Model.V4.mvKey [e1, e2, e3, e4, e5, e6])).toOption.map (fun x => x.base_score) =
      ((Model.V4.lookupScore [e1, e2, e3, e4, e5, e6]).bind fun value =>
        mRest self.metrics value e1 e2 e3 e4 e5 e6).map some := by
  unfold cbsMain Model.V4.lookupScore
  obtain ⟨c0, c1, c2, c3, c4, c5⟩ := charAt_mvKey e1 e2 e3 e4 e5 e6 h1 h2 h3 h4 h5 h6
  simp only [c0, c1, c2, c3, c4, c5, ok_bind, int_small _ h1, int_small _ h2, int_small _ h3, int_small _ h4,
    int_small _ h5, int_small _ h6, Py.getitem]
  cases lookup (Model.V4.mvKey [e1, e2, e3, e4, e5, e6]) Gen.V4.lookupTable with
  | none => rfl
  | some value =>
    simp only [ok_bind, Option.bind_some]
    exact cbsRest_eq self value e1 e2 e3 e4 e5 e6 h1 h2 h3 h4 h5 h6

theorem cbsMain_N (self : Code4.Self) (s : Str) (h : 'N' ∈ s) :
    (cbsMain self s).toOption = none := by
  unfold cbsMain
  simp only [Py.getitem, lookup_N s h]
  rfl

theorem cbsAll_eq (self : Code4.Self) :
    (cbsAll self).toOption.map (fun x => x.base_score) = (Model.V4.baseScore self.metrics).map some := by
  rw [baseScore_unfold]
  unfold cbsAll
  have hmv : ∃ s, Code4.macroVector self = .ok s ∧
      (cbsMain self s).toOption.map (fun x => x.base_score) =
        ((Model.V4.macroVector self.metrics).bind fun mv => (Model.V4.lookupScore mv).bind fun value =>
          match mv with
          | [e1, e2, e3, e4, e5, e6] => mRest self.metrics value e1 e2 e3 e4 e5 e6
          | _ => none).map some := by
    cases h : Model.V4.macroVector self.metrics with
    | none =>
      obtain ⟨s, hs, hN⟩ := macroVector_none self h
      exact ⟨s, hs, by rw [cbsMain_N self s hN]; rfl⟩
    | some d =>
      obtain ⟨e1, e2, e3, e4, e5, e6, rfl, h1, h2, h3, h4, h5, h6⟩ := macroVector_shape _ _ h
      exact ⟨_, macroVector_eq self _ h, cbsMain_eq self e1 e2 e3 e4 e5 e6 h1 h2 h3 h4 h5 h6⟩
  obtain ⟨s, hs, hmain⟩ := hmv
  rw [hs]
  simp only [ok_bind, List.mapM_cons, List.mapM_nil, m_eq, pure_ok, List.all_cons, List.all_nil,
    Bool.and_true]
  split
  · rfl
  · exact hmain

end Aux

/-- `compute_base_score()`, for EVERY metric dict: the translated source (binary floats modelled by exact
    rationals, NaN by `none`) and the model's `baseScore` produce the same score or both raise -/
theorem compute_base_score_eq (self : Code4.Self) :
    (Code4.compute_base_score self).toOption.map (fun x => x.base_score) =
      (Model.V4.baseScore self.metrics).map some := by
  rw [Aux.cbs_unfold]
  exact Aux.cbsAll_eq self

end Cvss.Props.CodeTie4
