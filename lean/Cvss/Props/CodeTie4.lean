/-
  SOURCE TIE, CVSS4: the hand-written model `Cvss.Model.V4` equals the translation of cvss/cvss4.py that
  `tools/gen_code.py` regenerates from the SOURCE TEXT on every run (`Cvss.Gen.Code4`): `parse_vector`,
  `check_mandatory`, `add_missing_optional` (with their exception classes), `m`, `macroVector`,
  `compute_severity`, `get_value_description`, `clean_vector`, and the literal tables inside
  `compute_base_score` (`*_levels`, `step`, which table each severity distance reads).  The arithmetic of
  `compute_base_score` itself is outside the translator's subset and is tied by correspondence alone.
  Translated code runs in `Py.M = Except Py.Exc`.  Every theorem declared directly in this namespace is
  an obligation.
-/
import Cvss.Py
import Cvss.Gen.Code4
import Cvss.Model.Json
import Cvss.Model.V4
namespace Cvss.Props.CodeTie4
open Cvss Cvss.Gen

namespace Aux

theorem ok_bind {ε α β : Type} (a : α) (f : α → Except ε β) : (Except.ok a >>= f) = f a := rfl
theorem error_bind {ε α β : Type} (e : ε) (f : α → Except ε β) :
    ((Except.error e : Except ε α) >>= f) = .error e := rfl
theorem pure_ok {ε α : Type} (a : α) : (pure a : Except ε α) = .ok a := rfl
theorem toOption_bind {ε α β : Type} (x : Except ε α) (f : α → Except ε β) :
    (x >>= f).toOption = x.toOption.bind (fun a => (f a).toOption) := by
  cases x <;> rfl

theorem levels_tables_eq : Code4.levels = Model.V4.levels := by
  decide +kernel

theorem ite_ok_ok {ε α : Type} (c : Prop) [Decidable c] (a b : α) :
    (if c then (Except.ok a : Except ε α) else .ok b) = .ok (if c then a else b) := by
  split <;> rfl

theorem app6 {a1 a2 a3 a4 a5 a6 : Str} {n1 n2 n3 n4 n5 n6 : Nat}
    (h1 : a1 = natToStr n1) (h2 : a2 = natToStr n2) (h3 : a3 = natToStr n3)
    (h4 : a4 = natToStr n4) (h5 : a5 = natToStr n5) (h6 : a6 = natToStr n6) :
    (((((a1 ++ a2) ++ a3) ++ a4) ++ a5) ++ a6) = Model.V4.mvKey [n1, n2, n3, n4, n5, n6] := by
  subst h1 h2 h3 h4 h5 h6
  simp [Model.V4.mvKey, List.flatMap_cons, List.append_assoc]

theorem n0 : natToStr 0 = ['0'] := by decide
theorem n1 : natToStr 1 = ['1'] := by decide
theorem n2 : natToStr 2 = ['2'] := by decide

end Aux

/-- `m(metric)`: the effective value (never raises) -/
theorem m_eq (self : Code4.Self) (k : Str) :
    Code4.m self k = .ok (Model.V4.mEff self.metrics k) := by
  unfold Code4.m Model.V4.mEff
  delta Model.V4.X
  simp only [Py.get?, Py.contains, hasKey, List.cons_append, List.nil_append,
    Aux.pure_ok]
  by_cases h1 : k = ['E'] ∧ lookup k self.metrics = some ['X']
  · simp only [if_pos h1]
  by_cases h2 : k = ['C', 'R'] ∧ lookup k self.metrics = some ['X']
  · simp only [if_neg h1, if_pos h2]
  by_cases h3 : k = ['I', 'R'] ∧ lookup k self.metrics = some ['X']
  · simp only [if_neg h1, if_neg h2, if_pos h3]
  by_cases h4 : k = ['A', 'R'] ∧ lookup k self.metrics = some ['X']
  · simp only [if_neg h1, if_neg h2, if_neg h3, if_pos h4]
  simp only [if_neg h1, if_neg h2, if_neg h3, if_neg h4]
  rcases Option.eq_none_or_eq_some (lookup ('M' :: k) self.metrics) with hM | ⟨ms, hM⟩
  · simp [hM]
  · simp only [Option.isSome_some, if_true, Py.getitem, hM, Aux.ok_bind]
    by_cases hx : ms = ['X'] <;> simp [hx]

/-- `macroVector()`: whenever the model produces six digits, the translated source returns exactly
    that six-character key (the model's `none` stands for a string containing "None") -/
theorem macroVector_eq (self : Code4.Self) (d : List Nat)
    (h : Model.V4.macroVector self.metrics = some d) :
    Code4.macroVector self = .ok (Model.V4.mvKey d) := by
  unfold Code4.macroVector
  simp only [m_eq, Aux.ok_bind, Aux.pure_ok, Aux.ite_ok_ok]
  unfold Model.V4.macroVector at h
  simp only [] at h
  split at h
  · exact absurd h (by simp)
  · rename_i e5 heq
    injection h with h
    subst h
    congr 1
    apply Aux.app6
    · by_cases a : Model.V4.mEff self.metrics ['A', 'V'] = some ['N'] <;>
      by_cases b : Model.V4.mEff self.metrics ['P', 'R'] = some ['N'] <;>
      by_cases c : Model.V4.mEff self.metrics ['U', 'I'] = some ['N'] <;>
      by_cases e : Model.V4.mEff self.metrics ['A', 'V'] = some ['P'] <;>
      simp [a, b, c, e, Aux.n0, Aux.n1, Aux.n2] <;> simp_all
    · by_cases a : Model.V4.mEff self.metrics ['A', 'C'] = some ['L'] <;>
      by_cases b : Model.V4.mEff self.metrics ['A', 'T'] = some ['N'] <;>
      simp [a, b, Aux.n0, Aux.n1]
    · by_cases a : Model.V4.mEff self.metrics ['V', 'C'] = some ['H'] <;>
      by_cases b : Model.V4.mEff self.metrics ['V', 'I'] = some ['H'] <;>
      by_cases c : Model.V4.mEff self.metrics ['V', 'A'] = some ['H'] <;>
      simp [a, b, c, Aux.n0, Aux.n1, Aux.n2]
    · by_cases a : Model.V4.mEff self.metrics ['M', 'S', 'I'] = some ['S'] <;>
      by_cases b : Model.V4.mEff self.metrics ['M', 'S', 'A'] = some ['S'] <;>
      by_cases c : Model.V4.mEff self.metrics ['S', 'C'] = some ['H'] <;>
      by_cases e : Model.V4.mEff self.metrics ['S', 'I'] = some ['H'] <;>
      by_cases f : Model.V4.mEff self.metrics ['S', 'A'] = some ['H'] <;>
      simp [a, b, c, e, f, Aux.n0, Aux.n1, Aux.n2]
    · by_cases a : Model.V4.mEff self.metrics ['E'] = some ['A'] <;>
      by_cases b : Model.V4.mEff self.metrics ['E'] = some ['P'] <;>
      by_cases c : Model.V4.mEff self.metrics ['E'] = some ['U'] <;>
      simp [a, b, c] at heq <;> subst heq <;> simp [a, b, c, Aux.n0, Aux.n1, Aux.n2]
    · by_cases a : Model.V4.mEff self.metrics ['C', 'R'] = some ['H'] <;>
      by_cases b : Model.V4.mEff self.metrics ['I', 'R'] = some ['H'] <;>
      by_cases c : Model.V4.mEff self.metrics ['A', 'R'] = some ['H'] <;>
      by_cases e : Model.V4.mEff self.metrics ['V', 'C'] = some ['H'] <;>
      by_cases f : Model.V4.mEff self.metrics ['V', 'I'] = some ['H'] <;>
      by_cases g : Model.V4.mEff self.metrics ['V', 'A'] = some ['H'] <;>
      simp [a, b, c, e, f, g, Aux.n0, Aux.n1]

/-- … and when the model has no macro vector, the source's string is not a six-digit key: it contains
    the letter 'N' (of "None") -/
theorem macroVector_none (self : Code4.Self)
    (h : Model.V4.macroVector self.metrics = none) :
    ∃ s, Code4.macroVector self = .ok s ∧ 'N' ∈ s := by
  unfold Code4.macroVector
  simp only [m_eq, Aux.ok_bind, Aux.pure_ok, Aux.ite_ok_ok]
  refine ⟨_, rfl, ?_⟩
  unfold Model.V4.macroVector at h
  simp only [] at h
  split at h
  · rename_i heq
    apply List.mem_append_left
    apply List.mem_append_right
    by_cases a : Model.V4.mEff self.metrics ['E'] = some ['A'] <;>
      by_cases b : Model.V4.mEff self.metrics ['E'] = some ['P'] <;>
      by_cases c : Model.V4.mEff self.metrics ['E'] = some ['U'] <;>
      simp [a, b, c] at heq <;> simp [a, b, c]
  · exact absurd h (by simp)

theorem get_value_description_eq (self : Code4.Self) (a : Str) :
    (Code4.get_value_description self a).toOption = Model.V4.getDescription self.metrics a := by
  unfold Code4.get_value_description Model.V4.getDescription
  simp only [Py.getD, Py.getitem, Model.V4.X, Aux.pure_ok]
  cases lookup a Gen.V4.valueNames with
  | none => rfl
  | some row =>
    simp only [Aux.ok_bind]
    cases lookup ((lookup a self.metrics).getD ['X']) row <;> rfl

namespace Aux

theorem fmt2 (a b : Str) : Py.format c!"{0}:{1}" [a, b] = a ++ ':' :: b := by
  simp [Py.format, Py.formatAux, Py.fmtField]

theorem getitem_some {β : Type} {k : Str} {d : List (Str × β)} {v : β} (h : lookup k d = some v) :
    Py.getitem k d = .ok v := by
  simp [Py.getitem, h]

theorem getitem_none {β : Type} {k : Str} {d : List (Str × β)} (h : lookup k d = none) :
    (Py.getitem k d : Py.M β) = .error .keyError := by
  simp [Py.getitem, h]

def cleanBody (m : List (Str × Str)) (nd : Str) : List Str → Str → Py.M (List Str) :=
  fun (st : (List Str)) (metric : Str) => (do
      let vector := st
      let vector ← (if (Py.contains metric m = true) then (do
          let t1 ← Py.getitem metric m
          let value_ : Str := t1
          let vector ← (if (¬ (value_ = nd)) then (do
              let vector : List Str := vector ++ [(Py.format c!"{0}:{1}" [metric, value_])]
              pure vector) else (do
              pure vector))
          pure vector) else (do
          pure vector))
      pure vector)

def cleanF (m : List (Str × Str)) (nd : Str) : Str → Option Str :=
  fun k =>
    match lookup k m with
    | some v => if v ≠ nd then some (k ++ ':' :: v) else none
    | none => none

theorem clean_step (m : List (Str × Str)) (nd : Str) (k : Str) (acc : List Str) :
    cleanBody m nd acc k = .ok (acc ++ (cleanF m nd k).toList) := by
  unfold cleanBody cleanF
  simp only [Py.contains, hasKey]
  rcases Option.eq_none_or_eq_some (lookup k m) with h | ⟨v, h⟩
  · simp [h, pure_ok]
  · by_cases hv : v = nd
    · simp [h, getitem_some h, hv, pure_ok, ok_bind]
    · simp [h, getitem_some h, hv, fmt2, pure_ok, ok_bind]

theorem clean_fold (m : List (Str × Str)) (nd : Str) (l : List Str) (acc : List Str) :
    List.foldlM (cleanBody m nd) acc l = .ok (acc ++ l.filterMap (cleanF m nd)) := by
  induction l generalizing acc with
  | nil => simp [List.foldlM, pure_ok]
  | cons k l ih =>
    rw [List.foldlM_cons, clean_step]
    simp only [ok_bind, ih, List.filterMap_cons]
    cases cleanF m nd k <;> simp

def mandBody (m : List (Str × Str)) : List Str → Str → Py.M (List Str) :=
  fun (st : (List Str)) (mandatory_metric : Str) => (do
    let missing := st
    let missing ← (if (¬ (Py.contains mandatory_metric m = true)) then (do
        let missing : List Str := missing ++ [mandatory_metric]
        pure missing) else (do
        pure missing))
    pure missing)

theorem mand_step (m : List (Str × Str)) (k : Str) (acc : List Str) :
    mandBody m acc k = .ok (if hasKey k m then acc else acc ++ [k]) := by
  unfold mandBody
  by_cases hk : hasKey k m = true <;> simp [hk, pure_ok]

theorem mand_fold (m : List (Str × Str)) (l : List Str) (acc : List Str) :
    List.foldlM (mandBody m) acc l = .ok (acc ++ l.filter (fun k => !hasKey k m)) := by
  induction l generalizing acc with
  | nil => simp [List.foldlM, pure_ok]
  | cons k l ih =>
    rw [List.foldlM_cons, mand_step, ok_bind, ih]
    by_cases hk : hasKey k m = true <;> simp [hk]


/-! ### `add_missing_optional` -/

def modBody : Code4.Self → Str → Py.M Code4.Self :=
  fun (st : Code4.Self) (abbreviation : Str) => (do
    let self := st
    let b2 ← (do
        if (¬ (Py.contains abbreviation self.metrics = true)) then pure true else (do
            let t1 ← Py.getitem abbreviation self.metrics
            pure (decide (t1 = c!"X"))))
    let self ← (if (b2 = true) then (do
        let t3 ← Py.getitem (List.drop 1 abbreviation) self.metrics
        let self : Code4.Self := { self with metrics := Py.setitem abbreviation t3 self.metrics }
        pure self) else (do
        pure self))
    pure self)

def defBody : Code4.Self → Str → Py.M Code4.Self :=
  fun (st : Code4.Self) (abbreviation : Str) => (do
    let self := st
    let self ← (if (¬ (Py.contains abbreviation self.metrics = true)) then (do
        let self : Code4.Self := { self with metrics := Py.setitem abbreviation c!"X" self.metrics }
        pure self) else (do
        pure self))
    pure self)

def needs (m : List (Str × Str)) (a : Str) : Bool :=
  match lookup a m with
  | some v => decide (v = Model.V4.X)
  | none => true

theorem mod_step (st : Code4.Self) (a : Str) :
    (modBody st a).toOption =
      if needs st.metrics a = true then
        (lookup (a.drop 1) st.metrics).map (fun b => { st with metrics := insert a b st.metrics })
      else some st := by
  unfold modBody needs
  simp only [Py.contains, hasKey, Model.V4.X]
  generalize List.drop 1 a = a'
  rcases Option.eq_none_or_eq_some (lookup a st.metrics) with h | ⟨v, h⟩
  · rcases Option.eq_none_or_eq_some (lookup a' st.metrics) with h' | ⟨b, h'⟩
    · simp [h, h', getitem_none h', pure_ok, ok_bind, error_bind, Except.toOption]
    · simp [h, h', getitem_some h', pure_ok, ok_bind, Except.toOption]
  · by_cases hv : v = ['X']
    · rcases Option.eq_none_or_eq_some (lookup a' st.metrics) with h' | ⟨b, h'⟩
      · simp [h, hv, h', getitem_some h, getitem_none h', pure_ok, ok_bind, error_bind, Except.toOption]
      · simp [h, hv, h', getitem_some h, getitem_some h', pure_ok, ok_bind, Except.toOption]
    · simp [h, hv, getitem_some h, pure_ok, ok_bind, Except.toOption]

theorem fillModified_cons (m : List (Str × Str)) (a : Str) (rest : List Str) :
    Model.V4.fillModified m (a :: rest) =
      if needs m a = true then
        (lookup (a.drop 1) m).bind (fun b => Model.V4.fillModified (insert a b m) rest)
      else Model.V4.fillModified m rest := by
  have h : Model.V4.fillModified m (a :: rest) =
      if needs m a = true then
        (match lookup (a.drop 1) m with
          | none => none
          | some b => Model.V4.fillModified (insert a b m) rest)
      else Model.V4.fillModified m rest := rfl
  rw [h]
  cases lookup (a.drop 1) m <;> rfl

theorem mod_fold (l : List Str) (st : Code4.Self) :
    (List.foldlM modBody st l).toOption =
      (Model.V4.fillModified st.metrics l).map (fun m => { st with metrics := m }) := by
  induction l generalizing st with
  | nil => simp [List.foldlM, pure_ok, Except.toOption, Model.V4.fillModified]
  | cons a l ih =>
    rw [List.foldlM_cons, toOption_bind, mod_step, fillModified_cons]
    simp only [ih]
    by_cases hn : needs st.metrics a = true
    · simp only [hn, if_true]
      cases lookup (List.drop 1 a) st.metrics <;> rfl
    · simp only [hn, Bool.false_eq_true, if_false]
      rfl

theorem def_step (st : Code4.Self) (a : Str) :
    defBody st a = .ok (if hasKey a st.metrics then st else
      { st with metrics := insert a Model.V4.X st.metrics }) := by
  unfold defBody
  by_cases hk : hasKey a st.metrics = true <;> simp [hk, pure_ok, Model.V4.X]

theorem def_fold (l : List Str) (st : Code4.Self) :
    List.foldlM defBody st l = .ok { st with metrics := Model.V4.fillDefaults st.metrics l } := by
  induction l generalizing st with
  | nil => simp [List.foldlM, pure_ok, Model.V4.fillDefaults]
  | cons a l ih =>
    rw [List.foldlM_cons, def_step, ok_bind, ih]
    simp only [Model.V4.fillDefaults]
    by_cases hk : hasKey a st.metrics = true <;> simp [hk]


/-! ### `parse_vector` -/

theorem lookup_legal (k : Str) (l : List (Str × List (Str × Str))) :
    lookup k (l.map (fun x => (x.fst, keys x.snd))) = (lookup k l).map keys := by
  induction l with
  | nil => rfl
  | cons p r ih =>
    obtain ⟨a, b⟩ := p
    simp only [List.map_cons, lookup, ih]
    split <;> rfl

theorem mem_keys_iff {β : Type} (v : Str) (row : List (Str × β)) :
    v ∈ keys row ↔ hasKey v row = true := by
  induction row with
  | nil => simp [keys, hasKey, lookup]
  | cons p r ih =>
    obtain ⟨a, b⟩ := p
    simp only [keys, List.map_cons, List.mem_cons, hasKey, lookup] at ih ⊢
    by_cases h : v = a
    · simp [h]
    · simp [h, ih]

theorem insert_absent {β : Type} (k : Str) (v : β) (l : List (Str × β)) (h : hasKey k l = false) :
    insert k v l = l ++ [(k, v)] := by
  induction l with
  | nil => rfl
  | cons p r ih =>
    obtain ⟨a, b⟩ := p
    simp only [hasKey, lookup] at h ih
    by_cases hk : k = a
    · simp [hk] at h
    · simp only [hk, if_false] at h
      simp [insert, hk, ih h]

def parseBody : Code4.Self → Str → Py.M Code4.Self :=
  fun (st : Code4.Self) (field : Str) => (do
    let self := st
    let () ← (if (field = c!"") then (do
        Py.raise .malformed) else (do
        pure ()))
    let (metric, value_) ← Py.tryExcept (do
        let (metric, value_) ← Py.unpack2 (splitOn ':' field)
        pure (metric, value_)) .valueError (do
        Py.raise .malformed)
    let () ← (if (Py.contains metric self.metrics = true) then (do
        Py.raise .malformed) else (do
        pure ()))
    let () ← (if (¬ (Py.contains metric Gen.V4.valueNames = true)) then (do
        Py.raise .malformed) else (do
        pure ()))
    let t1 ← Py.getitem metric Gen.V4.valueNames
    let () ← (if (¬ (Py.contains value_ t1 = true)) then (do
        Py.raise .malformed) else (do
        pure ()))
    let self : Code4.Self := { self with metrics := Py.setitem metric value_ self.metrics }
    pure self)

theorem parse_step (st : Code4.Self) (f : Str) :
    (parseBody st f).mapError Py.Exc.toErr =
      (Model.parseField Model.V4.tables st.metrics f).map (fun m => { st with metrics := m }) := by
  unfold parseBody Model.parseField
  by_cases hf : f = []
  · simp [hf, Py.raise, error_bind, Except.mapError, Except.map, Py.Exc.toErr]
  simp only [hf, if_false, pure_ok, ok_bind]
  generalize splitOn ':' f = L
  rcases L with _ | ⟨m, _ | ⟨v, _ | ⟨w, r⟩⟩⟩
  · simp [Py.unpack2, Py.tryExcept, Py.raise, error_bind, Except.mapError, Except.map, Py.Exc.toErr]
  · simp [Py.unpack2, Py.tryExcept, Py.raise, error_bind, Except.mapError, Except.map, Py.Exc.toErr]
  · simp only [Py.unpack2, Py.tryExcept, ok_bind, Model.V4.tables, Py.contains, if_true]
    rw [lookup_legal]
    by_cases hd : hasKey m st.metrics = true
    · simp [hd, Py.raise, error_bind, Except.mapError, Except.map, Py.Exc.toErr]
    simp only [hd, Bool.false_eq_true, if_false, ok_bind]
    rcases Option.eq_none_or_eq_some (lookup m Gen.V4.valueNames) with hl | ⟨row, hl⟩
    · simp [hasKey, hl, Py.raise, error_bind, Except.mapError, Except.map, Py.Exc.toErr]
    simp only [hasKey, hl, getitem_some hl, Option.isSome_some, not_true_eq_false, if_false,
      ok_bind, Option.map_some]
    by_cases hv : hasKey v row = true
    · have hv' : v ∈ keys row := (mem_keys_iff v row).2 hv
      have hd' : hasKey m st.metrics = false := by simpa using hd
      simp [hasKey] at hv
      simp [hv, hv', Py.setitem, insert_absent m v st.metrics hd', ok_bind, Except.mapError,
        Except.map]
    · have hv' : ¬ v ∈ keys row := fun h => hv ((mem_keys_iff v row).1 h)
      simp [hasKey] at hv
      simp [hv, hv', Py.raise, error_bind, Except.mapError, Except.map, Py.Exc.toErr]
  · simp [Py.unpack2, Py.tryExcept, Py.raise, error_bind, Except.mapError, Except.map, Py.Exc.toErr]

theorem parse_fold (l : List Str) (st : Code4.Self) :
    (List.foldlM parseBody st l).mapError Py.Exc.toErr =
      (Model.parseFields Model.V4.tables st.metrics l).map (fun m => { st with metrics := m }) := by
  induction l generalizing st with
  | nil => simp [List.foldlM, pure_ok, Model.parseFields, Except.mapError, Except.map]
  | cons f l ih =>
    rw [List.foldlM_cons]
    simp only [Model.parseFields]
    have hs := parse_step st f
    cases hb : parseBody st f with
    | error e =>
      rw [hb] at hs
      cases hp : Model.parseField Model.V4.tables st.metrics f with
      | error e' =>
        rw [hp] at hs
        simp only [Except.mapError, Except.map, Except.error.injEq] at hs
        simp [error_bind, Except.mapError, Except.map, hs]
      | ok m' =>
        rw [hp] at hs
        simp [Except.mapError, Except.map] at hs
    | ok s' =>
      rw [hb] at hs
      cases hp : Model.parseField Model.V4.tables st.metrics f with
      | error e' =>
        rw [hp] at hs
        simp [Except.mapError, Except.map] at hs
      | ok m' =>
        rw [hp] at hs
        simp only [Except.mapError, Except.map, Except.ok.injEq] at hs
        subst hs
        simp only [ok_bind, ih]

theorem parse_vector_unfold (self : Code4.Self) :
    Code4.parse_vector self = (do
      let () ← (if (self.vector = c!"") then (do
          Py.raise .malformed) else (do
          pure ()))
      let () ← (if (endsWithChar '/' self.vector = true) then (do
          Py.raise .malformed) else (do
          pure ()))
      let () ← (if (¬ (startsWith c!"CVSS:4.0/" self.vector = true)) then (do
          Py.raise .malformed) else (do
          pure ()))
      let fields ← Py.tryExcept (do
          let fields : List Str := (List.drop 1 (splitOn '/' self.vector))
          pure fields) .indexError (do
          Py.raise .malformed)
      let self ← List.foldlM parseBody self fields
      pure self) := rfl

end Aux

/-- `parse_vector()` on a fresh object: same outcome class and same metric dict as the model's parser -/
theorem parse_vector_eq (self : Code4.Self) (h : self.metrics = []) :
    ((Code4.parse_vector self).mapError Py.Exc.toErr).map (fun x => (x.vector, x.metrics)) =
      (Model.parseWithPrefix Model.V4.tables [Model.V4.pfx] self.vector).map (fun r => (self.vector, r.2)) := by
  rw [Aux.parse_vector_unfold]
  unfold Model.parseWithPrefix
  by_cases h1 : self.vector = []
  · simp [h1, Py.raise, Aux.error_bind, Except.mapError, Except.map, Py.Exc.toErr]
  by_cases h2 : endsWithChar '/' self.vector = true
  · simp [h1, h2, Py.raise, Aux.error_bind, Aux.ok_bind, Aux.pure_ok, Except.mapError, Except.map,
      Py.Exc.toErr]
  simp only [Model.V4.pfx]
  by_cases h3 : startsWith c!"CVSS:4.0/" self.vector = true
  · simp only [h1, h2, h3, if_false, if_true, not_true_eq_false, Aux.pure_ok, Aux.ok_bind, Py.tryExcept,
      List.findIdx?_cons, List.findIdx?_nil, Bool.false_eq_true]
    rw [Aux.parse_fold, h]
    cases Model.parseFields Model.V4.tables [] (List.drop 1 (splitOn '/' self.vector)) <;> rfl
  · simp [h1, h2, h3, Py.raise, Aux.error_bind, Aux.ok_bind, Aux.pure_ok, Except.mapError, Except.map,
      Py.Exc.toErr, List.findIdx?_cons]

/-- `check_mandatory()` -/
theorem check_mandatory_eq (self : Code4.Self) :
    (Code4.check_mandatory self).mapError Py.Exc.toErr = Model.checkMandatory Model.V4.tables self.metrics := by
  have h := Aux.mand_fold self.metrics Gen.V4.mandatory []
  simp only [List.nil_append] at h
  unfold Code4.check_mandatory Model.checkMandatory
  show ((List.foldlM (Aux.mandBody self.metrics) [] Gen.V4.mandatory >>=
    fun v => _).mapError _) = _
  rw [h]
  simp only [Aux.ok_bind, Model.V4.tables]
  by_cases hall : (Gen.V4.mandatory.all fun k => hasKey k self.metrics) = true
  · have : List.filter (fun k => !hasKey k self.metrics) Gen.V4.mandatory = [] := by
      simp only [List.filter_eq_nil_iff]
      intro a ha
      simp only [List.all_eq_true] at hall
      simp [hall a ha]
    simp [this, hall, Aux.pure_ok, Aux.ok_bind, Except.mapError]
  · have : List.filter (fun k => !hasKey k self.metrics) Gen.V4.mandatory ≠ [] := by
      intro h0
      apply hall
      simp only [List.filter_eq_nil_iff] at h0
      simp only [List.all_eq_true]
      intro a ha
      simpa using h0 a ha
    simp [this, hall, Aux.pure_ok, Aux.error_bind, Except.mapError, Py.raise, Py.Exc.toErr]

/-- `add_missing_optional()`: the original dict is kept, Modified metrics inherit, defaults are filled in -/
theorem add_missing_optional_eq (self : Code4.Self) :
    (Code4.add_missing_optional self).toOption.map (fun s => (s.original_metrics, s.metrics)) =
      (Model.V4.fillModified self.metrics Model.V4.modifiedMetrics).map
        (fun m1 => (self.metrics, Model.V4.fillDefaults m1 Model.V4.defaultedMetrics)) := by
  unfold Code4.add_missing_optional
  show ((List.foldlM Aux.modBody { self with original_metrics := self.metrics }
      Model.V4.modifiedMetrics >>= fun s1 =>
    List.foldlM Aux.defBody s1 Model.V4.defaultedMetrics).toOption.map _) = _
  rw [Aux.toOption_bind, Aux.mod_fold]
  simp only [Aux.def_fold, Except.toOption]
  cases Model.V4.fillModified self.metrics Model.V4.modifiedMetrics <;> rfl

/-- `compute_severity()` once the score is set -/
theorem compute_severity_eq (self : Code4.Self) (b : Rat) (h : self.base_score = some b) :
    (Code4.compute_severity self).map (fun s => s.severity) = .ok (some (Model.V4.sevOf b)) := by
  unfold Code4.compute_severity Model.V4.sevOf
  simp only [h, Py.req, Aux.ok_bind, Aux.pure_ok, Model.V4.r]
  by_cases h0 : b = 0
  · subst h0
    simp [Except.map]
  have e0 : (mkRat 0 1 : Rat) = 0 := by decide
  simp only [e0, Option.some.injEq, if_neg h0]
  by_cases h1 : b ≤ mkRat 39 10
  · simp [h1, Except.map]
  by_cases h2 : b ≤ mkRat 69 10
  · simp [h1, h2, Except.map]
  by_cases h3 : b ≤ mkRat 89 10
  · simp [h1, h2, h3, Except.map]
  · simp [h1, h2, h3, Except.map]

/-- `clean_vector(output_prefix)` -/
theorem clean_vector_eq (self : Code4.Self) (p : Bool) :
    Code4.clean_vector self p = .ok (Model.V4.cleanOf self.original_metrics p) := by
  have h := Aux.clean_fold self.original_metrics c!"X" (keys Gen.V4.abbrs) []
  simp only [List.nil_append] at h
  unfold Code4.clean_vector Model.V4.cleanOf
  show (List.foldlM (Aux.cleanBody self.original_metrics c!"X") [] (keys Gen.V4.abbrs) >>=
    fun v => _) = _
  rw [h]
  cases p <;> rfl

/-- the literal `*_levels` tables: same look-ups (entry order inside a dict literal is irrelevant) -/
theorem levels_eq (k v : Str) :
    (lookup k Code4.levels).bind (lookup v) = (lookup k Model.V4.levels).bind (lookup v) := by
  rw [Aux.levels_tables_eq]

theorem levels_keys_perm : (keys Code4.levels).Perm (keys Model.V4.levels) := by
  have : keys Code4.levels = keys Model.V4.levels := by
    simp [keys, Code4.levels, Model.V4.levels]
  rw [this]

theorem step_eq : Code4.step = Model.V4.r 1 10 := rfl

/-- every one of the 14 severity distances is `X_levels[m(X)] - X_levels[max vector's X]` with the
    metric's own table, in the model's order -/
theorem distMetrics_eq : Code4.distMetrics = Model.V4.distMetrics := rfl


/-- the model's JSON values inside the translation's (which also has `null`) -/
def jOf : Model.JVal → Py.J
  | .str s => .str s
  | .num x => .num x

namespace Aux

def jm (d : Model.JObj) : List (Str × Py.J) := d.map (fun kv => (kv.1, jOf kv.2))

theorem insert_jm (k : Str) (v : Model.JVal) (d : Model.JObj) :
    insert k (jOf v) (jm d) = jm (insert k v d) := by
  induction d with
  | nil => rfl
  | cons p r ih =>
    obtain ⟨a, b⟩ := p
    simp only [jm, List.map_cons, insert] at ih ⊢
    by_cases hk : k = a
    · simp [hk]
    · simp [hk, ih]

theorem strLt_eq (a b : Str) : Py.strLt a b = Model.strLt a b := by
  induction a generalizing b with
  | nil => cases b <;> rfl
  | cons x xs ih =>
    cases b with
    | nil => rfl
    | cons y ys => simp only [Py.strLt, Model.strLt, ih]

theorem insertSorted_jm (kv : Str × Model.JVal) (d : Model.JObj) :
    Py.insertSorted (kv.1, jOf kv.2) (jm d) = jm (Model.insertSorted kv d) := by
  induction d with
  | nil => rfl
  | cons p r ih =>
    simp only [jm, List.map_cons, Py.insertSorted, Model.insertSorted, strLt_eq] at ih ⊢
    by_cases hk : Model.strLt kv.1 p.1 = true
    · simp [hk]
    · simp [hk, ih]

theorem foldl_sorted_jm (l : Model.JObj) (acc : Model.JObj) :
    List.foldl (fun acc kv => Py.insertSorted kv acc) (jm acc) (jm l) =
      jm (List.foldl (fun acc kv => Model.insertSorted kv acc) acc l) := by
  induction l generalizing acc with
  | nil => rfl
  | cons p r ih =>
    simp only [jm, List.map_cons, List.foldl_cons] at ih ⊢
    have := insertSorted_jm p acc
    simp only [jm] at this
    rw [this, ih]

theorem sorted_jm (d : Model.JObj) : Py.sortedItems (jm d) = jm (Model.sortObj d) :=
  foldl_sorted_jm d []

def jsonBody (self : Code4.Self) : List (Str × Py.J) → Str → Py.M (List (Str × Py.J)) :=
  fun (st : (List (Str × Py.J))) (metric : Str) => (do
    let data := st
    let us : Str → Py.M Str := fun text => (do
        if (text = c!"Adjacent") then (do
            pure c!"ADJACENT_NETWORK") else (do
            pure (replaceChar ' ' '_' (replaceChar '-' '_' (Py.upper text)))))
    let add_metric_to_data : List (Str × Py.J) → Str → Py.M (List (Str × Py.J)) := fun data metric => (do
        let t1 ← Py.getitem metric Gen.V4.jsonKeys
        let k : Str := t1
        let t2 ← Code4.get_value_description self metric
        let t3 ← us t2
        let data : List (Str × Py.J) := Py.setitem k (Py.J.str t3) data
        pure data)
    let data ← add_metric_to_data data metric
    pure data)

theorem us_eq (t : Str) :
    (if (t = c!"Adjacent") then (Except.ok c!"ADJACENT_NETWORK" : Py.M Str) else
      (Except.ok (replaceChar ' ' '_' (replaceChar '-' '_' (Py.upper t))))) = .ok (Model.us3 t) := by
  unfold Model.us3 Model.us2
  split <;> rfl

theorem json_step (self : Code4.Self) (d : Model.JObj) (m : Str) :
    (jsonBody self (jm d) m).toOption =
      match lookup m Gen.V4.jsonKeys, Model.V4.getDescription self.metrics m with
      | some k, some ds => some (jm (insert k (.str (Model.us3 ds)) d))
      | _, _ => none := by
  unfold jsonBody
  simp only []
  have hg := get_value_description_eq self m
  rcases Option.eq_none_or_eq_some (lookup m Gen.V4.jsonKeys) with hk | ⟨k, hk⟩
  · rw [getitem_none hk, hk]
    rfl
  · rw [getitem_some hk, hk]
    simp only [ok_bind]
    cases hd : Code4.get_value_description self m with
    | error e =>
      rw [hd] at hg
      simp only [Except.toOption] at hg
      rw [← hg]
      rfl
    | ok ds =>
      rw [hd] at hg
      simp only [Except.toOption] at hg
      rw [← hg]
      simp only [ok_bind, us_eq, pure_ok, Py.setitem, Except.toOption]
      exact congrArg some (insert_jm k (.str (Model.us3 ds)) d)

theorem json_fold (self : Code4.Self) (l : List Str) (d : Model.JObj) :
    (List.foldlM (jsonBody self) (jm d) l).toOption =
      (Model.addMetrics Gen.V4.jsonKeys (Model.V4.getDescription self.metrics) Model.us3 d l).map jm := by
  induction l generalizing d with
  | nil => rfl
  | cons a l ih =>
    rw [List.foldlM_cons, toOption_bind, json_step]
    simp only [Model.addMetrics]
    cases lookup a Gen.V4.jsonKeys with
    | none => rfl
    | some k =>
      cases Model.V4.getDescription self.metrics a with
      | none => rfl
      | some ds => simp only [Option.bind_some, ih]

theorem as_json_unfold (self : Code4.Self) (sort minimal : Bool) :
    Code4.as_json self sort minimal = (do
      let data ← List.foldlM (jsonBody self)
        ([(c!"version", (Py.J.str c!"4")), (c!"vectorString", (Py.J.str self.vector))] : List (Str × Py.J))
        Gen.V4.metricsOrder
      let v4 ← Py.req self.base_score
      let data : List (Str × Py.J) := Py.setitem c!"baseScore" (Py.J.num v4) data
      let data : List (Str × Py.J) := Py.setitem c!"baseSeverity" (match self.severity with | some x => Py.J.str x | none => Py.J.null) data
      let data ← (if (sort = true) then (do
          let data : List (Str × Py.J) := (Py.sortedItems data)
          pure data) else (do
          pure data))
      pure data) := rfl

end Aux

/-- `as_json(sort, minimal)` on a constructed object, all four option sets: same keys, same values, same
    order (or both raise) -/
theorem as_json_eq (self : Code4.Self) (o : Model.V4.Obj) (sort minimal : Bool)
    (hv : o.vector = self.vector) (hm : o.metrics = self.metrics) (hb : self.base_score = some o.base)
    (hs : self.severity = some o.severity) :
    (Code4.as_json self sort minimal).toOption =
      (Model.asJson4 o sort minimal).map (List.map (fun kv => (kv.1, jOf kv.2))) := by
  rw [Aux.as_json_unfold]
  have hmodel : Model.asJson4 o sort minimal =
      (Model.addMetrics Gen.V4.jsonKeys (Model.V4.getDescription o.metrics) Model.us3
        [(c!"version", .str c!"4"), (c!"vectorString", .str o.vector)] Gen.V4.metricsOrder).bind
        (fun d1 => some (if sort = true then
          Model.sortObj (insert c!"baseSeverity" (.str o.severity) (insert c!"baseScore" (.num o.base) d1))
          else insert c!"baseSeverity" (.str o.severity) (insert c!"baseScore" (.num o.base) d1))) := rfl
  rw [hmodel, hv, hm]
  have hf := Aux.json_fold self Gen.V4.metricsOrder
    [(c!"version", .str c!"4"), (c!"vectorString", .str self.vector)]
  simp only [Aux.jm, List.map_cons, List.map_nil, jOf] at hf
  rw [Aux.toOption_bind, hf]
  cases Model.addMetrics Gen.V4.jsonKeys (Model.V4.getDescription self.metrics) Model.us3
      [(c!"version", .str c!"4"), (c!"vectorString", .str self.vector)] Gen.V4.metricsOrder with
  | none => rfl
  | some d1 =>
    have e1 : insert c!"baseScore" (Py.J.num o.base) (Aux.jm d1) =
        Aux.jm (insert c!"baseScore" (.num o.base) d1) := Aux.insert_jm _ (.num o.base) d1
    have e2 : insert c!"baseSeverity" (Py.J.str o.severity)
        (Aux.jm (insert c!"baseScore" (.num o.base) d1)) =
        Aux.jm (insert c!"baseSeverity" (.str o.severity) (insert c!"baseScore" (.num o.base) d1)) :=
      Aux.insert_jm _ (.str o.severity) _
    simp only [Option.map_some, Option.bind_some, hb, hs, Py.req, Aux.ok_bind, Aux.pure_ok,
      Py.setitem, e1, e2]
    cases sort
    · rfl
    · simp only [if_true, Except.toOption, Aux.sorted_jm]
      rfl

end Cvss.Props.CodeTie4
