/-
  SOURCE TIE, CVSS4: the hand-written model `Cvss.Model.V4` equals the translation of cvss/cvss4.py's
  `m`, `macroVector`, `get_value_description` and of the literal tables inside `compute_base_score`
  (`*_levels`, `step`, which table each severity distance reads) that `tools/gen_code.py` regenerates
  from the SOURCE TEXT on every run (`Cvss.Gen.Code4`).  Every theorem declared directly in this
  namespace is an obligation.
-/
import Cvss.Py
import Cvss.Gen.Code4
import Cvss.Model.V4
namespace Cvss.Props.CodeTie4
open Cvss Cvss.Gen

namespace Aux

theorem levels_tables_eq : Code4.levels = Model.V4.levels := by
  decide +kernel

theorem ite_some_some {α : Type} (c : Prop) [Decidable c] (a b : α) :
    (if c then some a else some b) = some (if c then a else b) := by
  split <;> rfl

theorem app6 {a1 a2 a3 a4 a5 a6 : Str} {n1 n2 n3 n4 n5 n6 : Nat}
    (h1 : a1 = natToStr n1) (h2 : a2 = natToStr n2) (h3 : a3 = natToStr n3)
    (h4 : a4 = natToStr n4) (h5 : a5 = natToStr n5) (h6 : a6 = natToStr n6) :
    (((((a1 ++ a2) ++ a3) ++ a4) ++ a5) ++ a6) = Model.V4.mvKey [n1, n2, n3, n4, n5, n6] := by
  subst h1 h2 h3 h4 h5 h6
  simp [Model.V4.mvKey, List.flatMap_cons, List.append_assoc]

theorem n0 : natToStr 0 = ['0'] := by decide
theorem n1 : natToStr 1 = ['1'] := by decide
theorem n2 : natToStr 2 = ['2'] := by decide

end Aux

/-- `m(metric)`: the effective value (never raises) -/
theorem m_eq (self : Code4.Self) (k : Str) :
    Code4.m self k = some (Model.V4.mEff self.metrics k) := by
  unfold Code4.m Model.V4.mEff
  delta Model.V4.X
  simp only [Py.get?, Py.contains, Py.getitem, hasKey, List.cons_append, List.nil_append,
    bind, pure]
  by_cases h1 : k = ['E'] ∧ lookup k self.metrics = some ['X']
  · simp only [if_pos h1]
  by_cases h2 : k = ['C', 'R'] ∧ lookup k self.metrics = some ['X']
  · simp only [if_neg h1, if_pos h2]
  by_cases h3 : k = ['I', 'R'] ∧ lookup k self.metrics = some ['X']
  · simp only [if_neg h1, if_neg h2, if_pos h3]
  by_cases h4 : k = ['A', 'R'] ∧ lookup k self.metrics = some ['X']
  · simp only [if_neg h1, if_neg h2, if_neg h3, if_pos h4]
  simp only [if_neg h1, if_neg h2, if_neg h3, if_neg h4]
  cases hM : lookup ('M' :: k) self.metrics with
  | none => simp
  | some ms =>
    simp only [Option.isSome_some, if_true, Option.bind]
    by_cases hx : ms = ['X'] <;> simp [hx]

/-- `macroVector()`: whenever the model produces six digits, the translated source returns exactly
    that six-character key (the model's `none` stands for a string containing "None") -/
theorem macroVector_eq (self : Code4.Self) (d : List Nat)
    (h : Model.V4.macroVector self.metrics = some d) :
    Code4.macroVector self = some (Model.V4.mvKey d) := by
  unfold Code4.macroVector
  simp only [m_eq, bind, Option.bind, pure, Aux.ite_some_some]
  unfold Model.V4.macroVector at h
  simp only [] at h
  split at h
  · exact absurd h (by simp)
  · rename_i e5 heq
    injection h with h
    subst h
    congr 1
    apply Aux.app6
    · by_cases a : Model.V4.mEff self.metrics ['A', 'V'] = some ['N'] <;>
      by_cases b : Model.V4.mEff self.metrics ['P', 'R'] = some ['N'] <;>
      by_cases c : Model.V4.mEff self.metrics ['U', 'I'] = some ['N'] <;>
      by_cases e : Model.V4.mEff self.metrics ['A', 'V'] = some ['P'] <;>
      simp [a, b, c, e, Aux.n0, Aux.n1, Aux.n2] <;> simp_all
    · by_cases a : Model.V4.mEff self.metrics ['A', 'C'] = some ['L'] <;>
      by_cases b : Model.V4.mEff self.metrics ['A', 'T'] = some ['N'] <;>
      simp [a, b, Aux.n0, Aux.n1]
    · by_cases a : Model.V4.mEff self.metrics ['V', 'C'] = some ['H'] <;>
      by_cases b : Model.V4.mEff self.metrics ['V', 'I'] = some ['H'] <;>
      by_cases c : Model.V4.mEff self.metrics ['V', 'A'] = some ['H'] <;>
      simp [a, b, c, Aux.n0, Aux.n1, Aux.n2]
    · by_cases a : Model.V4.mEff self.metrics ['M', 'S', 'I'] = some ['S'] <;>
      by_cases b : Model.V4.mEff self.metrics ['M', 'S', 'A'] = some ['S'] <;>
      by_cases c : Model.V4.mEff self.metrics ['S', 'C'] = some ['H'] <;>
      by_cases e : Model.V4.mEff self.metrics ['S', 'I'] = some ['H'] <;>
      by_cases f : Model.V4.mEff self.metrics ['S', 'A'] = some ['H'] <;>
      simp [a, b, c, e, f, Aux.n0, Aux.n1, Aux.n2]
    · by_cases a : Model.V4.mEff self.metrics ['E'] = some ['A'] <;>
      by_cases b : Model.V4.mEff self.metrics ['E'] = some ['P'] <;>
      by_cases c : Model.V4.mEff self.metrics ['E'] = some ['U'] <;>
      simp [a, b, c] at heq <;> subst heq <;> simp [a, b, c, Aux.n0, Aux.n1, Aux.n2]
    · by_cases a : Model.V4.mEff self.metrics ['C', 'R'] = some ['H'] <;>
      by_cases b : Model.V4.mEff self.metrics ['I', 'R'] = some ['H'] <;>
      by_cases c : Model.V4.mEff self.metrics ['A', 'R'] = some ['H'] <;>
      by_cases e : Model.V4.mEff self.metrics ['V', 'C'] = some ['H'] <;>
      by_cases f : Model.V4.mEff self.metrics ['V', 'I'] = some ['H'] <;>
      by_cases g : Model.V4.mEff self.metrics ['V', 'A'] = some ['H'] <;>
      simp [a, b, c, e, f, g, Aux.n0, Aux.n1]

/-- … and when the model has no macro vector, the source's string is not a six-digit key: it contains
    the letter 'N' (of "None") -/
theorem macroVector_none (self : Code4.Self)
    (h : Model.V4.macroVector self.metrics = none) :
    ∃ s, Code4.macroVector self = some s ∧ 'N' ∈ s := by
  unfold Code4.macroVector
  simp only [m_eq, bind, Option.bind, pure, Aux.ite_some_some]
  refine ⟨_, rfl, ?_⟩
  unfold Model.V4.macroVector at h
  simp only [] at h
  split at h
  · rename_i heq
    apply List.mem_append_left
    apply List.mem_append_right
    by_cases a : Model.V4.mEff self.metrics ['E'] = some ['A'] <;>
      by_cases b : Model.V4.mEff self.metrics ['E'] = some ['P'] <;>
      by_cases c : Model.V4.mEff self.metrics ['E'] = some ['U'] <;>
      simp [a, b, c] at heq <;> simp [a, b, c]
  · exact absurd h (by simp)

theorem get_value_description_eq (self : Code4.Self) (a : Str) :
    Code4.get_value_description self a = Model.V4.getDescription self.metrics a := by
  unfold Code4.get_value_description Model.V4.getDescription
  simp only [Py.getD, Py.getitem, Model.V4.X, bind, pure]
  cases lookup a Gen.V4.valueNames with
  | none => rfl
  | some row =>
    simp only [Option.bind]
    cases lookup ((lookup a self.metrics).getD ['X']) row <;> rfl

/-- the literal `*_levels` tables: same look-ups (entry order inside a dict literal is irrelevant) -/
theorem levels_eq (k v : Str) :
    (lookup k Code4.levels).bind (lookup v) = (lookup k Model.V4.levels).bind (lookup v) := by
  rw [Aux.levels_tables_eq]

theorem levels_keys_perm : (keys Code4.levels).Perm (keys Model.V4.levels) := by
  have : keys Code4.levels = keys Model.V4.levels := by
    simp [keys, Code4.levels, Model.V4.levels]
  rw [this]

theorem step_eq : Code4.step = Model.V4.r 1 10 := rfl

/-- every one of the 14 severity distances is `X_levels[m(X)] - X_levels[max vector's X]` with the
    metric's own table, in the model's order -/
theorem distMetrics_eq : Code4.distMetrics = Model.V4.distMetrics := rfl


namespace Aux

theorem fmt2 (a b : Str) : Py.format c!"{0}:{1}" [a, b] = a ++ ':' :: b := by
  simp [Py.format, Py.formatAux, Py.fmtField]

def cleanBody (m : List (Str × Str)) (nd : Str) : List Str → Str → Option (List Str) :=
  fun (st : (List Str)) (metric : Str) => (do
      let vector := st
      let vector ← (if (Py.contains metric m = true) then (do
          let t1 ← Py.getitem metric m
          let value_ : Str := t1
          let vector ← (if (¬ (value_ = nd)) then (do
              let vector : List Str := vector ++ [(Py.format c!"{0}:{1}" [metric, value_])]
              pure vector) else (do
              pure vector))
          pure vector) else (do
          pure vector))
      pure vector)

def cleanF (m : List (Str × Str)) (nd : Str) : Str → Option Str :=
  fun k =>
    match lookup k m with
    | some v => if v ≠ nd then some (k ++ ':' :: v) else none
    | none => none

theorem clean_step (m : List (Str × Str)) (nd : Str) (k : Str) (acc : List Str) :
    cleanBody m nd acc k = some (acc ++ (cleanF m nd k).toList) := by
  unfold cleanBody cleanF
  simp only [Py.contains, hasKey, Py.getitem]
  cases h : lookup k m with
  | none => simp
  | some v =>
    by_cases hv : v = nd
    · simp [hv]
    · simp [hv, fmt2]

theorem clean_fold (m : List (Str × Str)) (nd : Str) (l : List Str) (acc : List Str) :
    List.foldlM (cleanBody m nd) acc l = some (acc ++ l.filterMap (cleanF m nd)) := by
  induction l generalizing acc with
  | nil => simp [List.foldlM]
  | cons k l ih =>
    rw [List.foldlM_cons, clean_step]
    simp only [Option.bind_eq_bind, Option.bind_some, ih, List.filterMap_cons]
    cases cleanF m nd k <;> simp

end Aux

/-- `clean_vector(output_prefix)` -/
theorem clean_vector_eq (self : Code4.Self) (p : Bool) :
    Code4.clean_vector self p = some (Model.V4.cleanOf self.original_metrics p) := by
  have h := Aux.clean_fold self.original_metrics c!"X" (keys Gen.V4.abbrs) []
  simp only [List.nil_append] at h
  unfold Code4.clean_vector Model.V4.cleanOf
  show (List.foldlM (Aux.cleanBody self.original_metrics c!"X") [] (keys Gen.V4.abbrs) >>=
    fun v => _) = _
  rw [h]
  cases p <;> rfl

end Cvss.Props.CodeTie4
