/-
  C03 — CVSS v2 scores equal the CVSS v2 guide equations.
-/
import Cvss.Model.V2
import Cvss.Spec.V2
import Cvss.Lemmas.Num
import Cvss.Lemmas.V2
namespace Cvss.Props.C03
open Cvss Cvss.Model Cvss.Lemmas.Num Cvss.Lemmas.V2

def weightsPinned : Bool :=
  Gen.V2.values.all (fun (m, row) => row.all (fun (t, wgt) => wgt == some (Spec.V2.w m t))) &&
  (keys Gen.V2.values).all (fun m => (lookup m Spec.V2.weights).isSome) &&
  Spec.V2.weights.all (fun (m, row) => (lookup m Gen.V2.values).map (fun r => r.length) == some row.length)

/-- pinning: every weight the library reads is the guide's weight, and the tables have the same keys -/
theorem weights_pinned : weightsPinned = true := by decide +kernel

/-- a metric map as a successful `parse` produces it (see C04): every stored value is a legal value
    of its metric and every mandatory metric is present -/
def ValidMap (m : MMap) : Prop :=
  (∀ k v, lookup k m = some v → ∃ vs, lookup k V2.tables.legal = some vs ∧ v ∈ vs) ∧
  (∀ k ∈ V2.tables.mandatory, (lookup k m).isSome)

/-- every weight read from the library's table is the guide's weight -/
theorem weight_eq_spec {k t : Str} {row : List (Str × Option Rat)} {w : Option Rat}
    (hrow : lookup k Gen.V2.values = some row) (hw : lookup t row = some w) :
    w = some (Spec.V2.w k t) := by
  have hp := weights_pinned
  unfold weightsPinned at hp
  simp only [Bool.and_eq_true] at hp
  have := all_all_lookup (P := fun m t wgt => wgt == some (Spec.V2.w m t)) hp.1.1 hrow hw
  exact eq_of_beq this

/-- finite facts about the generated tables: every metric has a row of weights, and the row of every
    optional metric has the key "ND" -/
def rowsPresent : Bool :=
  (keys Gen.V2.abbrs).all (fun k =>
    match lookup k Gen.V2.values with
    | none => false
    | some row => decide (k ∈ Gen.V2.mandatory) || (lookup V2.ND row).isSome)

theorem rows_present : rowsPresent = true := by decide +kernel

/-- `get_value` returns the guide's weight of the stated (or Not Defined) value, for every metric -/
theorem getValue_eq_spec (m : MMap) (hv : ValidMap m) (k : Str) (hk : k ∈ keys Gen.V2.abbrs) :
    V2.getValue m k = some (Spec.V2.wa (assignment V2.ND m) k) := by
  have hrp := List.all_eq_true.mp rows_present k hk
  cases hrow : lookup k Gen.V2.values with
  | none => rw [hrow] at hrp; exact absurd hrp (by simp)
  | some row =>
    rw [hrow] at hrp
    simp only [Bool.or_eq_true, decide_eq_true_eq] at hrp
    have ht : ∃ w, lookup ((lookup k m).getD V2.ND) row = some w := by
      cases hkm : lookup k m with
      | some v =>
        obtain ⟨vs, hvs, hmem⟩ := hv.1 k v hkm
        have hl : lookup k V2.tables.legal = (lookup k Gen.V2.values).map keys :=
          lookup_map_keys k Gen.V2.values
        rw [hl, hrow] at hvs
        cases hvs
        exact lookup_of_mem_keys hmem
      | none =>
        rcases hrp with hmand | hnd
        · have := hv.2 k hmand
          rw [hkm] at this
          exact absurd this (by simp)
        · exact Option.isSome_iff_exists.mp hnd
    obtain ⟨w, hw⟩ := ht
    have hwe := weight_eq_spec hrow hw
    subst hwe
    unfold V2.getValue
    rw [hrow]
    simp only [hw]
    rfl

theorem allND_temporal (m : MMap) :
    V2.allND m Gen.V2.temporal = !Spec.V2.temporalDefined (assignment V2.ND m) := by
  rw [Bool.eq_iff_iff]
  simp only [V2.allND, Gen.V2.temporal, Spec.V2.temporalDefined, List.all_cons, List.all_nil,
    Bool.and_true, Bool.not_not, Bool.and_eq_true, decide_eq_true_eq]
  exact Iff.rfl

theorem allND_environmental (m : MMap) :
    V2.allND m Gen.V2.environmental = !Spec.V2.environmentalDefined (assignment V2.ND m) := by
  rw [Bool.eq_iff_iff]
  simp only [V2.allND, Gen.V2.environmental, Spec.V2.environmentalDefined, List.all_cons,
    List.all_nil, Bool.and_true, Bool.not_not, Bool.and_eq_true, decide_eq_true_eq]
  exact Iff.rfl

/-- MAIN: for every valid metric map the three scores the model computes are the guide's equations
    applied to the assignment read off the map; in particular `None` exactly where the guide's score is
    undefined, and no exception outside the hierarchy can occur while scoring -/
theorem v2_scores_eq_spec (m : MMap) (hv : ValidMap m) :
    V2.computeScores m =
      some (Spec.V2.baseScore (assignment V2.ND m), Spec.V2.temporalScore (assignment V2.ND m),
            Spec.V2.environmentalScore (assignment V2.ND m)) := by
  have gAV := getValue_eq_spec m hv c!"AV" (by decide)
  have gAC := getValue_eq_spec m hv c!"AC" (by decide)
  have gAu := getValue_eq_spec m hv c!"Au" (by decide)
  have gC := getValue_eq_spec m hv c!"C" (by decide)
  have gI := getValue_eq_spec m hv c!"I" (by decide)
  have gA := getValue_eq_spec m hv c!"A" (by decide)
  have gE := getValue_eq_spec m hv c!"E" (by decide)
  have gRL := getValue_eq_spec m hv c!"RL" (by decide)
  have gRC := getValue_eq_spec m hv c!"RC" (by decide)
  have gCDP := getValue_eq_spec m hv c!"CDP" (by decide)
  have gTD := getValue_eq_spec m hv c!"TD" (by decide)
  have gCR := getValue_eq_spec m hv c!"CR" (by decide)
  have gIR := getValue_eq_spec m hv c!"IR" (by decide)
  have gAR := getValue_eq_spec m hv c!"AR" (by decide)
  have hT := allND_temporal m
  have hE := allND_environmental m
  generalize ha : assignment V2.ND m = a at *
  have hImp : V2.impactEq m = some (Spec.V2.impact a) := by
    unfold V2.impactEq; rw [gC, gI, gA]; rfl
  have hAdj : V2.adjustedImpactEq m = some (Spec.V2.adjustedImpact a) := by
    unfold V2.adjustedImpactEq; rw [gC, gI, gA, gCR, gIR, gAR]
    unfold Spec.V2.adjustedImpact
    rw [← pyMin_eq_min]; rfl
  have hB0 : V2.baseEq m false = some (Spec.V2.baseEq a (Spec.V2.impact a)) := by
    unfold V2.baseEq; rw [gAV, gAC, gAu]
    simp only [Bool.false_eq_true, if_false, hImp]; rfl
  have hB1 : V2.baseEq m true = some (Spec.V2.baseEq a (Spec.V2.adjustedImpact a)) := by
    unfold V2.baseEq; rw [gAV, gAC, gAu]
    simp only [if_true, hAdj]; rfl
  have hBS : V2.baseScore m = some (Spec.V2.baseScore a) := by
    unfold V2.baseScore; rw [hB0]; unfold Spec.V2.baseScore; rw [← pyMax_eq_max]; rfl
  have hT0 : V2.temporalEq m (Spec.V2.baseScore a) false =
      some (Spec.V2.round1 (Spec.V2.baseScore a * Spec.V2.temporalFactor a)) := by
    unfold V2.temporalEq; rw [gE, gRL, gRC]
    simp only [Bool.false_eq_true, if_false]
    show some (roundHalfUp1 _) = some (Spec.V2.round1 _)
    unfold Spec.V2.temporalFactor
    rw [← mul_assoc, ← mul_assoc]; rfl
  have hT1 : V2.temporalEq m (Spec.V2.baseScore a) true =
      some (Spec.V2.round1 (Spec.V2.baseEq a (Spec.V2.adjustedImpact a) * Spec.V2.temporalFactor a)) := by
    unfold V2.temporalEq; rw [gE, gRL, gRC]
    simp only [if_true, hB1]
    show some (roundHalfUp1 _) = some (Spec.V2.round1 _)
    unfold Spec.V2.temporalFactor
    rw [← mul_assoc, ← mul_assoc]; rfl
  unfold V2.computeScores
  rw [hBS, hT, hE]
  simp only [Option.bind_eq_bind, Option.bind_some, hT0, hT1, gCDP, gTD]
  unfold Spec.V2.temporalScore Spec.V2.environmentalScore
  cases Spec.V2.temporalDefined a <;> cases Spec.V2.environmentalDefined a <;>
    simp [pyMax_eq_max] <;> rfl

/-- the temporal (environmental) score is undefined exactly when every metric of the group is absent or ND -/
theorem v2_none_iff (a : Str → Str) :
    (Spec.V2.temporalScore a = none ↔ (a c!"E" = c!"ND" ∧ a c!"RL" = c!"ND" ∧ a c!"RC" = c!"ND")) ∧
    (Spec.V2.environmentalScore a = none ↔
      (a c!"CDP" = c!"ND" ∧ a c!"TD" = c!"ND" ∧ a c!"CR" = c!"ND" ∧ a c!"IR" = c!"ND" ∧ a c!"AR" = c!"ND")) := by
  constructor
  · unfold Spec.V2.temporalScore
    cases h : Spec.V2.temporalDefined a
    · simp only [Bool.false_eq_true, if_false, true_iff]
      unfold Spec.V2.temporalDefined at h
      simp only [Bool.not_eq_false', decide_eq_true_eq] at h
      exact h
    · simp only [if_true, reduceCtorEq, false_iff]
      unfold Spec.V2.temporalDefined at h
      simp only [Bool.not_eq_true', decide_eq_false_iff_not] at h
      exact h
  · unfold Spec.V2.environmentalScore
    cases h : Spec.V2.environmentalDefined a
    · simp only [Bool.false_eq_true, if_false, true_iff]
      unfold Spec.V2.environmentalDefined at h
      simp only [Bool.not_eq_false', decide_eq_true_eq] at h
      exact h
    · simp only [if_true, reduceCtorEq, false_iff]
      unfold Spec.V2.environmentalDefined at h
      simp only [Bool.not_eq_true', decide_eq_false_iff_not] at h
      exact h

/-- a well-formed score: an integer number of tenths between 0.0 and 10.0 -/
def IsScore (x : Rat) : Prop := ∃ k : Nat, k ≤ 100 ∧ x = (k : Rat) / 10

/-- an assignment whose values are legal for the guide's tables (as every parsed map gives) -/
def LegalAssignment (a : Str → Str) : Prop :=
  ∀ p ∈ Spec.V2.weights, (lookup (a p.1) p.2).isSome

/-- C09 (v2 part): every defined v2 score is an integer number of tenths in [0.0, 10.0] -/
theorem v2_spec_range (a : Str → Str) (ha : LegalAssignment a) :
    IsScore (Spec.V2.baseScore a) ∧ (∀ x, Spec.V2.temporalScore a = some x → IsScore x) ∧
      (∀ x, Spec.V2.environmentalScore a = some x → IsScore x) := by
  have hl : Legal a := ha
  refine ⟨baseScore_isScore hl, ?_, ?_⟩
  · intro x hx
    unfold Spec.V2.temporalScore at hx
    split at hx
    · cases hx; exact temporal_isScore hl
    · cases hx
  · intro x hx
    unfold Spec.V2.environmentalScore at hx
    split at hx
    · cases hx; exact environmental_isScore hl
    · cases hx

/-- non-vacuity: a concrete valid map and its scores (AV:L/AC:L/Au:M/C:N/I:P/A:C/E:U/RL:W/CDP:L/TD:H/AR:M → 5.0, 4.0, 4.6) -/
example :
    Spec.V2.scores (assignment V2.ND [(c!"AV", c!"L"), (c!"AC", c!"L"), (c!"Au", c!"M"), (c!"C", c!"N"), (c!"I", c!"P"),
      (c!"A", c!"C"), (c!"E", c!"U"), (c!"RL", c!"W"), (c!"CDP", c!"L"), (c!"TD", c!"H"), (c!"AR", c!"M")]) =
      [some 5, some 4, some (mkRat 46 10)] := by decide +kernel

end Cvss.Props.C03
