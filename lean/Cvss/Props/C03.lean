/-
  C03 — CVSS v2 scores equal the CVSS v2 guide equations.
-/
import Cvss.Model.V2
import Cvss.Spec.V2
namespace Cvss.Props.C03
open Cvss Cvss.Model

def weightsPinned : Bool :=
  Gen.V2.values.all (fun (m, row) => row.all (fun (t, wgt) => wgt == some (Spec.V2.w m t))) &&
  (keys Gen.V2.values).all (fun m => (lookup m Spec.V2.weights).isSome) &&
  Spec.V2.weights.all (fun (m, row) => (lookup m Gen.V2.values).map (fun r => r.length) == some row.length)

/-- pinning: every weight the library reads is the guide's weight, and the tables have the same keys -/
theorem weights_pinned : weightsPinned = true := by decide +kernel

end Cvss.Props.C03
