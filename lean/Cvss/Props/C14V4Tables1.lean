/-
  C14 (v4.0) finite checks, groups 1 (AV, PR, UI), 2 (AC, AT) and E: every abstract step raises the
  interpolated value in every context of the other classes (corner minimum over their distances).
-/
import Cvss.Lemmas.V4Mono
namespace Cvss.Props.C14
open Cvss Cvss.Lemmas.V4Mono

theorem chk_g1 : Chk1 := by unfold Chk1; decide +kernel
theorem chk_g2 : Chk2 := by unfold Chk2; decide +kernel
theorem chk_g5 : Chk5 := by unfold Chk5; decide +kernel

end Cvss.Props.C14
