/-
  END-TO-END statement about the TRANSLATED SOURCE of cvss3.py (`Cvss.Gen.Code3`, regenerated from the source
  text on every run): the source tie `CodeTie3.init_tail_eq` (model = translated source) composed with
  `C01.v3_build_eq_spec` (model = FIRST equations).  It says what the code's own text computes for every
  valid metric dict; only the parser, which produces that dict, is tied by correspondence alone.
-/
import Cvss.Props.CodeTie3
import Cvss.Props.C01
namespace Cvss.Props.CodeTie3
open Cvss Cvss.Gen Cvss.Model

/-- cvss3.py, `__init__` after `check_mandatory()`, as translated from the source text: for every valid
    metric dict and minor version it raises nothing and leaves exactly the FIRST specification's base,
    temporal and environmental scores (of that minor version) on the object, with the input dict kept
    as `original_metrics` -/
theorem source_v3_scores_eq_spec (self : Code3.Self) (vector : Str) (minor : Nat)
    (hm : self.minor_version = some (minor : Int)) (hv : C01.ValidMap self.metrics) :
    ∃ x, Code3.init_tail self vector = some x ∧
      x.original_metrics = some self.metrics ∧
      x.base_score = some (Spec.V3.baseScore (assignment V3.X self.metrics)) ∧
      x.temporal_score = some (Spec.V3.temporalScore (assignment V3.X self.metrics)) ∧
      x.environmental_score = some (Spec.V3.environmentalScore minor (assignment V3.X self.metrics)) := by
  obtain ⟨o, ho, _, _, horig, hb, ht, he, _⟩ := C01.v3_build_eq_spec vector minor self.metrics hv
  have h := CodeTie3.init_tail_eq self vector vector minor hm
  rw [ho] at h
  cases hx : Code3.init_tail self vector with
  | none => rw [hx] at h; simp at h
  | some x =>
    rw [hx] at h
    simp only [Option.map_some, Option.some.injEq, Prod.mk.injEq] at h
    obtain ⟨h1, _, h3, h4, h5⟩ := h
    exact ⟨x, rfl, by rw [h1, horig], by rw [h3, hb], by rw [h4, ht], by rw [h5, he]⟩

end Cvss.Props.CodeTie3
