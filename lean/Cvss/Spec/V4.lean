/-
  Specification of CVSS v4.0 scoring, written from the FIRST v4.0 specification document §8
  (MacroVector / interpolation algorithm): effective values, the six equivalence classes (Tables
  24–29), look-up table (own frozen copy), depths, highest-severity vectors, severity distances.
  Independent of the library's tables and control flow.  Exact rational arithmetic.
-/
import Cvss.Basic
import Cvss.Spec.V4Table
namespace Cvss.Spec.V4
open Cvss

/-- stated value token of each metric; "X" for Not Defined / absent -/
abbrev Assignment := Str → Str
def X : Str := c!"X"

/-- effective value: a defined Modified metric overrides its base metric; undefined CR/IR/AR count
    as High and undefined E as Attacked -/
def eff (a : Assignment) (m : Str) : Str :=
  if m = c!"E" then (if a m = X then c!"A" else a m)
  else if m = c!"CR" ∨ m = c!"IR" ∨ m = c!"AR" then (if a m = X then c!"H" else a m)
  else if a ('M' :: m) ≠ X then a ('M' :: m)
  else a m

/-- severity level of a value within its metric, 0 = most severe (steps of the specification) -/
def levelTable : List (Str × List (Str × Nat)) :=
  [ (c!"AV", [(c!"N", 0), (c!"A", 1), (c!"L", 2), (c!"P", 3)]),
    (c!"PR", [(c!"N", 0), (c!"L", 1), (c!"H", 2)]),
    (c!"UI", [(c!"N", 0), (c!"P", 1), (c!"A", 2)]),
    (c!"AC", [(c!"L", 0), (c!"H", 1)]),
    (c!"AT", [(c!"N", 0), (c!"P", 1)]),
    (c!"VC", [(c!"H", 0), (c!"L", 1), (c!"N", 2)]),
    (c!"VI", [(c!"H", 0), (c!"L", 1), (c!"N", 2)]),
    (c!"VA", [(c!"H", 0), (c!"L", 1), (c!"N", 2)]),
    (c!"SC", [(c!"H", 1), (c!"L", 2), (c!"N", 3)]),
    (c!"SI", [(c!"S", 0), (c!"H", 1), (c!"L", 2), (c!"N", 3)]),
    (c!"SA", [(c!"S", 0), (c!"H", 1), (c!"L", 2), (c!"N", 3)]),
    (c!"CR", [(c!"H", 0), (c!"M", 1), (c!"L", 2)]),
    (c!"IR", [(c!"H", 0), (c!"M", 1), (c!"L", 2)]),
    (c!"AR", [(c!"H", 0), (c!"M", 1), (c!"L", 2)]) ]

def level (m v : Str) : Nat :=
  match lookup m levelTable with
  | none => 0
  | some row => (lookup v row).getD 0

structure MacroVector where
  eq1 : Nat
  eq2 : Nat
  eq3 : Nat
  eq4 : Nat
  eq5 : Nat
  eq6 : Nat
  deriving DecidableEq, Repr

/-- Tables 24–29 -/
def macroVector (a : Assignment) : MacroVector :=
  let e := eff a
  let is (m v : Str) : Bool := e m = v
  { eq1 :=
      if is c!"AV" c!"N" && is c!"PR" c!"N" && is c!"UI" c!"N" then 0
      else if (is c!"AV" c!"N" || is c!"PR" c!"N" || is c!"UI" c!"N") && !is c!"AV" c!"P" then 1
      else 2
    eq2 := if is c!"AC" c!"L" && is c!"AT" c!"N" then 0 else 1
    eq3 :=
      if is c!"VC" c!"H" && is c!"VI" c!"H" then 0
      else if is c!"VC" c!"H" || is c!"VI" c!"H" || is c!"VA" c!"H" then 1
      else 2
    eq4 :=
      if is c!"SI" c!"S" || is c!"SA" c!"S" then 0
      else if is c!"SC" c!"H" || is c!"SI" c!"H" || is c!"SA" c!"H" then 1
      else 2
    eq5 := if is c!"E" c!"A" then 0 else if is c!"E" c!"P" then 1 else 2
    eq6 :=
      if (is c!"CR" c!"H" && is c!"VC" c!"H") || (is c!"IR" c!"H" && is c!"VI" c!"H")
          || (is c!"AR" c!"H" && is c!"VA" c!"H") then 0
      else 1 }

def score? (mv : MacroVector) : Option Rat :=
  (lookup (mv.eq1, mv.eq2, mv.eq3, mv.eq4, mv.eq5, mv.eq6) tableTenths).map (fun t => (t : Rat) / 10)

/-- depth of each equivalence class (MaxSeverity), in steps -/
def depth1 : Nat → Nat | 0 => 1 | 1 => 4 | _ => 5
def depth2 : Nat → Nat | 0 => 1 | _ => 2
def depth36 : Nat → Nat → Nat
  | 0, 0 => 7 | 0, _ => 6 | 1, 0 => 8 | 1, _ => 8 | _, _ => 10
def depth4 : Nat → Nat | 0 => 6 | 1 => 5 | _ => 4

/-- highest-severity vectors of each class (specification Tables / max_composed.js) -/
def max1 : Nat → List (List (Str × Str))
  | 0 => [[(c!"AV", c!"N"), (c!"PR", c!"N"), (c!"UI", c!"N")]]
  | 1 => [[(c!"AV", c!"A"), (c!"PR", c!"N"), (c!"UI", c!"N")],
          [(c!"AV", c!"N"), (c!"PR", c!"L"), (c!"UI", c!"N")],
          [(c!"AV", c!"N"), (c!"PR", c!"N"), (c!"UI", c!"P")]]
  | _ => [[(c!"AV", c!"P"), (c!"PR", c!"N"), (c!"UI", c!"N")],
          [(c!"AV", c!"A"), (c!"PR", c!"L"), (c!"UI", c!"P")]]
def max2 : Nat → List (List (Str × Str))
  | 0 => [[(c!"AC", c!"L"), (c!"AT", c!"N")]]
  | _ => [[(c!"AC", c!"H"), (c!"AT", c!"N")], [(c!"AC", c!"L"), (c!"AT", c!"P")]]
def v6 (vc vi va cr ir ar : Str) : List (Str × Str) :=
  [(c!"VC", vc), (c!"VI", vi), (c!"VA", va), (c!"CR", cr), (c!"IR", ir), (c!"AR", ar)]
def max36 : Nat → Nat → List (List (Str × Str))
  | 0, 0 => [v6 c!"H" c!"H" c!"H" c!"H" c!"H" c!"H"]
  | 0, _ => [v6 c!"H" c!"H" c!"L" c!"M" c!"M" c!"H", v6 c!"H" c!"H" c!"H" c!"M" c!"M" c!"M"]
  | 1, 0 => [v6 c!"L" c!"H" c!"H" c!"H" c!"H" c!"H", v6 c!"H" c!"L" c!"H" c!"H" c!"H" c!"H"]
  | 1, _ => [v6 c!"L" c!"H" c!"L" c!"H" c!"M" c!"H", v6 c!"L" c!"H" c!"H" c!"H" c!"M" c!"M",
             v6 c!"H" c!"L" c!"H" c!"M" c!"H" c!"M", v6 c!"H" c!"L" c!"L" c!"M" c!"H" c!"H",
             v6 c!"L" c!"L" c!"H" c!"H" c!"H" c!"M"]
  | _, _ => [v6 c!"L" c!"L" c!"L" c!"H" c!"H" c!"H"]
def max4 : Nat → List (List (Str × Str))
  | 0 => [[(c!"SC", c!"H"), (c!"SI", c!"S"), (c!"SA", c!"S")]]
  | 1 => [[(c!"SC", c!"H"), (c!"SI", c!"H"), (c!"SA", c!"H")]]
  | _ => [[(c!"SC", c!"L"), (c!"SI", c!"L"), (c!"SA", c!"L")]]

/-- a highest-severity vector dominates the effective assignment on its own metrics -/
def dominates (a : Assignment) (mx : List (Str × Str)) : Bool :=
  mx.all (fun (m, v) => level m v ≤ level m (eff a m))

/-- severity distance (in steps) of the assignment from a given highest-severity vector -/
def distFrom (a : Assignment) (mx : List (Str × Str)) : Nat :=
  (mx.map (fun (m, v) => level m (eff a m) - level m v)).sum

/-- severity distance from the first highest-severity vector of the class that dominates the
    assignment (0 if none does; `Props/C02` proves one always does and that the choice is irrelevant) -/
def distance (a : Assignment) (maxes : List (List (Str × Str))) : Nat :=
  match maxes.find? (dominates a) with
  | some mx => distFrom a mx
  | none => 0

/-- next-lower macrovector scores per equivalence class (EQ3 and EQ6 jointly) -/
def lower1 (mv : MacroVector) : Option Rat := score? { mv with eq1 := mv.eq1 + 1 }
def lower2 (mv : MacroVector) : Option Rat := score? { mv with eq2 := mv.eq2 + 1 }
def lower4 (mv : MacroVector) : Option Rat := score? { mv with eq4 := mv.eq4 + 1 }
def lower5 (mv : MacroVector) : Option Rat := score? { mv with eq5 := mv.eq5 + 1 }
def lower36 (mv : MacroVector) : Option Rat :=
  match mv.eq3, mv.eq6 with
  | 0, 0 =>
    match score? { mv with eq6 := 1 }, score? { mv with eq3 := 1 } with
    | some l, some rr => some (max l rr)
    | some l, none => some l
    | none, some rr => some rr
    | none, none => none
  | 0, 1 => score? { mv with eq3 := 1 }
  | 1, 0 => score? { mv with eq6 := 1 }
  | 1, 1 => score? { mv with eq3 := 2 }
  | _, _ => none

/-- one class's term of the mean: (is there a next-lower macrovector, gap × distance / depth) -/
def term (value : Rat) (lower : Option Rat) (dist depth : Nat) : Nat × Rat :=
  match lower with
  | none => (0, 0)
  | some l => (1, (value - l) * ((dist : Rat) / (depth : Rat)))

def noImpact (a : Assignment) : Bool :=
  [c!"VC", c!"VI", c!"VA", c!"SC", c!"SI", c!"SA"].all (fun m => eff a m = c!"N")

/-- round half up to one decimal (non-negative input) -/
def roundHalfUp (x : Rat) : Rat := ((x * 10 + 1 / 2).floor : Rat) / 10

/-- the exact interpolated value before clamping and rounding -/
def rawScore (a : Assignment) : Option Rat :=
  let mv := macroVector a
  match score? mv with
  | none => none
  | some value =>
    let t1 := term value (lower1 mv) (distance a (max1 mv.eq1)) (depth1 mv.eq1)
    let t2 := term value (lower2 mv) (distance a (max2 mv.eq2)) (depth2 mv.eq2)
    let t36 := term value (lower36 mv) (distance a (max36 mv.eq3 mv.eq6)) (depth36 mv.eq3 mv.eq6)
    let t4 := term value (lower4 mv) (distance a (max4 mv.eq4)) (depth4 mv.eq4)
    let t5 := term value (lower5 mv) 0 1
    let n := t1.1 + t2.1 + t36.1 + t4.1 + t5.1
    let mean : Rat := if n = 0 then 0 else (t1.2 + t2.2 + t36.2 + t4.2 + t5.2) / n
    some (value - mean)

/-- the v4.0 score; `none` only if the macrovector is missing from the table -/
def score (a : Assignment) : Option Rat :=
  if noImpact a then some 0
  else (rawScore a).map (fun v => roundHalfUp (max 0 (min 10 v)))

end Cvss.Spec.V4
