/-
  Specification of CVSS v2 scoring, written from "A Complete Guide to the Common Vulnerability
  Scoring System Version 2.0" §3.2: own weight tables, equations over an assignment.
-/
import Cvss.Basic
namespace Cvss.Spec.V2
open Cvss

def r (n : Int) (d : Nat) : Rat := mkRat n d
abbrev Assignment := Str → Str
def ND : Str := c!"ND"

/-- round_to_1_decimal: round half up (ties away from zero, as decimal ROUND_HALF_UP) -/
def round1 (x : Rat) : Rat :=
  if 0 ≤ x then ((x * 10 + 1 / 2).floor : Rat) / 10 else -(((-x) * 10 + 1 / 2).floor : Rat) / 10

def weights : List (Str × List (Str × Rat)) :=
  [ (c!"AV", [(c!"L", r 395 1000), (c!"A", r 646 1000), (c!"N", 1)]),
    (c!"AC", [(c!"H", r 35 100), (c!"M", r 61 100), (c!"L", r 71 100)]),
    (c!"Au", [(c!"M", r 45 100), (c!"S", r 56 100), (c!"N", r 704 1000)]),
    (c!"C", [(c!"N", 0), (c!"P", r 275 1000), (c!"C", r 660 1000)]),
    (c!"I", [(c!"N", 0), (c!"P", r 275 1000), (c!"C", r 660 1000)]),
    (c!"A", [(c!"N", 0), (c!"P", r 275 1000), (c!"C", r 660 1000)]),
    (c!"E", [(c!"U", r 85 100), (c!"POC", r 9 10), (c!"F", r 95 100), (c!"H", 1), (c!"ND", 1)]),
    (c!"RL", [(c!"OF", r 87 100), (c!"TF", r 9 10), (c!"W", r 95 100), (c!"U", 1), (c!"ND", 1)]),
    (c!"RC", [(c!"UC", r 9 10), (c!"UR", r 95 100), (c!"C", 1), (c!"ND", 1)]),
    (c!"CDP", [(c!"N", 0), (c!"L", r 1 10), (c!"LM", r 3 10), (c!"MH", r 4 10), (c!"H", r 5 10), (c!"ND", 0)]),
    (c!"TD", [(c!"N", 0), (c!"L", r 25 100), (c!"M", r 75 100), (c!"H", 1), (c!"ND", 1)]),
    (c!"CR", [(c!"L", r 5 10), (c!"M", 1), (c!"H", r 151 100), (c!"ND", 1)]),
    (c!"IR", [(c!"L", r 5 10), (c!"M", 1), (c!"H", r 151 100), (c!"ND", 1)]),
    (c!"AR", [(c!"L", r 5 10), (c!"M", 1), (c!"H", r 151 100), (c!"ND", 1)]) ]

def w (metric value : Str) : Rat :=
  match lookup metric weights with
  | none => 0
  | some row => (lookup value row).getD 0

def wa (a : Assignment) (m : Str) : Rat := w m (a m)

def impact (a : Assignment) : Rat :=
  r 1041 100 * (1 - (1 - wa a c!"C") * (1 - wa a c!"I") * (1 - wa a c!"A"))

def adjustedImpact (a : Assignment) : Rat :=
  min 10 (r 1041 100 * (1 - (1 - wa a c!"C" * wa a c!"CR") * (1 - wa a c!"I" * wa a c!"IR")
                          * (1 - wa a c!"A" * wa a c!"AR")))

def exploitability (a : Assignment) : Rat := 20 * wa a c!"AV" * wa a c!"AC" * wa a c!"Au"

def f (imp : Rat) : Rat := if imp = 0 then 0 else r 1176 1000

/-- the base equation for a given impact sub-score (before "never negative") -/
def baseEq (a : Assignment) (imp : Rat) : Rat :=
  round1 (((r 6 10 * imp) + (r 4 10 * exploitability a) - r 15 10) * f imp)

def baseScore (a : Assignment) : Rat := max 0 (baseEq a (impact a))

def temporalFactor (a : Assignment) : Rat := wa a c!"E" * wa a c!"RL" * wa a c!"RC"

def temporalDefined (a : Assignment) : Bool := !(a c!"E" = ND ∧ a c!"RL" = ND ∧ a c!"RC" = ND)
def environmentalDefined (a : Assignment) : Bool :=
  !(a c!"CDP" = ND ∧ a c!"TD" = ND ∧ a c!"CR" = ND ∧ a c!"IR" = ND ∧ a c!"AR" = ND)

def temporalScore (a : Assignment) : Option Rat :=
  if temporalDefined a then some (max 0 (round1 (baseScore a * temporalFactor a))) else none

def environmentalScore (a : Assignment) : Option Rat :=
  if environmentalDefined a then
    let adjustedTemporal := round1 (baseEq a (adjustedImpact a) * temporalFactor a)
    some (max 0 (round1 ((adjustedTemporal + (10 - adjustedTemporal) * wa a c!"CDP") * wa a c!"TD")))
  else none

def scores (a : Assignment) : List (Option Rat) :=
  [some (baseScore a), temporalScore a, environmentalScore a]

end Cvss.Spec.V2
