/-
  Specification of CVSS v3.0 / v3.1 scoring, written from the FIRST specification documents
  (v3.0 §8, v3.1 §7): own weight tables, equations over an *assignment* of value tokens to metrics.
  Independent of the library's tables and control flow.  Exact rational arithmetic.
-/
import Cvss.Basic
namespace Cvss.Spec.V3
open Cvss

def r (n : Int) (d : Nat) : Rat := mkRat n d

/-- an assignment gives every metric its stated value token; "X" for Not Defined / absent -/
abbrev Assignment := Str → Str

def X : Str := c!"X"

/-- Roundup of the specification: smallest number with one decimal ≥ the input -/
def roundup (x : Rat) : Rat := ((x * 10).ceil : Rat) / 10

/-- specification weights (Table 14/15 of v3.0, §7.4 of v3.1) except Privileges Required -/
def weights : List (Str × List (Str × Rat)) :=
  [ (c!"AV", [(c!"N", r 85 100), (c!"A", r 62 100), (c!"L", r 55 100), (c!"P", r 2 10)]),
    (c!"AC", [(c!"L", r 77 100), (c!"H", r 44 100)]),
    (c!"UI", [(c!"N", r 85 100), (c!"R", r 62 100)]),
    (c!"C", [(c!"H", r 56 100), (c!"L", r 22 100), (c!"N", 0)]),
    (c!"I", [(c!"H", r 56 100), (c!"L", r 22 100), (c!"N", 0)]),
    (c!"A", [(c!"H", r 56 100), (c!"L", r 22 100), (c!"N", 0)]),
    (c!"E", [(c!"X", 1), (c!"H", 1), (c!"F", r 97 100), (c!"P", r 94 100), (c!"U", r 91 100)]),
    (c!"RL", [(c!"X", 1), (c!"U", 1), (c!"W", r 97 100), (c!"T", r 96 100), (c!"O", r 95 100)]),
    (c!"RC", [(c!"X", 1), (c!"C", 1), (c!"R", r 96 100), (c!"U", r 92 100)]),
    (c!"CR", [(c!"X", 1), (c!"H", r 15 10), (c!"M", 1), (c!"L", r 5 10)]),
    (c!"IR", [(c!"X", 1), (c!"H", r 15 10), (c!"M", 1), (c!"L", r 5 10)]),
    (c!"AR", [(c!"X", 1), (c!"H", r 15 10), (c!"M", 1), (c!"L", r 5 10)]) ]

/-- Privileges Required: weight depends on whether (Modified) Scope is Changed -/
def prWeight (changed : Bool) (v : Str) : Rat :=
  if v = c!"N" then r 85 100
  else if v = c!"L" then (if changed then r 68 100 else r 62 100)
  else if v = c!"H" then (if changed then r 5 10 else r 27 100)
  else 0

def w (metric value : Str) : Rat :=
  match lookup metric weights with
  | none => 0
  | some row => (lookup value row).getD 0

/-- effective value of a Modified metric: its own value, or the base metric's when Not Defined -/
def eff (a : Assignment) (modified base : Str) : Str :=
  if a modified = X then a base else a modified

def impact (changed : Bool) (iss : Rat) : Rat :=
  if changed then r 752 100 * (iss - r 29 1000) - r 325 100 * (iss - r 2 100) ^ 15
  else r 642 100 * iss

def baseScore (a : Assignment) : Rat :=
  let iss := 1 - (1 - w c!"C" (a c!"C")) * (1 - w c!"I" (a c!"I")) * (1 - w c!"A" (a c!"A"))
  let changed := a c!"S" = c!"C"
  let imp := impact changed iss
  let expl := r 822 100 * w c!"AV" (a c!"AV") * w c!"AC" (a c!"AC") * prWeight changed (a c!"PR")
                * w c!"UI" (a c!"UI")
  if imp ≤ 0 then 0
  else if changed then roundup (min (r 108 100 * (imp + expl)) 10)
  else roundup (min (imp + expl) 10)

def temporalFactor (a : Assignment) : Rat :=
  w c!"E" (a c!"E") * w c!"RL" (a c!"RL") * w c!"RC" (a c!"RC")

def temporalScore (a : Assignment) : Rat := roundup (baseScore a * temporalFactor a)

/-- Modified Impact: the formula of the vector's own minor version -/
def modifiedImpact (minor : Nat) (changed : Bool) (miss : Rat) : Rat :=
  if !changed then r 642 100 * miss
  else if minor = 0 then r 752 100 * (miss - r 29 1000) - r 325 100 * (miss - r 2 100) ^ 15
  else r 752 100 * (miss - r 29 1000) - r 325 100 * (miss * r 9731 10000 - r 2 100) ^ 13

def environmentalScore (minor : Nat) (a : Assignment) : Rat :=
  let mc := eff a c!"MC" c!"C"; let mi := eff a c!"MI" c!"I"; let ma := eff a c!"MA" c!"A"
  let miss := min (1 - (1 - w c!"C" mc * w c!"CR" (a c!"CR")) * (1 - w c!"I" mi * w c!"IR" (a c!"IR"))
                      * (1 - w c!"A" ma * w c!"AR" (a c!"AR"))) (r 915 1000)
  let changed := eff a c!"MS" c!"S" = c!"C"
  let mimp := modifiedImpact minor changed miss
  let mexpl := r 822 100 * w c!"AV" (eff a c!"MAV" c!"AV") * w c!"AC" (eff a c!"MAC" c!"AC")
                 * prWeight changed (eff a c!"MPR" c!"PR") * w c!"UI" (eff a c!"MUI" c!"UI")
  if mimp ≤ 0 then 0
  else if changed then roundup (roundup (min (r 108 100 * (mimp + mexpl)) 10) * temporalFactor a)
  else roundup (roundup (min (mimp + mexpl) 10) * temporalFactor a)

def scores (minor : Nat) (a : Assignment) : List (Option Rat) :=
  [some (baseScore a), some (temporalScore a), some (environmentalScore minor a)]

end Cvss.Spec.V3
