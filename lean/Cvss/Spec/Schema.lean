/-
  JSON-Schema semantics for the shape the four FIRST CVSS schemas have: a flat object whose
  properties are string enumerations, bounded numbers (optionally multiples of a step) or a string
  pattern; required keys; and (v4.0) `allOf [anyOf [{score range, severity const}…]]` pairs.
  Unknown keys are allowed (none of the schemas sets additionalProperties).
-/
import Cvss.Model.Json
import Cvss.Spec.RegexPatterns
namespace Cvss.Spec.Schema
open Cvss Cvss.Model

inductive Constraint
  | enumStr (vs : List Str)                          -- {"type":"string","enum":[…]} / {"enum":[…]}
  | number (min max : Rat)                           -- {"type":"number","minimum":…,"maximum":…}
  | pattern (re : Regex.Re)                          -- {"type":"string","pattern":"^…$"}
  deriving Repr

/-- one alternative of a v4 `anyOf`: if the keys are present, the score lies in [min,max] and is a
    multiple of `step` (0 = no multipleOf), and the severity is exactly `sev` -/
structure Band where
  min : Rat
  max : Rat
  step : Rat
  sev : Str
  deriving Repr

structure Schema where
  required : List Str
  props : List (Str × Constraint)
  /-- (score key, severity key, alternatives) -/
  bands : List (Str × Str × List Band)
  deriving Repr

def okConstraint : Constraint → JVal → Bool
  | .enumStr vs, .str s => vs.contains s
  | .enumStr _, .num _ => false
  | .number lo hi, .num x => decide (lo ≤ x) && decide (x ≤ hi)
  | .number _ _, .str _ => false
  | .pattern re, .str s => Regex.fullMatch re s
  | .pattern _, .num _ => false

def okBand (score : Option JVal) (sev : Option JVal) (b : Band) : Bool :=
  (match score with
    | none => true
    | some (.num x) => decide (b.min ≤ x) && decide (x ≤ b.max) && (b.step == 0 || (x / b.step).den == 1)
    | some (.str _) => false) &&
  (match sev with
    | none => true
    | some v => v == .str b.sev)

/-- locations at which `obj` fails the schema (empty ⇔ valid) -/
def failures (s : Schema) (obj : JObj) : List Str :=
  (s.required.filter (fun k => !hasKey k obj)).map (fun k => k ++ c!":required") ++
  (s.props.filterMap (fun (k, c) => match lookup k obj with
    | none => none
    | some v => if okConstraint c v then none else some k)) ++
  (s.bands.filterMap (fun (sk, vk, alts) =>
    if alts.any (okBand (lookup sk obj) (lookup vk obj)) then none else some (sk ++ c!"/" ++ vk ++ c!":anyOf")))

def valid (s : Schema) (obj : JObj) : Bool := (failures s obj).isEmpty

end Cvss.Spec.Schema
