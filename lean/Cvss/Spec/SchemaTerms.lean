/-
  FROZEN transcription of the pinned FIRST JSON schemas (tools/schemas) into `Schema` terms,
  produced once by tools/freeze_spec_schema.py.
-/
import Cvss.Spec.Schema
namespace Cvss.Spec.Schema
open Cvss
set_option maxRecDepth 100000

def schema20 : Schema where
  required := [c!"version", c!"vectorString", c!"baseScore"]
  props := [
    (c!"version", .enumStr [c!"2.0"]),
    (c!"vectorString", .pattern Regex.pattern20),
    (c!"accessVector", .enumStr [c!"NETWORK", c!"ADJACENT_NETWORK", c!"LOCAL"]),
    (c!"accessComplexity", .enumStr [c!"HIGH", c!"MEDIUM", c!"LOW"]),
    (c!"authentication", .enumStr [c!"MULTIPLE", c!"SINGLE", c!"NONE"]),
    (c!"confidentialityImpact", .enumStr [c!"NONE", c!"PARTIAL", c!"COMPLETE"]),
    (c!"integrityImpact", .enumStr [c!"NONE", c!"PARTIAL", c!"COMPLETE"]),
    (c!"availabilityImpact", .enumStr [c!"NONE", c!"PARTIAL", c!"COMPLETE"]),
    (c!"baseScore", .number (mkRat (0) 1) (mkRat (10) 1)),
    (c!"exploitability", .enumStr [c!"UNPROVEN", c!"PROOF_OF_CONCEPT", c!"FUNCTIONAL", c!"HIGH", c!"NOT_DEFINED"]),
    (c!"remediationLevel", .enumStr [c!"OFFICIAL_FIX", c!"TEMPORARY_FIX", c!"WORKAROUND", c!"UNAVAILABLE", c!"NOT_DEFINED"]),
    (c!"reportConfidence", .enumStr [c!"UNCONFIRMED", c!"UNCORROBORATED", c!"CONFIRMED", c!"NOT_DEFINED"]),
    (c!"temporalScore", .number (mkRat (0) 1) (mkRat (10) 1)),
    (c!"collateralDamagePotential", .enumStr [c!"NONE", c!"LOW", c!"LOW_MEDIUM", c!"MEDIUM_HIGH", c!"HIGH", c!"NOT_DEFINED"]),
    (c!"targetDistribution", .enumStr [c!"NONE", c!"LOW", c!"MEDIUM", c!"HIGH", c!"NOT_DEFINED"]),
    (c!"confidentialityRequirement", .enumStr [c!"LOW", c!"MEDIUM", c!"HIGH", c!"NOT_DEFINED"]),
    (c!"integrityRequirement", .enumStr [c!"LOW", c!"MEDIUM", c!"HIGH", c!"NOT_DEFINED"]),
    (c!"availabilityRequirement", .enumStr [c!"LOW", c!"MEDIUM", c!"HIGH", c!"NOT_DEFINED"]),
    (c!"environmentalScore", .number (mkRat (0) 1) (mkRat (10) 1))
  ]
  bands := [
    
  ]

def schema30 : Schema where
  required := [c!"version", c!"vectorString", c!"baseScore", c!"baseSeverity"]
  props := [
    (c!"version", .enumStr [c!"3.0"]),
    (c!"vectorString", .pattern Regex.pattern30),
    (c!"attackVector", .enumStr [c!"NETWORK", c!"ADJACENT_NETWORK", c!"LOCAL", c!"PHYSICAL"]),
    (c!"attackComplexity", .enumStr [c!"HIGH", c!"LOW"]),
    (c!"privilegesRequired", .enumStr [c!"HIGH", c!"LOW", c!"NONE"]),
    (c!"userInteraction", .enumStr [c!"NONE", c!"REQUIRED"]),
    (c!"scope", .enumStr [c!"UNCHANGED", c!"CHANGED"]),
    (c!"confidentialityImpact", .enumStr [c!"NONE", c!"LOW", c!"HIGH"]),
    (c!"integrityImpact", .enumStr [c!"NONE", c!"LOW", c!"HIGH"]),
    (c!"availabilityImpact", .enumStr [c!"NONE", c!"LOW", c!"HIGH"]),
    (c!"baseScore", .number (mkRat (0) 1) (mkRat (10) 1)),
    (c!"baseSeverity", .enumStr [c!"NONE", c!"LOW", c!"MEDIUM", c!"HIGH", c!"CRITICAL"]),
    (c!"exploitCodeMaturity", .enumStr [c!"UNPROVEN", c!"PROOF_OF_CONCEPT", c!"FUNCTIONAL", c!"HIGH", c!"NOT_DEFINED"]),
    (c!"remediationLevel", .enumStr [c!"OFFICIAL_FIX", c!"TEMPORARY_FIX", c!"WORKAROUND", c!"UNAVAILABLE", c!"NOT_DEFINED"]),
    (c!"reportConfidence", .enumStr [c!"UNKNOWN", c!"REASONABLE", c!"CONFIRMED", c!"NOT_DEFINED"]),
    (c!"temporalScore", .number (mkRat (0) 1) (mkRat (10) 1)),
    (c!"temporalSeverity", .enumStr [c!"NONE", c!"LOW", c!"MEDIUM", c!"HIGH", c!"CRITICAL"]),
    (c!"confidentialityRequirement", .enumStr [c!"LOW", c!"MEDIUM", c!"HIGH", c!"NOT_DEFINED"]),
    (c!"integrityRequirement", .enumStr [c!"LOW", c!"MEDIUM", c!"HIGH", c!"NOT_DEFINED"]),
    (c!"availabilityRequirement", .enumStr [c!"LOW", c!"MEDIUM", c!"HIGH", c!"NOT_DEFINED"]),
    (c!"modifiedAttackVector", .enumStr [c!"NETWORK", c!"ADJACENT_NETWORK", c!"LOCAL", c!"PHYSICAL", c!"NOT_DEFINED"]),
    (c!"modifiedAttackComplexity", .enumStr [c!"HIGH", c!"LOW", c!"NOT_DEFINED"]),
    (c!"modifiedPrivilegesRequired", .enumStr [c!"HIGH", c!"LOW", c!"NONE", c!"NOT_DEFINED"]),
    (c!"modifiedUserInteraction", .enumStr [c!"NONE", c!"REQUIRED", c!"NOT_DEFINED"]),
    (c!"modifiedScope", .enumStr [c!"UNCHANGED", c!"CHANGED", c!"NOT_DEFINED"]),
    (c!"modifiedConfidentialityImpact", .enumStr [c!"NONE", c!"LOW", c!"HIGH", c!"NOT_DEFINED"]),
    (c!"modifiedIntegrityImpact", .enumStr [c!"NONE", c!"LOW", c!"HIGH", c!"NOT_DEFINED"]),
    (c!"modifiedAvailabilityImpact", .enumStr [c!"NONE", c!"LOW", c!"HIGH", c!"NOT_DEFINED"]),
    (c!"environmentalScore", .number (mkRat (0) 1) (mkRat (10) 1)),
    (c!"environmentalSeverity", .enumStr [c!"NONE", c!"LOW", c!"MEDIUM", c!"HIGH", c!"CRITICAL"])
  ]
  bands := [
    
  ]

def schema31 : Schema where
  required := [c!"version", c!"vectorString", c!"baseScore", c!"baseSeverity"]
  props := [
    (c!"version", .enumStr [c!"3.1"]),
    (c!"vectorString", .pattern Regex.pattern31),
    (c!"attackVector", .enumStr [c!"NETWORK", c!"ADJACENT_NETWORK", c!"LOCAL", c!"PHYSICAL"]),
    (c!"attackComplexity", .enumStr [c!"HIGH", c!"LOW"]),
    (c!"privilegesRequired", .enumStr [c!"HIGH", c!"LOW", c!"NONE"]),
    (c!"userInteraction", .enumStr [c!"NONE", c!"REQUIRED"]),
    (c!"scope", .enumStr [c!"UNCHANGED", c!"CHANGED"]),
    (c!"confidentialityImpact", .enumStr [c!"NONE", c!"LOW", c!"HIGH"]),
    (c!"integrityImpact", .enumStr [c!"NONE", c!"LOW", c!"HIGH"]),
    (c!"availabilityImpact", .enumStr [c!"NONE", c!"LOW", c!"HIGH"]),
    (c!"baseScore", .number (mkRat (0) 1) (mkRat (10) 1)),
    (c!"baseSeverity", .enumStr [c!"NONE", c!"LOW", c!"MEDIUM", c!"HIGH", c!"CRITICAL"]),
    (c!"exploitCodeMaturity", .enumStr [c!"UNPROVEN", c!"PROOF_OF_CONCEPT", c!"FUNCTIONAL", c!"HIGH", c!"NOT_DEFINED"]),
    (c!"remediationLevel", .enumStr [c!"OFFICIAL_FIX", c!"TEMPORARY_FIX", c!"WORKAROUND", c!"UNAVAILABLE", c!"NOT_DEFINED"]),
    (c!"reportConfidence", .enumStr [c!"UNKNOWN", c!"REASONABLE", c!"CONFIRMED", c!"NOT_DEFINED"]),
    (c!"temporalScore", .number (mkRat (0) 1) (mkRat (10) 1)),
    (c!"temporalSeverity", .enumStr [c!"NONE", c!"LOW", c!"MEDIUM", c!"HIGH", c!"CRITICAL"]),
    (c!"confidentialityRequirement", .enumStr [c!"LOW", c!"MEDIUM", c!"HIGH", c!"NOT_DEFINED"]),
    (c!"integrityRequirement", .enumStr [c!"LOW", c!"MEDIUM", c!"HIGH", c!"NOT_DEFINED"]),
    (c!"availabilityRequirement", .enumStr [c!"LOW", c!"MEDIUM", c!"HIGH", c!"NOT_DEFINED"]),
    (c!"modifiedAttackVector", .enumStr [c!"NETWORK", c!"ADJACENT_NETWORK", c!"LOCAL", c!"PHYSICAL", c!"NOT_DEFINED"]),
    (c!"modifiedAttackComplexity", .enumStr [c!"HIGH", c!"LOW", c!"NOT_DEFINED"]),
    (c!"modifiedPrivilegesRequired", .enumStr [c!"HIGH", c!"LOW", c!"NONE", c!"NOT_DEFINED"]),
    (c!"modifiedUserInteraction", .enumStr [c!"NONE", c!"REQUIRED", c!"NOT_DEFINED"]),
    (c!"modifiedScope", .enumStr [c!"UNCHANGED", c!"CHANGED", c!"NOT_DEFINED"]),
    (c!"modifiedConfidentialityImpact", .enumStr [c!"NONE", c!"LOW", c!"HIGH", c!"NOT_DEFINED"]),
    (c!"modifiedIntegrityImpact", .enumStr [c!"NONE", c!"LOW", c!"HIGH", c!"NOT_DEFINED"]),
    (c!"modifiedAvailabilityImpact", .enumStr [c!"NONE", c!"LOW", c!"HIGH", c!"NOT_DEFINED"]),
    (c!"environmentalScore", .number (mkRat (0) 1) (mkRat (10) 1)),
    (c!"environmentalSeverity", .enumStr [c!"NONE", c!"LOW", c!"MEDIUM", c!"HIGH", c!"CRITICAL"])
  ]
  bands := [
    
  ]

def schema40 : Schema where
  required := [c!"version", c!"vectorString", c!"baseScore", c!"baseSeverity"]
  props := [
    (c!"version", .enumStr [c!"4.0"]),
    (c!"vectorString", .pattern Regex.pattern40),
    (c!"attackVector", .enumStr [c!"NETWORK", c!"ADJACENT", c!"LOCAL", c!"PHYSICAL"]),
    (c!"attackComplexity", .enumStr [c!"HIGH", c!"LOW"]),
    (c!"attackRequirements", .enumStr [c!"NONE", c!"PRESENT"]),
    (c!"privilegesRequired", .enumStr [c!"HIGH", c!"LOW", c!"NONE"]),
    (c!"userInteraction", .enumStr [c!"NONE", c!"PASSIVE", c!"ACTIVE"]),
    (c!"vulnConfidentialityImpact", .enumStr [c!"NONE", c!"LOW", c!"HIGH"]),
    (c!"vulnIntegrityImpact", .enumStr [c!"NONE", c!"LOW", c!"HIGH"]),
    (c!"vulnAvailabilityImpact", .enumStr [c!"NONE", c!"LOW", c!"HIGH"]),
    (c!"subConfidentialityImpact", .enumStr [c!"NONE", c!"LOW", c!"HIGH"]),
    (c!"subIntegrityImpact", .enumStr [c!"NONE", c!"LOW", c!"HIGH"]),
    (c!"subAvailabilityImpact", .enumStr [c!"NONE", c!"LOW", c!"HIGH"]),
    (c!"exploitMaturity", .enumStr [c!"UNREPORTED", c!"PROOF_OF_CONCEPT", c!"ATTACKED", c!"NOT_DEFINED"]),
    (c!"confidentialityRequirement", .enumStr [c!"LOW", c!"MEDIUM", c!"HIGH", c!"NOT_DEFINED"]),
    (c!"integrityRequirement", .enumStr [c!"LOW", c!"MEDIUM", c!"HIGH", c!"NOT_DEFINED"]),
    (c!"availabilityRequirement", .enumStr [c!"LOW", c!"MEDIUM", c!"HIGH", c!"NOT_DEFINED"]),
    (c!"modifiedAttackVector", .enumStr [c!"NETWORK", c!"ADJACENT", c!"LOCAL", c!"PHYSICAL", c!"NOT_DEFINED"]),
    (c!"modifiedAttackComplexity", .enumStr [c!"HIGH", c!"LOW", c!"NOT_DEFINED"]),
    (c!"modifiedAttackRequirements", .enumStr [c!"NONE", c!"PRESENT", c!"NOT_DEFINED"]),
    (c!"modifiedPrivilegesRequired", .enumStr [c!"HIGH", c!"LOW", c!"NONE", c!"NOT_DEFINED"]),
    (c!"modifiedUserInteraction", .enumStr [c!"NONE", c!"PASSIVE", c!"ACTIVE", c!"NOT_DEFINED"]),
    (c!"modifiedVulnConfidentialityImpact", .enumStr [c!"NONE", c!"LOW", c!"HIGH", c!"NOT_DEFINED"]),
    (c!"modifiedVulnIntegrityImpact", .enumStr [c!"NONE", c!"LOW", c!"HIGH", c!"NOT_DEFINED"]),
    (c!"modifiedVulnAvailabilityImpact", .enumStr [c!"NONE", c!"LOW", c!"HIGH", c!"NOT_DEFINED"]),
    (c!"modifiedSubConfidentialityImpact", .enumStr [c!"NONE", c!"LOW", c!"HIGH", c!"NOT_DEFINED"]),
    (c!"modifiedSubIntegrityImpact", .enumStr [c!"NONE", c!"LOW", c!"HIGH", c!"SAFETY", c!"NOT_DEFINED"]),
    (c!"modifiedSubAvailabilityImpact", .enumStr [c!"NONE", c!"LOW", c!"HIGH", c!"SAFETY", c!"NOT_DEFINED"]),
    (c!"Safety", .enumStr [c!"NEGLIGIBLE", c!"PRESENT", c!"NOT_DEFINED"]),
    (c!"Automatable", .enumStr [c!"NO", c!"YES", c!"NOT_DEFINED"]),
    (c!"Recovery", .enumStr [c!"AUTOMATIC", c!"USER", c!"IRRECOVERABLE", c!"NOT_DEFINED"]),
    (c!"valueDensity", .enumStr [c!"DIFFUSE", c!"CONCENTRATED", c!"NOT_DEFINED"]),
    (c!"vulnerabilityResponseEffort", .enumStr [c!"LOW", c!"MODERATE", c!"HIGH", c!"NOT_DEFINED"]),
    (c!"providerUrgency", .enumStr [c!"CLEAR", c!"GREEN", c!"AMBER", c!"RED", c!"NOT_DEFINED"])
  ]
  bands := [
    (c!"baseScore", c!"baseSeverity", [{ min := (mkRat (0) 1), max := (mkRat (0) 1), step := (mkRat (0) 1), sev := c!"NONE" },
      { min := (mkRat (1) 10), max := (mkRat (39) 10), step := (mkRat (1) 10), sev := c!"LOW" },
      { min := (mkRat (4) 1), max := (mkRat (69) 10), step := (mkRat (1) 10), sev := c!"MEDIUM" },
      { min := (mkRat (7) 1), max := (mkRat (89) 10), step := (mkRat (1) 10), sev := c!"HIGH" },
      { min := (mkRat (9) 1), max := (mkRat (10) 1), step := (mkRat (1) 10), sev := c!"CRITICAL" }]),
    (c!"threatScore", c!"threatSeverity", [{ min := (mkRat (0) 1), max := (mkRat (0) 1), step := (mkRat (0) 1), sev := c!"NONE" },
      { min := (mkRat (1) 10), max := (mkRat (39) 10), step := (mkRat (1) 10), sev := c!"LOW" },
      { min := (mkRat (4) 1), max := (mkRat (69) 10), step := (mkRat (1) 10), sev := c!"MEDIUM" },
      { min := (mkRat (7) 1), max := (mkRat (89) 10), step := (mkRat (1) 10), sev := c!"HIGH" },
      { min := (mkRat (9) 1), max := (mkRat (10) 1), step := (mkRat (1) 10), sev := c!"CRITICAL" }]),
    (c!"environmentalScore", c!"environmentalSeverity", [{ min := (mkRat (0) 1), max := (mkRat (0) 1), step := (mkRat (0) 1), sev := c!"NONE" },
      { min := (mkRat (1) 10), max := (mkRat (39) 10), step := (mkRat (1) 10), sev := c!"LOW" },
      { min := (mkRat (4) 1), max := (mkRat (69) 10), step := (mkRat (1) 10), sev := c!"MEDIUM" },
      { min := (mkRat (7) 1), max := (mkRat (89) 10), step := (mkRat (1) 10), sev := c!"HIGH" },
      { min := (mkRat (9) 1), max := (mkRat (10) 1), step := (mkRat (1) 10), sev := c!"CRITICAL" }])
  ]

end Cvss.Spec.Schema
