/-
  Official qualitative severity rating scales (C09): v3/v4 per the FIRST specifications
  (None 0.0, Low 0.1–3.9, Medium 4.0–6.9, High 7.0–8.9, Critical 9.0–10.0); v2 per NVD
  (Low 0.0–3.9, Medium 4.0–6.9, High 7.0–10.0, "None" for an undefined score).
  Scores are in tenths.
-/
import Cvss.Basic
namespace Cvss.Spec.Severity
open Cvss

def rating34 (tenths : Nat) : Str :=
  if tenths = 0 then c!"None"
  else if tenths ≤ 39 then c!"Low"
  else if tenths ≤ 69 then c!"Medium"
  else if tenths ≤ 89 then c!"High"
  else c!"Critical"

def rating2 : Option Nat → Str
  | none => c!"None"
  | some t => if t ≤ 39 then c!"Low" else if t ≤ 69 then c!"Medium" else c!"High"

end Cvss.Spec.Severity
