/-
  Specification of the vector-string grammar of each version (C04): declarative `Accepts`,
  and an executable classifier written differently from the library's parser (membership of whole
  fields in the enumerated set of legal "metric:value" strings).
-/
import Cvss.Basic
import Cvss.Spec.GrammarTables
namespace Cvss.Spec.Grammar
open Cvss

structure G where
  /-- accepted prefixes (each ending in '/'); `[[]]` for a version without prefix -/
  prefixes : List Str
  vocab : List (Str × List Str)
  mandatory : List Str

def g2 : G := { prefixes := [[]], vocab := v2, mandatory := v2Mandatory }
def g3 : G := { prefixes := [c!"CVSS:3.0/", c!"CVSS:3.1/"], vocab := v3, mandatory := v3Mandatory }
def g4 : G := { prefixes := [c!"CVSS:4.0/"], vocab := v4, mandatory := v4Mandatory }

/-- a field of the grammar: `metric:value` with a legal value of a metric of the version -/
def IsField (g : G) (f : Str) (m : Str) : Prop :=
  ∃ vs v, lookup m g.vocab = some vs ∧ v ∈ vs ∧ f = m ++ ':' :: v

/-- `fields` are fields of the grammar and `ms` are their metrics, position by position -/
def FieldsOf (g : G) : List Str → List Str → Prop
  | [], [] => True
  | f :: fs, m :: ms => IsField g f m ∧ FieldsOf g fs ms
  | _, _ => False

/-- the fields are well-formed: non-empty list, each a field of the grammar, no metric repeats -/
def WellFormed (g : G) (s : Str) (ms : List Str) : Prop :=
  ∃ p fields, p ∈ g.prefixes ∧ s = p ++ join '/' fields ∧ fields ≠ [] ∧
    FieldsOf g fields ms ∧ ms.Nodup

/-- the version's grammar: well-formed and every mandatory metric occurs -/
def Accepts (g : G) (s : Str) : Prop :=
  ∃ ms, WellFormed g s ms ∧ ∀ m ∈ g.mandatory, m ∈ ms

/-- well-formed but lacking a mandatory metric -/
def LacksMandatory (g : G) (s : Str) : Prop :=
  ∃ ms, WellFormed g s ms ∧ ∃ m ∈ g.mandatory, m ∉ ms

/-! executable classifier -/

/-- every legal field string with its metric -/
def fieldStrings (g : G) : List (Str × Str) :=
  g.vocab.flatMap (fun (m, vs) => vs.map (fun v => (m ++ ':' :: v, m)))

inductive Class | ok | malformed | mandatory
  deriving DecidableEq, Repr

def hasDup : List Str → Bool
  | [] => false
  | x :: xs => xs.contains x || hasDup xs

def classifyRest (g : G) (rest : Str) : Class :=
  match (splitOn '/' rest).mapM (fun f => lookup f (fieldStrings g)) with
  | none => .malformed
  | some ms =>
    if hasDup ms then .malformed
    else if g.mandatory.all (fun m => ms.contains m) then .ok
    else .mandatory

def classify (g : G) (s : Str) : Class :=
  match g.prefixes.find? (fun p => p.isPrefixOf s) with
  | none => .malformed
  | some p => classifyRest g (s.drop p.length)

end Cvss.Spec.Grammar
