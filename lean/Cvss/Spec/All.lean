/-
  Driver entry for the specification side ("Spec vs code" correspondence): the spec functions are
  applied to the assignment obtained from the model's parse of the string.
-/
import Cvss.Model.Any
import Cvss.Spec.V2
import Cvss.Spec.V3
import Cvss.Spec.V4
import Cvss.Spec.Grammar
import Cvss.Spec.Severity
import Cvss.Spec.RegexPatterns
import Cvss.Spec.SchemaTerms
import Cvss.Model.Json
namespace Cvss.Spec
open Cvss Cvss.Model

def specScores : AnyObj → List (Option Rat)
  | .o2 o => Spec.V2.scores (assignment c!"ND" o.metrics)
  | .o3 o => Spec.V3.scores o.minor (assignment c!"X" o.orig)
  | .o4 o => [Spec.V4.score (assignment c!"X" o.orig)]

private def decodeStr (s : String) : Option Str :=
  if s = "e" then some []
  else (s.splitOn ",").mapM (fun t => t.toNat?.map Char.ofNat)

private def showScore? : Option Rat → String
  | none => "None"
  | some x => if x ≥ 0 ∧ (x * 10).den = 1 then String.ofList (showScore x) else s!"?{x.num}/{x.den}"

def handle : List String → String
  | ["score", v, s] =>
    let ver : Option Ver := if v = "2" then some .v2 else if v = "3" then some .v3 else if v = "4" then some .v4 else none
    match ver, decodeStr s with
    | some ver, some str =>
      match construct ver str with
      | .error e => "err\t" ++ e.name
      | .ok o => "ok\t" ++ " ".intercalate ((specScores o).map showScore?)
    | _, _ => "bad-op"
  | ["raw4", s] =>     -- the exact v4 value before clamping and rounding (for finding rounding ties; not an oracle)
    match decodeStr s with
    | some str =>
      match construct .v4 str with
      | .ok (.o4 o) =>
        match Spec.V4.rawScore (assignment c!"X" o.orig) with
        | some x => s!"ok\t{x.num}/{x.den}"
        | none => "none"
      | _ => "err"
    | none => "bad-op"
  | ["acc", v, s] =>
    let g : Option Grammar.G := if v = "2" then some Grammar.g2 else if v = "3" then some Grammar.g3 else if v = "4" then some Grammar.g4 else none
    match g, decodeStr s with
    | some g, some str =>
      match Grammar.classify g str with
      | .ok => "ok" | .malformed => "err\tMalformedError" | .mandatory => "err\tMandatoryError"
    | _, _ => "bad-op"
  | ["sev", v, t] =>
    if v = "2" then
      if t = "None" then String.ofList (Severity.rating2 none)
      else match t.toNat? with
        | some n => String.ofList (Severity.rating2 (some n))
        | none => "bad-op"
    else match t.toNat? with
      | some n => String.ofList (Severity.rating34 n)
      | none => "bad-op"
  | ["schema", v, so, mi, s] =>   -- failing schema locations of as_json(sort, minimal)
    let ver : Option Ver := if v = "2" then some .v2 else if v = "3" then some .v3 else if v = "4" then some .v4 else none
    match ver, decodeStr s with
    | some ver, some str =>
      match construct ver str with
      | .error e => "err\t" ++ e.name
      | .ok o =>
        let sch := match o with
          | .o2 _ => Schema.schema20
          | .o3 x => if x.minor = 0 then Schema.schema30 else Schema.schema31
          | .o4 _ => Schema.schema40
        match o.asJson (so = "1") (mi = "1") with
        | none => "KEYERROR"
        | some j => "ok\t" ++ ",".intercalate ((Schema.failures sch j).map String.ofList)
    | _, _ => "bad-op"
  | ["re", k, s] =>
    let p : Option Regex.Re := if k = "2" then some Regex.pattern20 else if k = "3.0" then some Regex.pattern30
      else if k = "3.1" then some Regex.pattern31 else if k = "4" then some Regex.pattern40 else none
    match p, decodeStr s with
    | some p, some str => if Regex.fullMatch p str then "1" else "0"
    | _, _ => "bad-op"
  | _ => "bad-op"

end Cvss.Spec
