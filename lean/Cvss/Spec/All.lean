/-
  Driver entry for the specification side ("Spec vs code" correspondence): the spec functions are
  applied to the assignment obtained from the model's parse of the string.
-/
import Cvss.Model.Any
import Cvss.Spec.V2
import Cvss.Spec.V3
import Cvss.Spec.V4
import Cvss.Spec.Grammar
import Cvss.Spec.Severity
namespace Cvss.Spec
open Cvss Cvss.Model

/-- assignment read off a metric map: stated token, or the version's Not Defined token -/
def assignment (nd : Str) (m : MMap) : Str → Str := fun k => (lookup k m).getD nd

def specScores : AnyObj → List (Option Rat)
  | .o2 o => Spec.V2.scores (assignment c!"ND" o.metrics)
  | .o3 o => Spec.V3.scores o.minor (assignment c!"X" o.orig)
  | .o4 o => [Spec.V4.score (assignment c!"X" o.orig)]

private def decodeStr (s : String) : Option Str :=
  if s = "e" then some []
  else (s.splitOn ",").mapM (fun t => t.toNat?.map Char.ofNat)

private def showScore? : Option Rat → String
  | none => "None"
  | some x => if x ≥ 0 ∧ (x * 10).den = 1 then String.ofList (showScore x) else s!"?{x.num}/{x.den}"

def handle : List String → String
  | ["score", v, s] =>
    let ver : Option Ver := if v = "2" then some .v2 else if v = "3" then some .v3 else if v = "4" then some .v4 else none
    match ver, decodeStr s with
    | some ver, some str =>
      match construct ver str with
      | .error e => "err\t" ++ e.name
      | .ok o => "ok\t" ++ " ".intercalate ((specScores o).map showScore?)
    | _, _ => "bad-op"
  | ["acc", v, s] =>
    let g : Option Grammar.G := if v = "2" then some Grammar.g2 else if v = "3" then some Grammar.g3 else if v = "4" then some Grammar.g4 else none
    match g, decodeStr s with
    | some g, some str =>
      match Grammar.classify g str with
      | .ok => "ok" | .malformed => "err\tMalformedError" | .mandatory => "err\tMandatoryError"
    | _, _ => "bad-op"
  | ["sev", v, t] =>
    if v = "2" then
      if t = "None" then String.ofList (Severity.rating2 none)
      else match t.toNat? with
        | some n => String.ofList (Severity.rating2 (some n))
        | none => "bad-op"
    else match t.toNat? with
      | some n => String.ofList (Severity.rating34 n)
      | none => "bad-op"
  | _ => "bad-op"

end Cvss.Spec
