/-
  Regular expressions as used by the `vectorString` patterns of FIRST's JSON schemas:
  declarative matching semantics and an executable derivative matcher (the latter is only used to
  cross-validate the transcribed patterns against Python's `re` on concrete strings).
-/
import Cvss.Basic
namespace Cvss.Spec.Regex
open Cvss

inductive Re
  | empty                      -- matches nothing
  | eps                        -- matches the empty string
  | chr (c : Char)
  | cls (cs : List Char)       -- character class `[...]`
  | any                        -- `.` (any character except newline)
  | seq (a b : Re)
  | alt (a b : Re)
  | star (a : Re)
  deriving Repr, DecidableEq, Inhabited

namespace Re
def opt (a : Re) : Re := .alt a .eps
def seqs : List Re → Re
  | [] => .eps
  | [a] => a
  | a :: rest => .seq a (seqs rest)
def alts : List Re → Re
  | [] => .empty
  | [a] => a
  | a :: rest => .alt a (alts rest)
def lit (s : Str) : Re := seqs (s.map .chr)
end Re

/-- declarative semantics: `Matches r s` ⇔ the whole of `s` is in the language of `r` -/
inductive Matches : Re → Str → Prop
  | eps : Matches .eps []
  | chr (c : Char) : Matches (.chr c) [c]
  | cls (cs : List Char) (c : Char) : c ∈ cs → Matches (.cls cs) [c]
  | any (c : Char) : c ≠ '\n' → Matches .any [c]
  | seq {a b : Re} {s t : Str} : Matches a s → Matches b t → Matches (.seq a b) (s ++ t)
  | altL {a b : Re} {s : Str} : Matches a s → Matches (.alt a b) s
  | altR {a b : Re} {s : Str} : Matches b s → Matches (.alt a b) s
  | starNil {a : Re} : Matches (.star a) []
  | starCons {a : Re} {s t : Str} : Matches a s → Matches (.star a) t → Matches (.star a) (s ++ t)

/-! executable matcher (Brzozowski derivatives with simplifying constructors) -/

def nullable : Re → Bool
  | .empty => false
  | .eps => true
  | .chr _ => false
  | .cls _ => false
  | .any => false
  | .seq a b => nullable a && nullable b
  | .alt a b => nullable a || nullable b
  | .star _ => true

def mkSeq : Re → Re → Re
  | .empty, _ => .empty
  | _, .empty => .empty
  | .eps, b => b
  | a, .eps => a
  | a, b => .seq a b

def mkAlt : Re → Re → Re
  | .empty, b => b
  | a, .empty => a
  | a, b => if a = b then a else .alt a b

def deriv (c : Char) : Re → Re
  | .empty => .empty
  | .eps => .empty
  | .chr d => if c = d then .eps else .empty
  | .cls cs => if c ∈ cs then .eps else .empty
  | .any => if c ≠ '\n' then .eps else .empty
  | .seq a b =>
    if nullable a then mkAlt (mkSeq (deriv c a) b) (deriv c b) else mkSeq (deriv c a) b
  | .alt a b => mkAlt (deriv c a) (deriv c b)
  | .star a => mkSeq (deriv c a) (.star a)

/-- whole-string match -/
def fullMatch (r : Re) (s : Str) : Bool := nullable (s.foldl (fun r c => deriv c r) r)

end Cvss.Spec.Regex
