/-
  Lemmas for C17 / C18 / C20: totality of `strLt`, uniqueness of a sorted key-distinct list,
  `construct` through `Except.map`.
-/
import Cvss.Model.Cli
import Cvss.Lemmas.Json
import Cvss.Lemmas.Construct
namespace Cvss.Lemmas.Cli
open Cvss Cvss.Model

/-! ### `strLt` is total -/

theorem strLt_total : ∀ (a b : Str), strLt a b = false → strLt b a = false → a = b
  | [], [], _, _ => rfl
  | [], _ :: _, h, _ => by simp [strLt] at h
  | _ :: _, [], _, h => by simp [strLt] at h
  | a :: as, b :: bs, h1, h2 => by
    have e1 : ¬ (strLt (a :: as) (b :: bs) = true) := by simp [h1]
    have e2 : ¬ (strLt (b :: bs) (a :: as) = true) := by simp [h2]
    rw [strLt_cons_cons] at e1 e2
    have hab : a.toNat = b.toNat := by omega
    have hc : a = b := Char.toNat_inj.1 hab
    subst hc
    have t1 : strLt as bs = false := by
      cases h : strLt as bs with
      | false => rfl
      | true => exact absurd (Or.inr ⟨rfl, h⟩) e1
    have t2 : strLt bs as = false := by
      cases h : strLt bs as with
      | false => rfl
      | true => exact absurd (Or.inr ⟨rfl, h⟩) e2
    rw [strLt_total as bs t1 t2]

/-! ### a sorted list with distinct keys is determined by its items -/

theorem sorted_perm_eq : ∀ (l₁ l₂ : JObj), l₁.Perm l₂ → (keys l₁).Nodup →
    l₁.Pairwise (fun a b => strLt b.1 a.1 = false) → l₂.Pairwise (fun a b => strLt b.1 a.1 = false) →
    l₁ = l₂
  | [], l₂, hp, _, _, _ => (List.Perm.nil_eq hp)
  | x :: xs, [], hp, _, _, _ => by simpa using hp.length_eq
  | x :: xs, y :: ys, hp, hn, h1, h2 => by
    rw [List.pairwise_cons] at h1 h2
    have hn' : x.1 ∉ keys xs ∧ (keys xs).Nodup := by
      simpa [keys] using hn
    have hxy : x = y := by
      have hx : x ∈ y :: ys := hp.mem_iff.1 (by simp)
      have hy : y ∈ x :: xs := hp.mem_iff.2 (by simp)
      rcases List.mem_cons.1 hx with h | hx
      · exact h
      rcases List.mem_cons.1 hy with h | hy
      · exact h.symm
      have k : x.1 = y.1 := strLt_total _ _ (h2.1 x hx) (h1.1 y hy)
      exfalso
      apply hn'.1
      rw [k]
      exact List.mem_map_of_mem (f := fun p : Str × JVal => p.1) hy
    subst hxy
    rw [sorted_perm_eq xs ys (List.Perm.cons_inv hp) hn'.2 h1.2 h2.2]

/-! ### `construct` for the v2 / v3 classes never raises a foreign exception -/

theorem construct_error (v : Ver) (hv : v ≠ .v4) (s : Str) (e : Err) (h : construct v s = .error e) :
    e = .malformed ∨ e = .mandatory := by
  cases v with
  | v2 =>
    simp only [construct] at h
    cases hc : V2.construct s with
    | error e' =>
      rw [hc] at h
      cases h
      exact (Lemmas.Construct.v2_construct_error s _ hc).2
    | ok o => rw [hc] at h; cases h
  | v3 =>
    simp only [construct] at h
    cases hc : V3.construct s with
    | error e' =>
      rw [hc] at h
      cases h
      exact (Lemmas.Construct.v3_construct_error s _ hc).2
    | ok o => rw [hc] at h; cases h
  | v4 => exact absurd rfl hv

end Cvss.Lemmas.Cli
