/-
  Helper lemmas for C03 (CVSS v2 scoring): association lists, weight bounds, range of the
  specification's scores.
-/
import Mathlib.Tactic.Linarith
import Mathlib.Tactic.NormNum
import Mathlib.Tactic.Positivity
import Cvss.Lemmas.Num
import Cvss.Model.V2
import Cvss.Spec.V2
namespace Cvss.Lemmas.V2
open Cvss Cvss.Model Cvss.Lemmas.Num

/-! ### association lists -/

theorem lookup_mem {α β : Type} [DecidableEq α] {k : α} {l : List (α × β)} {v : β}
    (h : lookup k l = some v) : (k, v) ∈ l := by
  induction l with
  | nil => simp [lookup] at h
  | cons p r ih =>
    obtain ⟨a, b⟩ := p
    simp only [lookup] at h
    split at h
    · next hka => cases h; subst hka; exact List.mem_cons_self
    · exact List.mem_cons_of_mem _ (ih h)

theorem lookup_map_keys {α β γ : Type} [DecidableEq α] (k : α) (l : List (α × List (β × γ))) :
    lookup k (l.map (fun (k, row) => (k, keys row))) = (lookup k l).map keys := by
  induction l with
  | nil => rfl
  | cons p r ih =>
    obtain ⟨a, b⟩ := p
    simp only [List.map_cons, lookup]
    split
    · rfl
    · exact ih

theorem lookup_of_mem_keys {α β : Type} [DecidableEq α] {t : α} {row : List (α × β)}
    (h : t ∈ keys row) : ∃ w, lookup t row = some w := by
  induction row with
  | nil => simp [keys] at h
  | cons p r ih =>
    obtain ⟨a, b⟩ := p
    simp only [lookup]
    split
    · exact ⟨b, rfl⟩
    · next hne =>
      simp only [keys, List.map_cons, List.mem_cons] at h
      rcases h with h | h
      · exact absurd h hne
      · exact ih h

/-- a Boolean `all` over a table of rows, read at one looked-up cell -/
theorem all_all_lookup {α β γ : Type} [DecidableEq α] [DecidableEq β]
    {P : α → β → γ → Bool} {l : List (α × List (β × γ))}
    (hall : l.all (fun (m, row) => row.all (fun (t, w) => P m t w)) = true)
    {k : α} {row : List (β × γ)} {t : β} {w : γ}
    (hrow : lookup k l = some row) (hw : lookup t row = some w) : P k t w = true := by
  have h1 := List.all_eq_true.mp hall _ (lookup_mem hrow)
  exact List.all_eq_true.mp h1 _ (lookup_mem hw)

/-! ### bounds on the guide's weights -/

/-- Boolean check: the guide has a row for metric `k` and all its weights lie in `[lo, hi]` -/
def rowIn (k : Str) (lo hi : Rat) : Bool :=
  match lookup k Spec.V2.weights with
  | none => false
  | some row => row.all (fun p => decide (lo ≤ p.2) && decide (p.2 ≤ hi))

/-- an assignment whose values are legal for the guide's tables (`LegalAssignment` of C03) -/
def Legal (a : Str → Str) : Prop := ∀ p ∈ Spec.V2.weights, (lookup (a p.1) p.2).isSome

theorem wa_bounds {a : Str → Str} (ha : Legal a) {k : Str} {lo hi : Rat}
    (h : rowIn k lo hi = true) : lo ≤ Spec.V2.wa a k ∧ Spec.V2.wa a k ≤ hi := by
  unfold rowIn at h
  unfold Spec.V2.wa Spec.V2.w
  cases hrow : lookup k Spec.V2.weights with
  | none => rw [hrow] at h; exact absurd h (by simp)
  | some row =>
    rw [hrow] at h
    have h1 := ha _ (lookup_mem hrow)
    obtain ⟨w, hw⟩ := Option.isSome_iff_exists.mp h1
    simp only at hw
    simp only [hw, Option.getD_some]
    have h2 := List.all_eq_true.mp h _ (lookup_mem hw)
    simpa using h2

theorem r_eq (n : Int) (d : Nat) : Spec.V2.r n d = (n : ℚ) / (d : ℚ) := Rat.mkRat_eq_div n d

section bounds
variable {a : Str → Str} (ha : Legal a)
include ha

theorem bC : 0 ≤ Spec.V2.wa a c!"C" ∧ Spec.V2.wa a c!"C" ≤ 66 / 100 := wa_bounds ha (by decide +kernel)
theorem bI : 0 ≤ Spec.V2.wa a c!"I" ∧ Spec.V2.wa a c!"I" ≤ 66 / 100 := wa_bounds ha (by decide +kernel)
theorem bA : 0 ≤ Spec.V2.wa a c!"A" ∧ Spec.V2.wa a c!"A" ≤ 66 / 100 := wa_bounds ha (by decide +kernel)
theorem bAV : 0 ≤ Spec.V2.wa a c!"AV" ∧ Spec.V2.wa a c!"AV" ≤ 1 := wa_bounds ha (by decide +kernel)
theorem bAC : 0 ≤ Spec.V2.wa a c!"AC" ∧ Spec.V2.wa a c!"AC" ≤ 71 / 100 := wa_bounds ha (by decide +kernel)
theorem bAu : 0 ≤ Spec.V2.wa a c!"Au" ∧ Spec.V2.wa a c!"Au" ≤ 704 / 1000 := wa_bounds ha (by decide +kernel)
theorem bE : 0 ≤ Spec.V2.wa a c!"E" ∧ Spec.V2.wa a c!"E" ≤ 1 := wa_bounds ha (by decide +kernel)
theorem bRL : 0 ≤ Spec.V2.wa a c!"RL" ∧ Spec.V2.wa a c!"RL" ≤ 1 := wa_bounds ha (by decide +kernel)
theorem bRC : 0 ≤ Spec.V2.wa a c!"RC" ∧ Spec.V2.wa a c!"RC" ≤ 1 := wa_bounds ha (by decide +kernel)
theorem bCDP : 0 ≤ Spec.V2.wa a c!"CDP" ∧ Spec.V2.wa a c!"CDP" ≤ 1 := wa_bounds ha (by decide +kernel)
theorem bTD : 0 ≤ Spec.V2.wa a c!"TD" ∧ Spec.V2.wa a c!"TD" ≤ 1 := wa_bounds ha (by decide +kernel)

/-- impact ≤ 10.41·(1 − 0.34³) = 10.00084536 -/
theorem impact_le : Spec.V2.impact a ≤ 10001 / 1000 := by
  obtain ⟨_, hc⟩ := bC ha
  obtain ⟨_, hi⟩ := bI ha
  obtain ⟨_, hav⟩ := bA ha
  unfold Spec.V2.impact
  rw [r_eq]
  generalize Spec.V2.wa a c!"C" = c at *
  generalize Spec.V2.wa a c!"I" = i at *
  generalize Spec.V2.wa a c!"A" = v at *
  have h1 : (34 / 100 : ℚ) * (34 / 100) ≤ (1 - c) * (1 - i) :=
    mul_le_mul (by linarith) (by linarith) (by norm_num) (by linarith)
  have h2 : (34 / 100 : ℚ) * (34 / 100) * (34 / 100) ≤ (1 - c) * (1 - i) * (1 - v) :=
    mul_le_mul h1 (by linarith) (by norm_num) (by nlinarith)
  push_cast
  linarith

theorem exploitability_le : Spec.V2.exploitability a ≤ 99968 / 10000 := by
  obtain ⟨h0, h1⟩ := bAV ha
  obtain ⟨h2, h3⟩ := bAC ha
  obtain ⟨h4, h5⟩ := bAu ha
  unfold Spec.V2.exploitability
  generalize Spec.V2.wa a c!"AV" = x at *
  generalize Spec.V2.wa a c!"AC" = y at *
  generalize Spec.V2.wa a c!"Au" = z at *
  have h6 : x * y ≤ 1 * (71 / 100) := mul_le_mul h1 h3 h2 (by norm_num)
  have h7 : x * y * z ≤ 1 * (71 / 100) * (704 / 1000) := mul_le_mul h6 h5 h4 (by norm_num)
  linarith

/-- the un-rounded base equation is at most 10 for every impact sub-score ≤ 10.001 -/
theorem baseRaw_le (imp : ℚ) (himp : imp ≤ 10001 / 1000) :
    ((Spec.V2.r 6 10 * imp) + (Spec.V2.r 4 10 * Spec.V2.exploitability a) - Spec.V2.r 15 10)
      * Spec.V2.f imp ≤ 10 := by
  have he := exploitability_le ha
  unfold Spec.V2.f
  simp only [r_eq]
  push_cast
  split
  · simp
  · linarith

theorem baseEq_le (imp : ℚ) (himp : imp ≤ 10001 / 1000) : Spec.V2.baseEq a imp ≤ 10 :=
  roundHalfUp1_le_ten _ (baseRaw_le ha imp himp)

theorem temporalFactor_bounds : 0 ≤ Spec.V2.temporalFactor a ∧ Spec.V2.temporalFactor a ≤ 1 := by
  obtain ⟨h0, h1⟩ := bE ha
  obtain ⟨h2, h3⟩ := bRL ha
  obtain ⟨h4, h5⟩ := bRC ha
  unfold Spec.V2.temporalFactor
  exact ⟨mul_nonneg (mul_nonneg h0 h2) h4,
    mul_le_one₀ (mul_le_one₀ h1 h2 h3) h4 h5⟩

end bounds

theorem mul_le_ten {x t : ℚ} (hx : x ≤ 10) (h0 : 0 ≤ t) (h1 : t ≤ 1) : x * t ≤ 10 := by
  have := mul_nonneg (sub_nonneg.mpr hx) h0
  linarith

/-- `max 0 (round1 y)` is a well-formed score whenever `y ≤ 10` -/
theorem isScore_max_round1 (y : ℚ) (hy : y ≤ 10) :
    ∃ k : Nat, k ≤ 100 ∧ max 0 (Spec.V2.round1 y) = (k : ℚ) / 10 := by
  obtain ⟨n, hn, h⟩ := roundHalfUp1_tenths y hy
  change Spec.V2.round1 y = _ at h
  rw [h]
  by_cases hpos : 0 ≤ n
  · refine ⟨n.toNat, by omega, ?_⟩
    have hc : ((n.toNat : ℤ) : ℚ) = (n : ℚ) := by rw [Int.toNat_of_nonneg hpos]
    rw [max_eq_right (by positivity)]
    rw [← hc]; push_cast; rfl
  · refine ⟨0, by omega, ?_⟩
    have : (n : ℚ) ≤ 0 := by exact_mod_cast (by omega : n ≤ 0)
    rw [max_eq_left (by linarith)]
    simp

theorem score_le_ten {x : ℚ} (h : ∃ k : Nat, k ≤ 100 ∧ x = (k : ℚ) / 10) : 0 ≤ x ∧ x ≤ 10 := by
  obtain ⟨k, hk, rfl⟩ := h
  have : (k : ℚ) ≤ 100 := by exact_mod_cast hk
  constructor
  · positivity
  · linarith

/-! ### range of the three scores -/

theorem baseScore_isScore {a : Str → Str} (ha : Legal a) :
    ∃ k : Nat, k ≤ 100 ∧ Spec.V2.baseScore a = (k : ℚ) / 10 :=
  isScore_max_round1 _ (baseRaw_le ha _ (impact_le ha))

theorem temporal_isScore {a : Str → Str} (ha : Legal a) :
    ∃ k : Nat, k ≤ 100 ∧
      max 0 (Spec.V2.round1 (Spec.V2.baseScore a * Spec.V2.temporalFactor a)) = (k : ℚ) / 10 := by
  obtain ⟨t0, t1⟩ := temporalFactor_bounds ha
  exact isScore_max_round1 _ (mul_le_ten (score_le_ten (baseScore_isScore ha)).2 t0 t1)

theorem environmental_isScore {a : Str → Str} (ha : Legal a) :
    ∃ k : Nat, k ≤ 100 ∧
      max 0 (Spec.V2.round1
        ((Spec.V2.round1 (Spec.V2.baseEq a (Spec.V2.adjustedImpact a) * Spec.V2.temporalFactor a) +
          (10 - Spec.V2.round1 (Spec.V2.baseEq a (Spec.V2.adjustedImpact a) * Spec.V2.temporalFactor a))
            * Spec.V2.wa a c!"CDP") * Spec.V2.wa a c!"TD")) = (k : ℚ) / 10 := by
  obtain ⟨t0, t1⟩ := temporalFactor_bounds ha
  obtain ⟨c0, c1⟩ := bCDP ha
  obtain ⟨d0, d1⟩ := bTD ha
  have hadj : Spec.V2.adjustedImpact a ≤ 10001 / 1000 := by
    unfold Spec.V2.adjustedImpact
    exact le_trans (min_le_left _ _) (by norm_num)
  have hB := baseEq_le ha _ hadj
  have hT : Spec.V2.round1 (Spec.V2.baseEq a (Spec.V2.adjustedImpact a) * Spec.V2.temporalFactor a)
      ≤ 10 := roundHalfUp1_le_ten _ (mul_le_ten hB t0 t1)
  generalize Spec.V2.round1 (Spec.V2.baseEq a (Spec.V2.adjustedImpact a) * Spec.V2.temporalFactor a)
    = at' at *
  apply isScore_max_round1
  apply mul_le_ten _ d0 d1
  have := mul_nonneg (sub_nonneg.mpr hT) (sub_nonneg.mpr c1)
  linarith

end Cvss.Lemmas.V2
