/-
  Glue for the constructor-level v4 statements (C05Final … C18Final): a parsed v4 map always builds.
-/
import Cvss.Lemmas.Construct
import Cvss.Lemmas.Json
namespace Cvss.Lemmas.V4Glue
open Cvss Cvss.Model Cvss.Props Cvss.Lemmas.Construct

/-- a string the v4 parser accepts is accepted by the constructor; the object holds the parsed map -/
theorem v4_construct_of_parse {s : Str} {m : MMap} (hp : V4.parse s = .ok m) :
    ∃ o, V4.construct s = .ok o ∧ o.orig = m ∧ o.vector = s ∧
      Spec.V4.score (assignment V4.X m) = some o.base ∧ o.severity = V4.sevOf o.base := by
  obtain ⟨o, ho, h1, h2, h3, h4⟩ := C02.v4_build_eq_spec s m (validMap4_of_parse hp)
  exact ⟨o, (v4_construct_ok_iff s o).2 ⟨m, hp, ho⟩, h2, h1, h3, h4⟩

/-- the base score (hence everything derived from it) of a constructed v4 object is a function of the
    assignment read off its original map -/
theorem v4_base_congr {s s' : Str} {o o' : V4.Obj} (h : V4.construct s = .ok o) (h' : V4.construct s' = .ok o')
    (ha : assignment V4.X o.orig = assignment V4.X o'.orig) :
    o.base = o'.base ∧ o.severity = o'.severity := by
  obtain ⟨-, -, hb, hs⟩ := v4_construct_spec h
  obtain ⟨-, -, hb', hs'⟩ := v4_construct_spec h'
  rw [ha, hb'] at hb
  have e : o.base = o'.base := (Option.some.inj hb).symm
  exact ⟨e, by rw [hs, hs', e]⟩

/-! ### the completed metric map `o.metrics` and `as_json` -/

/-- look-up in the completed map of a constructed v4 object, in terms of the original map -/
theorem v4_metrics_lookup {s : Str} {o : V4.Obj} (h : V4.construct s = .ok o) :
    Lemmas.V4.Valid o.orig ∧ ∀ k, lookup k o.metrics = Lemmas.V4.fullLookup o.orig k := by
  obtain ⟨m, hp, hb⟩ := (v4_construct_ok_iff s o).1 h
  have hv : Lemmas.V4.Valid m := validMap4_of_parse hp
  obtain ⟨m1, hm1, hfull⟩ := Lemmas.V4.full_spec m hv
  unfold V4.build at hb
  rw [hm1] at hb
  cases h2 : V4.baseScore (V4.fillDefaults m1 V4.defaultedMetrics) with
  | none => simp [h2] at hb
  | some b =>
    simp [h2] at hb
    subst hb
    exact ⟨hv, hfull⟩

/-- the value the completed map holds for a metric is a legal value of that metric, or (Modified
    metric) of its base metric, or (defaulted metric) X -/
theorem fullLookup_cases {m : MMap} (hv : Lemmas.V4.Valid m) (k : Str)
    (hcov : k ∈ Gen.V4.mandatory ∨ k ∈ V4.modifiedMetrics ∨ k ∈ V4.defaultedMetrics) :
    ∃ v, Lemmas.V4.fullLookup m k = some v ∧
      (v ∈ Lemmas.V4.legalOf k ∨ (k ∈ V4.modifiedMetrics ∧ v ∈ Lemmas.V4.legalOf (k.drop 1)) ∨
        (k ∈ V4.defaultedMetrics ∧ v = V4.X)) := by
  unfold Lemmas.V4.fullLookup
  by_cases hmod : k ∈ V4.modifiedMetrics ∧ (lookup k m = none ∨ lookup k m = some V4.X)
  · have hb : k.drop 1 ∈ V4.tables.mandatory :=
      (by decide : ∀ a ∈ V4.modifiedMetrics, a.drop 1 ∈ V4.tables.mandatory) k hmod.1
    obtain ⟨v, hkv⟩ := Option.isSome_iff_exists.mp (hv.2 _ hb)
    refine ⟨v, ?_, Or.inr (Or.inl ⟨hmod.1, Lemmas.V4.valid_legal hv hkv⟩)⟩
    simp only [if_pos hmod, hkv]
    simp
  · simp only [if_neg hmod]
    cases hl : lookup k m with
    | some v =>
      refine ⟨v, ?_, Or.inl (Lemmas.V4.valid_legal hv hl)⟩
      simp
    | none =>
      have hnm : k ∉ V4.modifiedMetrics := fun hk => hmod ⟨hk, Or.inl hl⟩
      rcases hcov with hk | hk | hk
      · have := hv.2 k hk
        rw [hl] at this
        cases this
      · exact absurd hk hnm
      · exact ⟨V4.X, by simp [hk], Or.inr (Or.inr ⟨hk, rfl⟩)⟩

/-- finite check on the generated tables: every metric of `METRICS_ORDER` has a JSON key and a row of value
    names that covers every value the completed map can hold for it -/
def descrOK : Bool :=
  Gen.V4.metricsOrder.all fun k =>
    (lookup k Gen.V4.jsonKeys).isSome &&
    (decide (k ∈ Gen.V4.mandatory) || decide (k ∈ V4.modifiedMetrics) || decide (k ∈ V4.defaultedMetrics)) &&
    match lookup k Gen.V4.valueNames with
    | none => false
    | some row =>
      (Lemmas.V4.legalOf k).all (fun v => (lookup v row).isSome) &&
      (!decide (k ∈ V4.modifiedMetrics) || (Lemmas.V4.legalOf (k.drop 1)).all (fun v => (lookup v row).isSome)) &&
      (!decide (k ∈ V4.defaultedMetrics) || (lookup V4.X row).isSome)

theorem descrOK_true : descrOK = true := by decide +kernel

/-- every metric of `METRICS_ORDER` of a constructed v4 object has a JSON key and a description -/
theorem v4_descr_isSome {s : Str} {o : V4.Obj} (h : V4.construct s = .ok o) :
    ∀ k ∈ Gen.V4.metricsOrder,
      (lookup k Gen.V4.jsonKeys).isSome = true ∧ (V4.getDescription o.metrics k).isSome = true := by
  intro k hk
  obtain ⟨hv, hfull⟩ := v4_metrics_lookup h
  have hchk := List.all_eq_true.1 descrOK_true k hk
  simp only [Bool.and_eq_true, Bool.or_eq_true, decide_eq_true_eq] at hchk
  obtain ⟨⟨hjk, hcov⟩, hrow⟩ := hchk
  have hcov' : k ∈ Gen.V4.mandatory ∨ k ∈ V4.modifiedMetrics ∨ k ∈ V4.defaultedMetrics := by tauto
  refine ⟨hjk, ?_⟩
  unfold V4.getDescription
  cases hr : lookup k Gen.V4.valueNames with
  | none => rw [hr] at hrow; cases hrow
  | some row =>
    rw [hr] at hrow
    simp only [Bool.and_eq_true, Bool.or_eq_true, Bool.not_eq_true', decide_eq_false_iff_not,
      List.all_eq_true] at hrow
    obtain ⟨⟨h1, h2⟩, h3⟩ := hrow
    obtain ⟨v, hfv, hcase⟩ := fullLookup_cases hv k hcov'
    simp only [hfull k, hfv, Option.getD_some]
    rcases hcase with hc | ⟨hm, hc⟩ | ⟨hd, rfl⟩
    · exact h1 v hc
    · rcases h2 with h2 | h2
      · exact absurd hm h2
      · exact h2 v hc
    · rcases h3 with h3 | h3
      · exact absurd hd h3
      · exact h3

theorem addMetrics_isSome (jk : List (Str × Str)) (descr : Str → Option Str) (usf : Str → Str)
    (ms : List Str) (h : ∀ m ∈ ms, (lookup m jk).isSome = true ∧ (descr m).isSome = true) :
    ∀ data, (addMetrics jk descr usf data ms).isSome = true := by
  induction ms with
  | nil => intro data; rfl
  | cons m rest ih =>
    intro data
    obtain ⟨h1, h2⟩ := h m (by simp)
    obtain ⟨k, hk⟩ := Option.isSome_iff_exists.1 h1
    obtain ⟨d, hd⟩ := Option.isSome_iff_exists.1 h2
    unfold addMetrics
    simp only [hk, hd]
    exact ih (fun m' hm' => h m' (List.mem_cons_of_mem _ hm')) _

/-- `as_json` of a constructed v4 object never fails -/
theorem v4_asJson_isSome {s : Str} {o : V4.Obj} (h : V4.construct s = .ok o) (sort minimal : Bool) :
    (asJson4 o sort minimal).isSome = true := by
  have := addMetrics_isSome Gen.V4.jsonKeys (V4.getDescription o.metrics) us3 Gen.V4.metricsOrder
    (v4_descr_isSome h) [(c!"version", .str c!"4"), (c!"vectorString", .str o.vector)]
  obtain ⟨d1, hd1⟩ := Option.isSome_iff_exists.1 this
  unfold asJson4
  simp [hd1]

end Cvss.Lemmas.V4Glue
