/-
  Lemmas about the interactive builder `Cvss/Model/Interactive.lean`:
  `select`, `askOne`, `loop` (model level; the dialogue specification lives in Props/C16.lean).
-/
import Cvss.Model.Interactive
import Cvss.Lemmas.Str
namespace Cvss.Model.Interactive
open Cvss Cvss.Model

/-! ### `select` -/

theorem select_some {values : List Str} {a x : Str} (h : select values a = some x) :
    x ∈ values ∧ upper x = a := by
  unfold select at h
  refine ⟨List.mem_of_find?_eq_some h, ?_⟩
  have := List.find?_some h
  simpa using this

/-! ### `askOne` -/

/-- an accepted answer after a run of rejected ones -/
theorem askOne_append (v : IVer) (values bad : List Str) (good x : Str) (tail : List Str)
    (hbad : ∀ b ∈ bad, select values (normalize v b) = none)
    (hgood : select values (normalize v good) = some x) :
    askOne v values (bad ++ good :: tail) = some (x, tail, bad.length + 1) := by
  induction bad with
  | nil => simp [askOne, hgood]
  | cons b bs ih =>
    have hb := hbad b (by simp)
    have := ih (fun c hc => hbad c (List.mem_cons_of_mem _ hc))
    simp [askOne, hb, this]

theorem askOne_some (v : IVer) (values answers : List Str) (x : Str) (rest : List Str) (n : Nat)
    (h : askOne v values answers = some (x, rest, n)) :
    ∃ bad good, answers = bad ++ good :: rest ∧
      (∀ b ∈ bad, select values (normalize v b) = none) ∧
      select values (normalize v good) = some x ∧ n = bad.length + 1 := by
  induction answers generalizing n with
  | nil => simp [askOne] at h
  | cons a as ih =>
    unfold askOne at h
    split at h
    · rename_i y hy
      simp only [Option.some.injEq, Prod.mk.injEq] at h
      obtain ⟨rfl, rfl, rfl⟩ := h
      exact ⟨[], a, rfl, by simp, hy, rfl⟩
    · rename_i hnone
      split at h
      · cases h
      · rename_i y r k hk
        simp only [Option.some.injEq, Prod.mk.injEq] at h
        obtain ⟨rfl, rfl, rfl⟩ := h
        obtain ⟨bad, good, rfl, hbad, hgood, rfl⟩ := ih _ hk
        refine ⟨a :: bad, good, rfl, ?_, hgood, rfl⟩
        intro b hb
        rcases List.mem_cons.1 hb with rfl | hb
        · exact hnone
        · exact hbad b hb

theorem askOne_eq_some_iff (v : IVer) (values answers : List Str) (x : Str) (rest : List Str) (n : Nat) :
    askOne v values answers = some (x, rest, n) ↔
      ∃ bad good, answers = bad ++ good :: rest ∧
        (∀ b ∈ bad, select values (normalize v b) = none) ∧
        select values (normalize v good) = some x ∧ n = bad.length + 1 := by
  constructor
  · exact askOne_some v values answers x rest n
  · rintro ⟨bad, good, rfl, hbad, hgood, rfl⟩
    exact askOne_append v values bad good x rest hbad hgood

theorem askOne_eq_none_iff (v : IVer) (values answers : List Str) :
    askOne v values answers = none ↔ ∀ a ∈ answers, select values (normalize v a) = none := by
  induction answers with
  | nil => simp [askOne]
  | cons a as ih =>
    unfold askOne
    cases hs : select values (normalize v a) with
    | some y => simp [hs]
    | none =>
      simp only
      cases hr : askOne v values as with
      | none =>
        simp only [true_iff]
        intro b hb
        rcases List.mem_cons.1 hb with rfl | hb
        · exact hs
        · exact (ih.1 hr) b hb
      | some t =>
        obtain ⟨y, r, k⟩ := t
        simp only [false_iff, reduceCtorEq]
        intro hall
        have := ih.2 (fun b hb => hall b (List.mem_cons_of_mem _ hb))
        rw [hr] at this
        cases this

/-! ### the answer counter -/

theorem foldl_count (l : List (Str × Nat)) (a : Nat) :
    l.foldl (fun n p => n + p.2) a = a + (l.map (·.2)).sum := by
  induction l generalizing a with
  | nil => simp
  | cons p r ih => simp [ih, Nat.add_assoc]

theorem foldl_count_zero (l : List (Str × Nat)) :
    l.foldl (fun n p => n + p.2) 0 = (l.map (·.2)).sum := by
  rw [foldl_count]; simp

/-! ### `loop`: equation lemmas -/

theorem loop_nil (v : IVer) (answers fields : List Str) (asked : List (Str × Nat)) :
    loop v [] answers fields asked =
      .result (prefixOf v ++ join '/' fields) ((asked.map (·.2)).sum) asked := by
  rw [loop, foldl_count_zero]

theorem loop_cons_none (v : IVer) (m : Str) (ms answers fields : List Str) (asked : List (Str × Nat))
    (h : lookup m (valueNamesOf v) = none) :
    loop v (m :: ms) answers fields asked = .keyError := by
  rw [loop, h]

theorem loop_cons_eof (v : IVer) (m : Str) (ms answers fields : List Str) (asked : List (Str × Nat))
    (row : List (Str × Str)) (h : lookup m (valueNamesOf v) = some row)
    (h' : askOne v (keys row) answers = none) :
    loop v (m :: ms) answers fields asked = .eof (asked ++ [(m, answers.length + 1)]) := by
  rw [loop, h]; simp only; rw [h']

theorem loop_cons_some (v : IVer) (m : Str) (ms answers fields : List Str) (asked : List (Str × Nat))
    (row : List (Str × Str)) (x : Str) (rest : List Str) (n : Nat)
    (h : lookup m (valueNamesOf v) = some row)
    (h' : askOne v (keys row) answers = some (x, rest, n)) :
    loop v (m :: ms) answers fields asked =
      loop v ms rest (fields ++ [m ++ ':' :: x]) (asked ++ [(m, n)]) := by
  rw [loop, h]; simp only; rw [h']

/-- `KeyError` can only come from an asked metric without a row of value names -/
theorem loop_keyError (v : IVer) (ms answers fields : List Str) (asked : List (Str × Nat))
    (h : loop v ms answers fields asked = .keyError) : ∃ m ∈ ms, lookup m (valueNamesOf v) = none := by
  induction ms generalizing answers fields asked with
  | nil => rw [loop_nil] at h; cases h
  | cons m ms ih =>
    cases hl : lookup m (valueNamesOf v) with
    | none => exact ⟨m, by simp, hl⟩
    | some row =>
      cases ha : askOne v (keys row) answers with
      | none => rw [loop_cons_eof v m ms answers fields asked row hl ha] at h; cases h
      | some t =>
        obtain ⟨x, rest, n⟩ := t
        rw [loop_cons_some v m ms answers fields asked row x rest n hl ha] at h
        obtain ⟨m', hm', hl'⟩ := ih _ _ _ h
        exact ⟨m', List.mem_cons_of_mem _ hm', hl'⟩

end Cvss.Model.Interactive
