/-
  The official v4.0 `vectorString` pattern as a list of rows (metric, value regex): 11 mandatory
  rows followed by 21 optional rows; the clean vector of a metric map whose values are legal and
  whose mandatory metrics are defined matches it.
-/
import Cvss.Spec.RegexPatterns
import Cvss.Model.V4
import Cvss.Lemmas.Regex
namespace Cvss.Spec.Regex
open Cvss Cvss.Model

/-! ### row description of `pattern40` -/

/-- the mandatory part `/AV:[NALP]/AC:[LH]…` -/
def mandRows : List (Str × Re) := [
  (c!"AV", .cls ['N', 'A', 'L', 'P']),
  (c!"AC", .cls ['L', 'H']),
  (c!"AT", .cls ['N', 'P']),
  (c!"PR", .cls ['N', 'L', 'H']),
  (c!"UI", .cls ['N', 'P', 'A']),
  (c!"VC", .cls ['H', 'L', 'N']),
  (c!"VI", .cls ['H', 'L', 'N']),
  (c!"VA", .cls ['H', 'L', 'N']),
  (c!"SC", .cls ['H', 'L', 'N']),
  (c!"SI", .cls ['H', 'L', 'N']),
  (c!"SA", .cls ['H', 'L', 'N'])]

/-- the optional part `(/E:[XAPU])?(/CR:[XHML])?…` in the official order -/
def optRows : List (Str × Re) := [
  (c!"E", .cls ['X', 'A', 'P', 'U']),
  (c!"CR", .cls ['X', 'H', 'M', 'L']),
  (c!"IR", .cls ['X', 'H', 'M', 'L']),
  (c!"AR", .cls ['X', 'H', 'M', 'L']),
  (c!"MAV", .cls ['X', 'N', 'A', 'L', 'P']),
  (c!"MAC", .cls ['X', 'L', 'H']),
  (c!"MAT", .cls ['X', 'N', 'P']),
  (c!"MPR", .cls ['X', 'N', 'L', 'H']),
  (c!"MUI", .cls ['X', 'N', 'P', 'A']),
  (c!"MVC", .cls ['X', 'N', 'L', 'H']),
  (c!"MVI", .cls ['X', 'N', 'L', 'H']),
  (c!"MVA", .cls ['X', 'N', 'L', 'H']),
  (c!"MSC", .cls ['X', 'N', 'L', 'H']),
  (c!"MSI", .cls ['X', 'N', 'L', 'H', 'S']),
  (c!"MSA", .cls ['X', 'N', 'L', 'H', 'S']),
  (c!"S", .cls ['X', 'N', 'P']),
  (c!"AU", .cls ['X', 'N', 'Y']),
  (c!"R", .cls ['X', 'A', 'U', 'I']),
  (c!"V", .cls ['X', 'D', 'C']),
  (c!"RE", .cls ['X', 'L', 'M', 'H']),
  (c!"U", Re.alts [Re.lit c!"X", Re.lit c!"Clear", Re.lit c!"Green", Re.lit c!"Amber", Re.lit c!"Red"])]

/-- `/metric:value-regex` as a list of sequence components -/
def mandRe (r : Str × Re) : List Re := .chr '/' :: (r.1.map .chr ++ [.chr ':', r.2])

/-- `(/metric:value-regex)?` -/
def optRe (r : Str × Re) : Re := Re.opt (Re.seqs (mandRe r))

/-- the frozen pattern is the one described by the rows -/
theorem pattern40_eq :
    pattern40 =
      Re.seqs (c!"CVSS:4.0".map .chr ++ (mandRows.flatMap mandRe ++ optRows.map optRe)) := by
  decide +kernel

/-! ### generic lemmas on rows; `g` is the emission function metric ↦ optional field -/

theorem matches_field (r : Str × Re) (v : Str) (h : Matches r.2 v) :
    Matches (Re.seqs (mandRe r)) ('/' :: (r.1 ++ ':' :: v)) := by
  unfold mandRe
  apply matches_chr_cons
  apply matches_lit_append
  exact matches_chr_cons (l := [r.2]) ':' h

theorem matches_mand_rows (g : Str → Option Str) (rows : List (Str × Re))
    (h : ∀ r ∈ rows, ∃ v, g r.1 = some (r.1 ++ ':' :: v) ∧ Matches r.2 v) :
    Matches (Re.seqs (rows.flatMap mandRe))
      (((rows.map (·.1)).filterMap g).map ('/' :: ·)).flatten := by
  induction rows with
  | nil => exact .eps
  | cons r rows ih =>
    obtain ⟨v, hg, hv⟩ := h r (by simp)
    simp only [List.flatMap_cons, List.map_cons, List.filterMap_cons, hg, List.flatten_cons]
    exact matches_seqs_append (matches_field r v hv)
      (ih fun r' hr' => h r' (List.mem_cons_of_mem _ hr'))

theorem matches_opt_rows (g : Str → Option Str) (rows : List (Str × Re))
    (h : ∀ r ∈ rows, ∀ f, g r.1 = some f → ∃ v, f = r.1 ++ ':' :: v ∧ Matches r.2 v) :
    Matches (Re.seqs (rows.map optRe))
      (((rows.map (·.1)).filterMap g).map ('/' :: ·)).flatten := by
  induction rows with
  | nil => exact .eps
  | cons r rows ih =>
    have ih' := ih fun r' hr' => h r' (List.mem_cons_of_mem _ hr')
    simp only [List.map_cons, List.filterMap_cons]
    cases hg : g r.1 with
    | none =>
      simp only
      exact matches_seqs_cons_mk (s1 := []) (Matches.altR .eps) ih'
    | some f =>
      obtain ⟨v, rfl, hv⟩ := h r (by simp) f hg
      simp only [List.map_cons, List.flatten_cons]
      exact matches_seqs_cons_mk (Matches.altL (matches_field r v hv)) ih'

/-! ### the clean vector -/

/-- what `cleanOf` emits for one metric -/
def emit (m : MMap) (k : Str) : Option Str :=
  match lookup k m with
  | some v => if v ≠ V4.X then some (k ++ ':' :: v) else none
  | none => none

theorem cleanOf_eq (m : MMap) :
    V4.cleanOf m true = V4.pfx ++ join '/' ((keys Gen.V4.abbrs).filterMap (emit m)) := rfl

/-- every legal value of the row's metric matches the row's value regex (and, for a mandatory row,
    is not `X`) -/
def valuesOk (strict : Bool) (r : Str × Re) : Bool :=
  match lookup r.1 V4.tables.legal with
  | some vs => vs.all (fun v => (!strict || decide (v ≠ V4.X)) && fullMatch r.2 v)
  | none => false

theorem rows_ok :
    (mandRows.all (valuesOk true) && optRows.all (valuesOk false) &&
      mandRows.all (fun r => decide (r.1 ∈ V4.tables.mandatory))) = true := by
  decide +kernel

/-- the emission order of the library (`METRICS_ABBREVIATIONS`) is the order of the official pattern -/
theorem order_ok : keys Gen.V4.abbrs = mandRows.map (·.1) ++ optRows.map (·.1) := by
  decide +kernel

theorem clean_matches (m : MMap)
    (hl : ∀ k v, lookup k m = some v → ∃ vs, lookup k V4.tables.legal = some vs ∧ v ∈ vs)
    (hm : ∀ k ∈ V4.tables.mandatory, ∃ v, lookup k m = some v) :
    Matches pattern40 (V4.cleanOf m true) := by
  have hok := rows_ok
  simp only [Bool.and_eq_true, List.all_eq_true, decide_eq_true_eq] at hok
  obtain ⟨⟨hmand, hopt⟩, hmem⟩ := hok
  -- mandatory rows
  have hA : ∀ r ∈ mandRows, ∃ v, emit m r.1 = some (r.1 ++ ':' :: v) ∧ Matches r.2 v := by
    intro r hr
    obtain ⟨v, hv⟩ := hm r.1 (hmem r hr)
    obtain ⟨vs, hvs, hin⟩ := hl _ _ hv
    have h1 := hmand r hr
    unfold valuesOk at h1
    rw [hvs] at h1
    have h2 := List.all_eq_true.1 h1 v hin
    simp only [Bool.not_true, Bool.false_or, Bool.and_eq_true, decide_eq_true_eq] at h2
    refine ⟨v, ?_, (fullMatch_iff_matches _ _).1 h2.2⟩
    unfold emit
    rw [hv]
    simp [h2.1]
  -- optional rows
  have hB : ∀ r ∈ optRows, ∀ f, emit m r.1 = some f → ∃ v, f = r.1 ++ ':' :: v ∧ Matches r.2 v := by
    intro r hr f hf
    unfold emit at hf
    split at hf
    · rename_i v hv
      split at hf
      · cases hf
        obtain ⟨vs, hvs, hin⟩ := hl _ _ hv
        have h1 := hopt r hr
        unfold valuesOk at h1
        rw [hvs] at h1
        have h2 := List.all_eq_true.1 h1 v hin
        simp only [Bool.not_false, Bool.true_or, Bool.true_and] at h2
        exact ⟨v, rfl, (fullMatch_iff_matches _ _).1 h2⟩
      · cases hf
    · cases hf
  -- the emitted list is non-empty
  have hne : (keys Gen.V4.abbrs).filterMap (emit m) ≠ [] := by
    obtain ⟨v, hv, -⟩ := hA (c!"AV", .cls ['N', 'A', 'L', 'P']) (by simp [mandRows])
    exact List.ne_nil_of_mem (List.mem_filterMap.2 ⟨c!"AV", by decide, hv⟩)
  have hstr : V4.cleanOf m true =
      c!"CVSS:4.0" ++ ((((mandRows.map (·.1)).filterMap (emit m)).map ('/' :: ·)).flatten ++
        (((optRows.map (·.1)).filterMap (emit m)).map ('/' :: ·)).flatten) := by
    rw [cleanOf_eq]
    have : V4.pfx ++ join '/' ((keys Gen.V4.abbrs).filterMap (emit m)) =
        c!"CVSS:4.0" ++ ('/' :: join '/' ((keys Gen.V4.abbrs).filterMap (emit m))) := rfl
    rw [this, sep_cons_join _ _ hne, order_ok, List.filterMap_append, List.map_append,
      List.flatten_append]
  rw [hstr, pattern40_eq]
  exact matches_lit_append _
    (matches_seqs_append (matches_mand_rows _ _ hA) (matches_opt_rows _ _ hB))

end Cvss.Spec.Regex
