/-
  Robustness of `roundup (min · 10)` and of the `≤ 0` test against small perturbations
  (arithmetic part of C19): decidable margin tests and the lemmas that exploit them.
-/
import Cvss.Basic
import Cvss.Spec.V3
import Cvss.Lemmas.Num3
import Mathlib.Tactic.Linarith
import Mathlib.Tactic.NormNum
import Mathlib.Tactic.Ring
namespace Cvss.Lemmas.Robust
open Cvss Cvss.Spec.V3

/-- characterisation of the ceiling by its two defining inequalities -/
theorem ceil_eq_of {x : Rat} {c : Int} (h1 : (c : Rat) - 1 < x) (h2 : x ≤ c) : x.ceil = c := by
  apply le_antisymm
  · exact Rat.ceil_le_iff.2 h2
  · have h : (c - 1 : Int) < x.ceil := Rat.lt_ceil_iff.2 (by push_cast; exact h1)
    omega

/-- margin test for the argument `y` of `roundup (min y 10)`: either `y` is beyond the cap by at least
    2·10⁻⁷, or it is below the cap by at least 2·10⁻⁷ and `10·y` is at distance ≥ 1.1·10⁻⁶ from the two
    neighbouring integers `⌈10y⌉ - 1` and `⌈10y⌉` -/
def okY (y : Rat) : Bool :=
  decide (10 + 2 / 10000000 ≤ y) ||
  (decide (y ≤ 10 - 2 / 10000000) && decide (11 / 10000000 ≤ ((y * 10).ceil : Rat) - y * 10)
    && decide (11 / 10000000 ≤ y * 10 - (((y * 10).ceil : Rat) - 1)))

/-- under the margin test, moving `y` by at most 1.08·10⁻⁷ does not change `roundup (min y 10)` -/
theorem roundup_min_stable {y δ : Rat} (h : okY y = true)
    (h1 : -(108 / 1000000000) ≤ δ) (h2 : δ ≤ 108 / 1000000000) :
    roundup (min (y + δ) 10) = roundup (min y 10) := by
  unfold okY at h
  simp only [Bool.or_eq_true, Bool.and_eq_true, decide_eq_true_eq] at h
  rcases h with h | ⟨⟨ha, hb⟩, hc⟩
  · rw [min_eq_right (by linarith), min_eq_right (by linarith)]
  · rw [min_eq_left (by linarith), min_eq_left (by linarith)]
    unfold roundup
    have : ((y + δ) * 10).ceil = (y * 10).ceil := by
      apply ceil_eq_of
      · linarith
      · linarith
    rw [this]

/-- margin test for the pair (impact sub-score, exploitability sub-score) when Scope is Changed:
    the impact is at least 2·10⁻⁷ away from 0 and, when positive, `1.08·(imp + e)` passes `okY` -/
def okPair (imp e : Rat) : Bool :=
  decide (imp ≤ -(2 / 10000000)) ||
  (decide (2 / 10000000 ≤ imp) && okY (r 108 100 * (imp + e)))

/-- the shape shared by the Changed-scope branches of the v3 base and environmental equations is
    insensitive to a perturbation of the impact by at most 10⁻⁷ -/
theorem core_robust {imp e ε : Rat} (h : okPair imp e = true)
    (h1 : -(1 / 10000000) ≤ ε) (h2 : ε ≤ 1 / 10000000) (F : Rat → Rat) :
    (if imp + ε ≤ 0 then (0 : Rat) else F (roundup (min (r 108 100 * (imp + ε + e)) 10))) =
    (if imp ≤ 0 then (0 : Rat) else F (roundup (min (r 108 100 * (imp + e)) 10))) := by
  unfold okPair at h
  simp only [Bool.or_eq_true, Bool.and_eq_true, decide_eq_true_eq] at h
  rcases h with h | ⟨ha, hb⟩
  · rw [if_pos (by linarith), if_pos (by linarith)]
  · rw [if_neg (by linarith), if_neg (by linarith)]
    have hr : r 108 100 = 108 / 100 := by
      unfold r; rw [Num3.mkRat_eq]; norm_num
    have e1 : r 108 100 * (imp + ε + e) = r 108 100 * (imp + e) + 108 / 100 * ε := by
      rw [hr]; ring
    rw [e1, roundup_min_stable hb (by linarith) (by linarith)]

end Cvss.Lemmas.Robust
