/-
  Numeric facts for C02 (CVSS v4.0): EPSILON-robustness of half-up rounding, denominator bound of
  the interpolated score, range of the rounded score.
-/
import Mathlib.Tactic.Linarith
import Mathlib.Tactic.NormNum
import Mathlib.Tactic.Positivity
import Mathlib.Tactic.FieldSimp
import Mathlib.Tactic.Ring
import Mathlib.Algebra.Order.Floor.Ring
import Mathlib.Data.Rat.Floor
import Mathlib.Data.Rat.Lemmas
import Cvss.Lemmas.Num
namespace Cvss.Lemmas.Num4
open Cvss Cvss.Lemmas.Num

/-- a rational below an integer bound stays below it after adding less than `1/den` -/
theorem floor_add_small (y ε : ℚ) (h0 : 0 ≤ ε) (h1 : ε * y.den < 1) : ⌊y + ε⌋ = ⌊y⌋ := by
  rw [Int.floor_eq_iff]
  have hfl := Int.floor_le y
  have hlt := Int.lt_floor_add_one y
  refine ⟨by linarith, ?_⟩
  have hdpos : (0 : ℚ) < y.den := by exact_mod_cast y.den_pos
  have hy : y = (y.num : ℚ) / (y.den : ℚ) := (Rat.num_div_den y).symm
  -- num < (⌊y⌋+1) * den as integers
  have h2 : (y.num : ℚ) < ((⌊y⌋ + 1 : ℤ) : ℚ) * (y.den : ℚ) := by
    have : y * y.den < (⌊y⌋ + 1 : ℚ) * y.den := mul_lt_mul_of_pos_right hlt hdpos
    rw [Rat.mul_den_eq_num] at this
    push_cast; exact this
  have h3 : y.num < (⌊y⌋ + 1) * (y.den : ℤ) := by exact_mod_cast h2
  have h4 : y.num + 1 ≤ (⌊y⌋ + 1) * (y.den : ℤ) := h3
  have h5 : (y.num : ℚ) + 1 ≤ ((⌊y⌋ : ℚ) + 1) * (y.den : ℚ) := by exact_mod_cast h4
  have h6 : y * y.den + 1 ≤ ((⌊y⌋ : ℚ) + 1) * (y.den : ℚ) := by rw [Rat.mul_den_eq_num]; exact h5
  -- (y + ε) * den < (⌊y⌋+1) * den
  have h7 : (y + ε) * y.den < ((⌊y⌋ : ℚ) + 1) * (y.den : ℚ) := by
    have : (y + ε) * y.den = y * y.den + ε * y.den := by ring
    rw [this]; linarith
  exact lt_of_mul_lt_mul_right h7 hdpos.le

theorem roundHalfUp_eps (x δ : ℚ) (hx : 0 ≤ x) (hd : (x * 10 + 1 / 2).den < 100000)
    (h0 : 0 ≤ δ) (h1 : δ ≤ 1 / 1000000) :
    roundHalfUp1 (x + δ) = ((x * 10 + 1 / 2).floor : ℚ) / 10 := by
  unfold roundHalfUp1
  rw [if_pos (by linarith)]
  rw [rat_floor_eq, rat_floor_eq]
  have : (x + δ) * 10 + 1 / 2 = (x * 10 + 1 / 2) + δ * 10 := by ring
  rw [this, floor_add_small _ _ (by linarith)]
  have hd' : ((x * 10 + 1 / 2).den : ℚ) < 100000 := by exact_mod_cast hd
  have hdpos : (0 : ℚ) < (x * 10 + 1 / 2).den := by exact_mod_cast (x * 10 + 1 / 2).den_pos
  nlinarith


/-- if `q * M` is an integer then the denominator of `q` is at most `M` -/
theorem den_le_of_mul_int (q : ℚ) (M : ℕ) (hM : 0 < M) (N : ℤ) (h : q * (M : ℚ) = (N : ℚ)) :
    q.den ≤ M := by
  have hMq : (M : ℚ) ≠ 0 := by exact_mod_cast hM.ne'
  have hq : q = Rat.divInt N (M : ℤ) := by
    rw [Rat.divInt_eq_div]; push_cast; field_simp; exact h
  have h1 : ((Rat.divInt N (M : ℤ)).den : ℤ) ∣ (M : ℤ) := Rat.den_dvd N M
  rw [← hq] at h1
  have h2 : q.den ∣ M := by exact_mod_cast h1
  exact Nat.le_of_dvd hM h2

/-- ten times the interpolated value plus one half is a fraction over `2·n·D₁·D₂·D₃·D₄` -/
theorem raw_mul_int (v t1 t2 t3 t4 : ℚ) (V T1 T2 T3 T4 : ℤ) (D1 D2 D3 D4 n : ℕ)
    (hv : v * 10 = V) (h1 : t1 * (10 * D1) = T1) (h2 : t2 * (10 * D2) = T2)
    (h3 : t3 * (10 * D3) = T3) (h4 : t4 * (10 * D4) = T4) (hn : n ≠ 0) :
    ∃ N : ℤ, ((v - (t1 + t2 + t3 + t4 + 0) / n) * 10 + 1 / 2) * ((2 * n * D1 * D2 * D3 * D4 : ℕ) : ℚ)
      = (N : ℚ) := by
  refine ⟨2 * n * D1 * D2 * D3 * D4 * V
    - 2 * (T1 * D2 * D3 * D4 + T2 * D1 * D3 * D4 + T3 * D1 * D2 * D4 + T4 * D1 * D2 * D3)
    + n * D1 * D2 * D3 * D4, ?_⟩
  have hnq : (n : ℚ) ≠ 0 := by exact_mod_cast hn
  push_cast
  rw [← hv, ← h1, ← h2, ← h3, ← h4]
  field_simp
  ring

/-- the clamped value inherits the denominator bound -/
theorem den_clamp (x : ℚ) (B : ℕ) (hB : 2 ≤ B) (hx : (x * 10 + 1 / 2).den ≤ B) :
    (max 0 (min 10 x) * 10 + 1 / 2).den ≤ B := by
  have h0 : ((0 : ℚ) * 10 + 1 / 2).den ≤ 2 :=
    den_le_of_mul_int _ 2 (by norm_num) 1 (by norm_num)
  have h10 : ((10 : ℚ) * 10 + 1 / 2).den ≤ 2 :=
    den_le_of_mul_int _ 2 (by norm_num) 201 (by norm_num)
  rcases max_cases (0 : ℚ) (min 10 x) with ⟨h, _⟩ | ⟨h, _⟩
  · rw [h]; omega
  · rw [h]
    rcases min_cases (10 : ℚ) x with ⟨h', _⟩ | ⟨h', _⟩
    · rw [h']; omega
    · rw [h']; exact hx

/-- half-up rounding of a value in [0, 10] is a whole number of tenths between 0 and 100 -/
theorem round_range (y : ℚ) (h0 : 0 ≤ y) (h10 : y ≤ 10) :
    ∃ k : ℕ, k ≤ 100 ∧ (((y * 10 + 1 / 2).floor : ℤ) : ℚ) / 10 = (k : ℚ) / 10 := by
  rw [rat_floor_eq]
  have hnn : (0 : ℤ) ≤ ⌊y * 10 + 1 / 2⌋ := Int.floor_nonneg.mpr (by linarith)
  have h1 : ((⌊y * 10 + 1 / 2⌋ : ℤ) : ℚ) ≤ y * 10 + 1 / 2 := Int.floor_le _
  have h2 : ((⌊y * 10 + 1 / 2⌋ : ℤ) : ℚ) < ((101 : ℤ) : ℚ) := by push_cast; linarith
  have h3 := Int.cast_lt.mp h2
  refine ⟨⌊y * 10 + 1 / 2⌋.toNat, by omega, ?_⟩
  have hc : ((⌊y * 10 + 1 / 2⌋.toNat : ℤ) : ℚ) = ((⌊y * 10 + 1 / 2⌋ : ℤ) : ℚ) := by
    rw [Int.toNat_of_nonneg hnn]
  rw [← hc]; push_cast; rfl

end Cvss.Lemmas.Num4
