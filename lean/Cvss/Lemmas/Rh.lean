/-
  Helper lemmas for C12 (Red Hat notation) and C09 (well-formed scores): splitting at the first
  separator, the printed score, the tenths of a representable score, and the range of the scores of a
  constructed object.
-/
import Mathlib.Tactic.Linarith
import Mathlib.Tactic.NormNum
import Mathlib.Algebra.Order.Floor.Ring
import Mathlib.Data.Rat.Floor
import Cvss.Model.Any
import Cvss.Lemmas.Num
import Cvss.Lemmas.Construct
namespace Cvss.Lemmas.Rh
open Cvss Cvss.Model Cvss.Props Cvss.Lemmas.Construct

/-! ### `splitFirst` -/

theorem splitFirst_iff (sep : Char) (text a b : Str) :
    splitFirst sep text = some (a, b) ↔ text = a ++ sep :: b ∧ sep ∉ a := by
  induction text generalizing a b with
  | nil => simp [splitFirst]
  | cons c cs ih =>
    unfold splitFirst
    by_cases hc : c = sep
    · subst hc
      simp only [if_true, Option.some.injEq, Prod.mk.injEq]
      constructor
      · rintro ⟨rfl, rfl⟩; simp
      · rintro ⟨h, hn⟩
        cases a with
        | nil => simp at h; exact ⟨rfl, h⟩
        | cons x xs =>
          simp only [List.cons_append, List.cons.injEq] at h
          exact absurd (h.1 ▸ List.mem_cons_self) hn
    · simp only [if_neg hc]
      cases hs : splitFirst sep cs with
      | none =>
        simp only [reduceCtorEq, false_iff]
        rintro ⟨h, hn⟩
        cases a with
        | nil => simp only [List.nil_append, List.cons.injEq] at h; exact hc h.1
        | cons x xs =>
          simp only [List.cons_append, List.cons.injEq] at h
          have := (ih xs b).2 ⟨h.2, fun hm => hn (List.mem_cons_of_mem _ hm)⟩
          rw [hs] at this; cases this
      | some p =>
        obtain ⟨a', b'⟩ := p
        have ih' := ih a' b'
        rw [hs] at ih'
        obtain ⟨e1, e2⟩ := ih'.1 rfl
        simp only [Option.some.injEq, Prod.mk.injEq]
        constructor
        · rintro ⟨rfl, rfl⟩
          refine ⟨by rw [e1]; rfl, ?_⟩
          intro hm
          rcases List.mem_cons.1 hm with h | h
          · exact hc h.symm
          · exact e2 h
        · rintro ⟨h, hn⟩
          cases a with
          | nil => simp only [List.nil_append, List.cons.injEq] at h; exact absurd h.1 hc
          | cons x xs =>
            simp only [List.cons_append, List.cons.injEq] at h
            have := (ih xs b).2 ⟨h.2, fun hm => hn (List.mem_cons_of_mem _ hm)⟩
            rw [hs] at this
            simp only [Option.some.injEq, Prod.mk.injEq] at this
            exact ⟨by rw [h.1, this.1], this.2⟩

theorem splitFirst_none_iff (sep : Char) (text : Str) : splitFirst sep text = none ↔ sep ∉ text := by
  induction text with
  | nil => simp [splitFirst]
  | cons c cs ih =>
    unfold splitFirst
    by_cases hc : c = sep
    · subst hc; simp
    · simp only [if_neg hc]
      cases hs : splitFirst sep cs with
      | none =>
        simp only [true_iff]
        intro hm
        rcases List.mem_cons.1 hm with h | h
        · exact hc h.symm
        · exact (ih.1 hs) h
      | some p =>
        obtain ⟨a', b'⟩ := p
        simp only [reduceCtorEq, false_iff, not_not]
        have : sep ∈ cs := by
          by_contra hn
          have := ih.2 hn
          rw [hs] at this; cases this
        exact List.mem_cons_of_mem _ this

/-- splitting a text built with a separator-free first part gives the parts back -/
theorem splitFirst_append (sep : Char) (a b : Str) (h : sep ∉ a) :
    splitFirst sep (a ++ sep :: b) = some (a, b) :=
  (splitFirst_iff sep _ a b).2 ⟨rfl, h⟩

/-! ### the printed score -/

theorem natToStr_no_slash (n : Nat) : '/' ∉ natToStr n := by
  intro h
  have := Nat.isDigit_of_mem_toDigits (b := 10) (by decide) (by decide) h
  revert this
  decide

theorem showScore_no_slash (x : Rat) : '/' ∉ showScore x := by
  unfold showScore
  simp only [List.mem_append, List.mem_cons, not_or]
  exact ⟨natToStr_no_slash _, by decide, natToStr_no_slash _⟩

/-! ### tenths -/

theorem tenths_of_nat (k : Nat) : (((k : Rat) / 10) * 10).floor.toNat = k := by
  have h : ((k : Rat) / 10) * 10 = ((k : Int) : Rat) := by
    push_cast
    field_simp
  rw [h, Num.rat_floor_eq, Int.floor_intCast]
  simp

/-! ### v2: a parsed map gives a legal assignment -/

/-- finite check: every value the library accepts for a metric has a weight in the guide's row of that
    metric, and the guide's rows of the optional metrics have the key "ND" -/
def legalCheck : Bool :=
  Spec.V2.weights.all (fun p =>
    (decide (p.1 ∈ V2.tables.mandatory) || (lookup V2.ND p.2).isSome) &&
    match lookup p.1 V2.tables.legal with
    | none => true
    | some vs => vs.all (fun v => (lookup v p.2).isSome))

theorem legal_check : legalCheck = true := by decide +kernel

theorem legal_of_valid {m : MMap} (hv : C03.ValidMap m) : C03.LegalAssignment (assignment V2.ND m) := by
  intro p hp
  have h := List.all_eq_true.mp legal_check p hp
  simp only [Bool.and_eq_true, Bool.or_eq_true, decide_eq_true_eq] at h
  obtain ⟨h1, h2⟩ := h
  unfold assignment
  cases hk : lookup p.1 m with
  | none =>
    simp only [Option.getD_none]
    rcases h1 with h1 | h1
    · have := hv.2 _ h1
      rw [hk] at this; cases this
    · exact h1
  | some v =>
    simp only [Option.getD_some]
    obtain ⟨vs, hvs, hmem⟩ := hv.1 _ _ hk
    rw [hvs] at h2
    exact List.all_eq_true.mp h2 v hmem

/-- the scores of a constructed v2 object are representable one-decimal scores -/
theorem v2_obj_range {s : Str} {o : V2.Obj} (h : V2.construct s = .ok o) :
    C03.IsScore o.base ∧ (∀ x, o.temporal = some x → C03.IsScore x) ∧
      (∀ x, o.env = some x → C03.IsScore x) := by
  obtain ⟨m, hp, rfl⟩ := (v2_construct_ok_iff s o).1 h
  exact C03.v2_spec_range _ (legal_of_valid (validMap2_of_parse hp))

/-- the scores of a constructed v3 object are representable one-decimal scores -/
theorem v3_obj_range {s : Str} {o : V3.Obj} (h : V3.construct s = .ok o) :
    C01.IsScore o.base ∧ C01.IsScore o.temporal ∧ C01.IsScore o.env := by
  obtain ⟨i, m, hp, hb⟩ := (v3_construct_ok_iff s o).1 h
  obtain ⟨o0, hb0, -, -, -, h4, h5, h6, -⟩ := C01.v3_build_eq_spec s i m (validMap3_of_parse hp)
  rw [hb] at hb0
  cases hb0
  rw [h4, h5, h6]
  exact C01.v3_spec_range i _

end Cvss.Lemmas.Rh
