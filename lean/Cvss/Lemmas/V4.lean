/-
  Helper lemmas for C02 (CVSS v4.0 scoring): association lists, `add_missing_optional`,
  effective values, macrovector, table look-ups.
-/
import Mathlib.Tactic.Linarith
import Mathlib.Tactic.NormNum
import Cvss.Lemmas.Num
import Cvss.Lemmas.Str
import Cvss.Lemmas.V2
import Cvss.Model.V4
import Cvss.Spec.V4
namespace Cvss.Lemmas.V4
open Cvss Cvss.Model Cvss.Lemmas.Num
open Cvss.Lemmas.V2 (lookup_mem lookup_map_keys lookup_of_mem_keys)

/-! ### association lists -/

theorem lookup_insert {α β : Type} [DecidableEq α] (k a : α) (v : β) (l : List (α × β)) :
    lookup k (insert a v l) = if k = a then some v else lookup k l := by
  induction l with
  | nil => simp [insert, lookup]
  | cons p r ih =>
    obtain ⟨a', b'⟩ := p
    simp only [insert]
    by_cases h : a = a'
    · subst h
      simp only [if_true, lookup]
      by_cases h2 : k = a <;> simp [h2]
    · simp only [if_neg h, lookup, ih]
      by_cases h2 : k = a'
      · have : k ≠ a := fun h3 => h (h3 ▸ h2)
        simp [h2]
        intro h4; exact absurd h4.symm h
      · simp [h2]

theorem lookup_append {α β : Type} [DecidableEq α] (k : α) (l1 l2 : List (α × β)) :
    lookup k (l1 ++ l2) = match lookup k l1 with | some v => some v | none => lookup k l2 := by
  induction l1 with
  | nil => simp [lookup]
  | cons p r ih =>
    obtain ⟨a, b⟩ := p
    simp only [List.cons_append, lookup]
    split
    · rfl
    · exact ih

theorem lookup_map_val {α β γ : Type} [DecidableEq α] (g : β → γ) (k : α) (l : List (α × β)) :
    lookup k (l.map fun p => (p.1, g p.2)) = (lookup k l).map g := by
  induction l with
  | nil => rfl
  | cons p r ih =>
    obtain ⟨a, b⟩ := p
    simp only [List.map_cons, lookup]
    split
    · rfl
    · exact ih

theorem mem_keys_of_lookup {α β : Type} [DecidableEq α] {k : α} {l : List (α × β)} {v : β}
    (h : lookup k l = some v) : k ∈ keys l := by
  have := lookup_mem h
  exact List.mem_map.mpr ⟨(k, v), this, rfl⟩

theorem lookup_none_of_not_mem {α β : Type} [DecidableEq α] {k : α} {l : List (α × β)}
    (h : k ∉ keys l) : lookup k l = none := by
  cases hl : lookup k l with
  | none => rfl
  | some v => exact absurd (mem_keys_of_lookup hl) h

/-! ### `add_missing_optional` -/

theorem fillModified_spec (L : List Str) : ∀ (m : MMap),
    L.Nodup → (∀ a ∈ L, a.drop 1 ∉ L) → (∀ a ∈ L, (lookup (a.drop 1) m).isSome) →
    ∃ m1, V4.fillModified m L = some m1 ∧
      ∀ k, lookup k m1 =
        if k ∈ L ∧ (lookup k m = none ∨ lookup k m = some V4.X) then lookup (k.drop 1) m
        else lookup k m := by
  induction L with
  | nil => intro m _ _ _; exact ⟨m, rfl, by simp⟩
  | cons a rest ih =>
    intro m hnd hdrop hbase
    have hnd' := (List.nodup_cons.mp hnd)
    have hdrop' : ∀ a' ∈ rest, a'.drop 1 ∉ rest := fun a' ha' hmem =>
      hdrop a' (List.mem_cons_of_mem _ ha') (List.mem_cons_of_mem _ hmem)
    obtain ⟨b, hb⟩ := Option.isSome_iff_exists.mp (hbase a List.mem_cons_self)
    by_cases hneeds : lookup a m = none ∨ lookup a m = some V4.X
    · -- the Modified metric is filled from its base metric
      have hstep : V4.fillModified m (a :: rest) = V4.fillModified (insert a b m) rest := by
        rw [V4.fillModified]
        rcases hneeds with h | h
        · simp [-List.drop_one, h, hb]
        · simp [-List.drop_one, h, hb]
      have hbase' : ∀ a' ∈ rest, (lookup (a'.drop 1) (insert a b m)).isSome := by
        intro a' ha'
        rw [lookup_insert]
        have hne : a'.drop 1 ≠ a := fun h =>
          hdrop a' (List.mem_cons_of_mem _ ha') (h ▸ List.mem_cons_self)
        rw [if_neg hne]
        exact hbase a' (List.mem_cons_of_mem _ ha')
      obtain ⟨m1, hm1, hlk⟩ := ih (insert a b m) hnd'.2 hdrop' hbase'
      refine ⟨m1, hstep.trans hm1, ?_⟩
      intro k
      rw [hlk k]
      by_cases hka : k = a
      · subst hka
        have : k ∉ rest := hnd'.1
        simp [-List.drop_one, this, lookup_insert, hneeds, hb]
      · have hdk : k ∈ rest → k.drop 1 ≠ a := fun hk h =>
          hdrop k (List.mem_cons_of_mem _ hk) (h ▸ List.mem_cons_self)
        simp only [lookup_insert, List.mem_cons, hka, false_or]
        by_cases hkr : k ∈ rest
        · simp [-List.drop_one, hkr, hdk hkr]
        · simp [hkr]
    · have hstep : V4.fillModified m (a :: rest) = V4.fillModified m rest := by
        rw [V4.fillModified]
        cases hl : lookup a m with
        | none => exact absurd (Or.inl hl) hneeds
        | some v =>
          have : v ≠ V4.X := fun h => hneeds (Or.inr (by rw [hl, h]))
          simp [this]
      obtain ⟨m1, hm1, hlk⟩ := ih m hnd'.2 hdrop'
        (fun a' ha' => hbase a' (List.mem_cons_of_mem _ ha'))
      refine ⟨m1, hstep.trans hm1, ?_⟩
      intro k
      rw [hlk k]
      by_cases hka : k = a
      · subst hka
        have : k ∉ rest := hnd'.1
        simp [this, hneeds]
      · simp [hka]

theorem fillDefaults_spec (L : List Str) : ∀ (m : MMap) (k : Str),
    lookup k (V4.fillDefaults m L) =
      if k ∈ L ∧ lookup k m = none then some V4.X else lookup k m := by
  induction L with
  | nil => intro m k; simp [V4.fillDefaults]
  | cons a rest ih =>
    intro m k
    rw [V4.fillDefaults]
    by_cases hk : hasKey a m = true
    · rw [if_pos hk, ih]
      by_cases hka : k = a
      · subst hka
        have : lookup k m ≠ none := by
          unfold hasKey at hk
          intro h; rw [h] at hk; simp at hk
        simp [this]
      · simp [hka]
    · rw [if_neg hk, ih, lookup_insert]
      have hnone : lookup a m = none := by
        unfold hasKey at hk
        cases h : lookup a m with
        | none => rfl
        | some v => rw [h] at hk; simp at hk
      by_cases hka : k = a
      · subst hka; simp [hnone]
      · simp [hka]


/-! ### the completed metric map -/

/-- `ValidMap` of C02 -/
def Valid (m : MMap) : Prop :=
  (∀ k v, lookup k m = some v → ∃ vs, lookup k V4.tables.legal = some vs ∧ v ∈ vs) ∧
  (∀ k ∈ V4.tables.mandatory, (lookup k m).isSome)

/-- look-up in the map completed by `add_missing_optional`, in terms of the original map -/
def fullLookup (m : MMap) (k : Str) : Option Str :=
  let l1 := if k ∈ V4.modifiedMetrics ∧ (lookup k m = none ∨ lookup k m = some V4.X)
    then lookup (k.drop 1) m else lookup k m
  if k ∈ V4.defaultedMetrics ∧ l1 = none then some V4.X else l1

theorem full_spec (m : MMap) (hv : Valid m) :
    ∃ m1, V4.fillModified m V4.modifiedMetrics = some m1 ∧
      ∀ k, lookup k (V4.fillDefaults m1 V4.defaultedMetrics) = fullLookup m k := by
  obtain ⟨m1, h1, h2⟩ := fillModified_spec V4.modifiedMetrics m (by decide) (by decide)
    (fun a ha => hv.2 _ ((by decide : ∀ a ∈ V4.modifiedMetrics, a.drop 1 ∈ V4.tables.mandatory) a ha))
  refine ⟨m1, h1, fun k => ?_⟩
  rw [fillDefaults_spec, h2 k]
  rfl

/-- legal values of a metric -/
def legalOf (k : Str) : List Str := (lookup k V4.tables.legal).getD []

theorem valid_legal {m : MMap} (hv : Valid m) {k v : Str} (h : lookup k m = some v) : v ∈ legalOf k := by
  obtain ⟨vs, h1, h2⟩ := hv.1 k v h
  unfold legalOf; rw [h1]; exact h2

theorem valid_none {m : MMap} (hv : Valid m) {k : Str} (h : lookup k V4.tables.legal = none) :
    lookup k m = none := by
  cases hl : lookup k m with
  | none => rfl
  | some v => obtain ⟨vs, h1, _⟩ := hv.1 k v hl; rw [h] at h1; cases h1

/-- the metrics whose undefined value has a default effective value -/
def dfltMetrics : List Str := [c!"CR", c!"IR", c!"AR", c!"E"]

/-- candidate effective values of a scoring metric -/
def effCands (k : Str) : List Str :=
  if k ∈ Gen.V4.mandatory then legalOf k ++ (legalOf ('M' :: k)).filter (· ≠ V4.X)
  else (if k = c!"E" then c!"A" else c!"H") :: (legalOf k).filter (· ≠ V4.X)

section eff
variable {m : MMap} (hv : Valid m)
include hv

/-- base metrics: the completed map's Modified entry is the effective value -/
theorem full_modified {k : Str} (hk : k ∈ Gen.V4.mandatory) :
    fullLookup m ('M' :: k) = some (Spec.V4.eff (assignment V4.X m) k) ∧
    fullLookup m k = lookup k m ∧ (lookup k m).isSome ∧
    Spec.V4.eff (assignment V4.X m) k ∈ effCands k := by
  have hfacts := (by decide : ∀ k ∈ Gen.V4.mandatory,
    k ∉ V4.modifiedMetrics ∧ k ∉ V4.defaultedMetrics ∧ ('M' :: k) ∈ V4.modifiedMetrics ∧
    ('M' :: k) ∉ V4.defaultedMetrics ∧ k ≠ c!"E" ∧ k ≠ c!"CR" ∧ k ≠ c!"IR" ∧ k ≠ c!"AR" ∧
    V4.X ∉ legalOf k) k hk
  obtain ⟨f1, f2, f3, f4, f5, f6, f7, f8, f9⟩ := hfacts
  obtain ⟨v, hkv⟩ := Option.isSome_iff_exists.mp (hv.2 k hk)
  have hvX : v ≠ V4.X := fun h => f9 (h ▸ valid_legal hv hkv)
  have heff : Spec.V4.eff (assignment V4.X m) k =
      if (lookup ('M' :: k) m).getD V4.X ≠ V4.X then (lookup ('M' :: k) m).getD V4.X else v := by
    unfold Spec.V4.eff assignment
    rw [if_neg f5, if_neg (by simp [f6, f7, f8]), hkv]
    rfl
  have hc : effCands k = legalOf k ++ (legalOf ('M' :: k)).filter (· ≠ V4.X) := by
    unfold effCands; rw [if_pos hk]
  refine ⟨?_, ?_, by rw [hkv]; rfl, ?_⟩
  · unfold fullLookup
    simp only [f3, f4, true_and, false_and, if_false, List.drop_succ_cons, List.drop_zero]
    rw [heff]
    cases hM : lookup ('M' :: k) m with
    | none => simp [hkv]
    | some w =>
      by_cases hw : w = V4.X
      · simp [hw, hkv]
      · simp [hw]
  · unfold fullLookup
    simp [f1, f2]
  · rw [heff, hc]
    cases hM : lookup ('M' :: k) m with
    | none => simp [valid_legal hv hkv]
    | some w =>
      by_cases hw : w = V4.X
      · simp [hw, valid_legal hv hkv]
      · simp only [Option.getD_some, ne_eq, hw, not_false_eq_true, if_true]
        exact List.mem_append_right _ (List.mem_filter.mpr ⟨valid_legal hv hM, by simpa using hw⟩)

/-- defaulted scoring metrics (CR, IR, AR, E) -/
theorem full_dflt {k : Str} (hk : k ∈ dfltMetrics) :
    fullLookup m k = some (assignment V4.X m k) ∧ fullLookup m ('M' :: k) = none ∧
    Spec.V4.eff (assignment V4.X m) k =
      (if assignment V4.X m k = V4.X then (if k = c!"E" then c!"A" else c!"H") else assignment V4.X m k) ∧
    Spec.V4.eff (assignment V4.X m) k ∈ effCands k := by
  have hfacts := (by decide : ∀ k ∈ dfltMetrics,
    k ∉ V4.modifiedMetrics ∧ k ∈ V4.defaultedMetrics ∧ ('M' :: k) ∉ V4.modifiedMetrics ∧
    ('M' :: k) ∉ V4.defaultedMetrics ∧ lookup ('M' :: k) V4.tables.legal = none ∧
    k ∉ Gen.V4.mandatory ∧ (k = c!"E" ∨ k = c!"CR" ∨ k = c!"IR" ∨ k = c!"AR")) k hk
  obtain ⟨f1, f2, f3, f4, f5, f6, f7⟩ := hfacts
  have heff : Spec.V4.eff (assignment V4.X m) k =
      (if assignment V4.X m k = V4.X then (if k = c!"E" then c!"A" else c!"H") else assignment V4.X m k) := by
    unfold Spec.V4.eff
    by_cases hE : k = c!"E"
    · rw [if_pos hE, if_pos hE]; rfl
    · rw [if_neg hE, if_neg hE]
      have : k = c!"CR" ∨ k = c!"IR" ∨ k = c!"AR" := by
        rcases f7 with h | h
        · exact absurd h hE
        · exact h
      rw [if_pos this]; rfl
  refine ⟨?_, ?_, heff, ?_⟩
  · unfold fullLookup assignment
    simp only [f1, f2, false_and, true_and, if_false]
    cases lookup k m <;> simp
  · unfold fullLookup
    simp [f3, f4, valid_none hv f5]
  · rw [heff]
    unfold effCands
    rw [if_neg f6]
    by_cases hX : assignment V4.X m k = V4.X
    · rw [if_pos hX]; exact List.mem_cons_self
    · rw [if_neg hX]
      apply List.mem_cons_of_mem
      unfold assignment at hX ⊢
      cases hl : lookup k m with
      | none => rw [hl] at hX; exact absurd rfl hX
      | some w =>
        rw [hl] at hX
        exact List.mem_filter.mpr ⟨valid_legal hv hl, by simpa using hX⟩


theorem eff_E_cases : Spec.V4.eff (assignment V4.X m) c!"E" = c!"A" ∨
    Spec.V4.eff (assignment V4.X m) c!"E" = c!"P" ∨ Spec.V4.eff (assignment V4.X m) c!"E" = c!"U" := by
  have h := (full_dflt hv (k := c!"E") (by decide)).2.2.2
  have hc : effCands c!"E" = [c!"A", c!"A", c!"P", c!"U"] := by decide +kernel
  rw [hc] at h
  simp only [List.mem_cons, List.not_mem_nil, or_false] at h
  tauto

variable {full : MMap} (hfull : ∀ k, lookup k full = fullLookup m k)
include hfull

theorem mEff_base {k : Str} (hk : k ∈ Gen.V4.mandatory) :
    V4.mEff full k = some (Spec.V4.eff (assignment V4.X m) k) := by
  obtain ⟨h1, h2, h3, h4⟩ := full_modified hv hk
  obtain ⟨n1, n2, n3, n4, n5⟩ := (by decide : ∀ k ∈ Gen.V4.mandatory,
    k ≠ c!"E" ∧ k ≠ c!"CR" ∧ k ≠ c!"IR" ∧ k ≠ c!"AR" ∧ V4.X ∉ effCands k) k hk
  have hX : Spec.V4.eff (assignment V4.X m) k ≠ V4.X := fun h => n5 (h ▸ h4)
  unfold V4.mEff
  simp only [n1, n2, n3, n4, false_and, if_false, hfull, h1]
  simp [hX]

theorem mEff_dflt {k : Str} (hk : k ∈ dfltMetrics) :
    V4.mEff full k = some (Spec.V4.eff (assignment V4.X m) k) := by
  obtain ⟨h1, h2, h3, h4⟩ := full_dflt hv hk
  unfold V4.mEff
  simp only [hfull, h1, h2, h3]
  simp only [dfltMetrics, List.mem_cons, List.not_mem_nil, or_false] at hk
  by_cases hX : assignment V4.X m k = V4.X
  · rcases hk with rfl | rfl | rfl | rfl <;> simp [hX]
  · have : ¬ (some (assignment V4.X m k) = some V4.X) := by simpa using hX
    simp [hX]

/-- `m("MSI")`, `m("MSA")` (used by the library's EQ4 test) are the effective SI, SA -/
theorem mEff_modS {k : Str} (hk : k ∈ [c!"SI", c!"SA"]) :
    V4.mEff full ('M' :: k) = some (Spec.V4.eff (assignment V4.X m) k) := by
  obtain ⟨f0, f1, f2, f3, f4, f5, f6, f7⟩ := (by decide : ∀ k ∈ [c!"SI", c!"SA"],
    k ∈ Gen.V4.mandatory ∧
    ('M' :: k) ≠ c!"E" ∧ ('M' :: k) ≠ c!"CR" ∧ ('M' :: k) ≠ c!"IR" ∧ ('M' :: k) ≠ c!"AR" ∧
    ('M' :: 'M' :: k) ∉ V4.modifiedMetrics ∧ ('M' :: 'M' :: k) ∉ V4.defaultedMetrics ∧
    lookup ('M' :: 'M' :: k) V4.tables.legal = none) k hk
  obtain ⟨h1, _, _, _⟩ := full_modified hv f0
  have hMM : fullLookup m ('M' :: 'M' :: k) = none := by
    unfold fullLookup
    simp [f5, f6, valid_none hv f7]
  unfold V4.mEff
  simp only [f1, f2, f3, f4, false_and, if_false, hfull, h1, hMM]


theorem macroVector_eq :
    V4.macroVector full =
      some [(Spec.V4.macroVector (assignment V4.X m)).eq1, (Spec.V4.macroVector (assignment V4.X m)).eq2,
        (Spec.V4.macroVector (assignment V4.X m)).eq3, (Spec.V4.macroVector (assignment V4.X m)).eq4,
        (Spec.V4.macroVector (assignment V4.X m)).eq5, (Spec.V4.macroVector (assignment V4.X m)).eq6] := by
  have eAV := mEff_base hv hfull (k := c!"AV") (by decide)
  have ePR := mEff_base hv hfull (k := c!"PR") (by decide)
  have eUI := mEff_base hv hfull (k := c!"UI") (by decide)
  have eAC := mEff_base hv hfull (k := c!"AC") (by decide)
  have eAT := mEff_base hv hfull (k := c!"AT") (by decide)
  have eVC := mEff_base hv hfull (k := c!"VC") (by decide)
  have eVI := mEff_base hv hfull (k := c!"VI") (by decide)
  have eVA := mEff_base hv hfull (k := c!"VA") (by decide)
  have eSC := mEff_base hv hfull (k := c!"SC") (by decide)
  have eSI := mEff_base hv hfull (k := c!"SI") (by decide)
  have eSA := mEff_base hv hfull (k := c!"SA") (by decide)
  have eMSI := mEff_modS hv hfull (k := c!"SI") (by decide)
  have eMSA := mEff_modS hv hfull (k := c!"SA") (by decide)
  have eCR := mEff_dflt hv hfull (k := c!"CR") (by decide)
  have eIR := mEff_dflt hv hfull (k := c!"IR") (by decide)
  have eAR := mEff_dflt hv hfull (k := c!"AR") (by decide)
  have eE := mEff_dflt hv hfull (k := c!"E") (by decide)
  have hE := eff_E_cases hv
  unfold V4.macroVector Spec.V4.macroVector
  simp only [eAV, ePR, eUI, eAC, eAT, eVC, eVI, eVA, eSC, eSI, eSA, eMSI, eMSA, eCR, eIR, eAR, eE,
    Option.some.injEq]
  generalize Spec.V4.eff (assignment V4.X m) = e at hE
  have h5 : (if decide (e c!"E" = c!"A") = true then some 0
      else if decide (e c!"E" = c!"P") = true then some 1
      else if decide (e c!"E" = c!"U") = true then some 2 else none) =
      some (if decide (e c!"E" = c!"A") = true then 0 else if decide (e c!"E" = c!"P") = true then 1 else 2) := by
    rcases hE with h | h | h <;> rw [h] <;> decide
  rw [h5]
  simp only [Option.some.injEq, List.cons.injEq, and_true]
  refine ⟨?_, ?_⟩
  · by_cases h1 : e c!"AV" = c!"N" <;> by_cases h2 : e c!"PR" = c!"N" <;>
      by_cases h3 : e c!"UI" = c!"N" <;> by_cases h4 : e c!"AV" = c!"P" <;> simp [h1, h2, h3, h4]
  · by_cases h1 : e c!"VC" = c!"H" <;> by_cases h2 : e c!"VI" = c!"H" <;>
      by_cases h3 : e c!"VA" = c!"H" <;> simp [h1, h2, h3]

end eff


/-- finite fact: every candidate effective value has a severity level -/
theorem effCands_level : (Spec.V4.levelTable.all fun (k, row) =>
    (decide (k ∈ Gen.V4.mandatory) || decide (k ∈ dfltMetrics)) &&
    (effCands k).all fun v => (lookup v row).isSome) = true := by decide +kernel

/-- the effective values of a valid map are legal tokens of the severity-level tables -/
theorem eff_legal {m : MMap} (hv : Valid m) :
    ∀ p ∈ Spec.V4.levelTable, (lookup (Spec.V4.eff (assignment V4.X m) p.1) p.2).isSome := by
  intro p hp
  have h := List.all_eq_true.mp effCands_level p hp
  obtain ⟨k, row⟩ := p
  simp only [Bool.and_eq_true, Bool.or_eq_true, decide_eq_true_eq, List.all_eq_true] at h
  obtain ⟨hk, hall⟩ := h
  apply hall
  rcases hk with hk | hk
  · exact (full_modified hv hk).2.2.2
  · exact (full_dflt hv hk).2.2.2

end Cvss.Lemmas.V4

/-! ## Fast access to the specification's look-up table

  For kernel evaluation the frozen table is cut into 18 chunks by (EQ1, EQ2, EQ3); `chunks_flatten`
  proves that the chunks concatenate to `Spec.V4.tableTenths`, so nothing here is trusted. -/
namespace Cvss.Lemmas.V4Table
open Cvss

abbrev Key := Nat × Nat × Nat × Nat × Nat × Nat

def cls (k : Key) : Nat := (k.1 * 2 + k.2.1) * 3 + k.2.2.1

set_option maxRecDepth 100000 in
/-- the rows of `Spec.V4.tableTenths`, grouped by `cls` (machine-copied; pinned by `chunks_flatten`) -/
def chunks : List (List (Key × Nat)) := [
    [((0, 0, 0, 0, 0, 0), 100), ((0, 0, 0, 0, 0, 1), 99), ((0, 0, 0, 0, 1, 0), 98), ((0, 0, 0, 0, 1, 1), 95), ((0, 0, 0, 0, 2, 0), 95), ((0, 0, 0, 0, 2, 1), 92), ((0, 0, 0, 1, 0, 0), 100), ((0, 0, 0, 1, 0, 1), 96), ((0, 0, 0, 1, 1, 0), 93), ((0, 0, 0, 1, 1, 1), 87), ((0, 0, 0, 1, 2, 0), 91), ((0, 0, 0, 1, 2, 1), 81), ((0, 0, 0, 2, 0, 0), 93), ((0, 0, 0, 2, 0, 1), 90), ((0, 0, 0, 2, 1, 0), 89), ((0, 0, 0, 2, 1, 1), 80), ((0, 0, 0, 2, 2, 0), 81), ((0, 0, 0, 2, 2, 1), 68)],
    [((0, 0, 1, 0, 0, 0), 98), ((0, 0, 1, 0, 0, 1), 95), ((0, 0, 1, 0, 1, 0), 95), ((0, 0, 1, 0, 1, 1), 92), ((0, 0, 1, 0, 2, 0), 90), ((0, 0, 1, 0, 2, 1), 84), ((0, 0, 1, 1, 0, 0), 93), ((0, 0, 1, 1, 0, 1), 92), ((0, 0, 1, 1, 1, 0), 89), ((0, 0, 1, 1, 1, 1), 81), ((0, 0, 1, 1, 2, 0), 81), ((0, 0, 1, 1, 2, 1), 65), ((0, 0, 1, 2, 0, 0), 88), ((0, 0, 1, 2, 0, 1), 80), ((0, 0, 1, 2, 1, 0), 78), ((0, 0, 1, 2, 1, 1), 70), ((0, 0, 1, 2, 2, 0), 69), ((0, 0, 1, 2, 2, 1), 48)],
    [((0, 0, 2, 0, 0, 1), 92), ((0, 0, 2, 0, 1, 1), 82), ((0, 0, 2, 0, 2, 1), 72), ((0, 0, 2, 1, 0, 1), 79), ((0, 0, 2, 1, 1, 1), 69), ((0, 0, 2, 1, 2, 1), 50), ((0, 0, 2, 2, 0, 1), 69), ((0, 0, 2, 2, 1, 1), 55), ((0, 0, 2, 2, 2, 1), 27)],
    [((0, 1, 0, 0, 0, 0), 99), ((0, 1, 0, 0, 0, 1), 97), ((0, 1, 0, 0, 1, 0), 95), ((0, 1, 0, 0, 1, 1), 92), ((0, 1, 0, 0, 2, 0), 92), ((0, 1, 0, 0, 2, 1), 85), ((0, 1, 0, 1, 0, 0), 95), ((0, 1, 0, 1, 0, 1), 91), ((0, 1, 0, 1, 1, 0), 90), ((0, 1, 0, 1, 1, 1), 83), ((0, 1, 0, 1, 2, 0), 84), ((0, 1, 0, 1, 2, 1), 71), ((0, 1, 0, 2, 0, 0), 92), ((0, 1, 0, 2, 0, 1), 81), ((0, 1, 0, 2, 1, 0), 82), ((0, 1, 0, 2, 1, 1), 71), ((0, 1, 0, 2, 2, 0), 72), ((0, 1, 0, 2, 2, 1), 53)],
    [((0, 1, 1, 0, 0, 0), 95), ((0, 1, 1, 0, 0, 1), 93), ((0, 1, 1, 0, 1, 0), 92), ((0, 1, 1, 0, 1, 1), 85), ((0, 1, 1, 0, 2, 0), 85), ((0, 1, 1, 0, 2, 1), 73), ((0, 1, 1, 1, 0, 0), 92), ((0, 1, 1, 1, 0, 1), 82), ((0, 1, 1, 1, 1, 0), 80), ((0, 1, 1, 1, 1, 1), 72), ((0, 1, 1, 1, 2, 0), 70), ((0, 1, 1, 1, 2, 1), 59), ((0, 1, 1, 2, 0, 0), 84), ((0, 1, 1, 2, 0, 1), 70), ((0, 1, 1, 2, 1, 0), 71), ((0, 1, 1, 2, 1, 1), 52), ((0, 1, 1, 2, 2, 0), 50), ((0, 1, 1, 2, 2, 1), 30)],
    [((0, 1, 2, 0, 0, 1), 86), ((0, 1, 2, 0, 1, 1), 75), ((0, 1, 2, 0, 2, 1), 52), ((0, 1, 2, 1, 0, 1), 71), ((0, 1, 2, 1, 1, 1), 52), ((0, 1, 2, 1, 2, 1), 29), ((0, 1, 2, 2, 0, 1), 63), ((0, 1, 2, 2, 1, 1), 29), ((0, 1, 2, 2, 2, 1), 17)],
    [((1, 0, 0, 0, 0, 0), 98), ((1, 0, 0, 0, 0, 1), 95), ((1, 0, 0, 0, 1, 0), 94), ((1, 0, 0, 0, 1, 1), 87), ((1, 0, 0, 0, 2, 0), 91), ((1, 0, 0, 0, 2, 1), 81), ((1, 0, 0, 1, 0, 0), 94), ((1, 0, 0, 1, 0, 1), 89), ((1, 0, 0, 1, 1, 0), 86), ((1, 0, 0, 1, 1, 1), 74), ((1, 0, 0, 1, 2, 0), 77), ((1, 0, 0, 1, 2, 1), 64), ((1, 0, 0, 2, 0, 0), 87), ((1, 0, 0, 2, 0, 1), 75), ((1, 0, 0, 2, 1, 0), 74), ((1, 0, 0, 2, 1, 1), 63), ((1, 0, 0, 2, 2, 0), 63), ((1, 0, 0, 2, 2, 1), 49)],
    [((1, 0, 1, 0, 0, 0), 94), ((1, 0, 1, 0, 0, 1), 89), ((1, 0, 1, 0, 1, 0), 88), ((1, 0, 1, 0, 1, 1), 77), ((1, 0, 1, 0, 2, 0), 76), ((1, 0, 1, 0, 2, 1), 67), ((1, 0, 1, 1, 0, 0), 86), ((1, 0, 1, 1, 0, 1), 76), ((1, 0, 1, 1, 1, 0), 74), ((1, 0, 1, 1, 1, 1), 58), ((1, 0, 1, 1, 2, 0), 59), ((1, 0, 1, 1, 2, 1), 50), ((1, 0, 1, 2, 0, 0), 72), ((1, 0, 1, 2, 0, 1), 57), ((1, 0, 1, 2, 1, 0), 57), ((1, 0, 1, 2, 1, 1), 52), ((1, 0, 1, 2, 2, 0), 52), ((1, 0, 1, 2, 2, 1), 25)],
    [((1, 0, 2, 0, 0, 1), 83), ((1, 0, 2, 0, 1, 1), 70), ((1, 0, 2, 0, 2, 1), 54), ((1, 0, 2, 1, 0, 1), 65), ((1, 0, 2, 1, 1, 1), 58), ((1, 0, 2, 1, 2, 1), 26), ((1, 0, 2, 2, 0, 1), 53), ((1, 0, 2, 2, 1, 1), 21), ((1, 0, 2, 2, 2, 1), 13)],
    [((1, 1, 0, 0, 0, 0), 95), ((1, 1, 0, 0, 0, 1), 90), ((1, 1, 0, 0, 1, 0), 88), ((1, 1, 0, 0, 1, 1), 76), ((1, 1, 0, 0, 2, 0), 76), ((1, 1, 0, 0, 2, 1), 70), ((1, 1, 0, 1, 0, 0), 90), ((1, 1, 0, 1, 0, 1), 77), ((1, 1, 0, 1, 1, 0), 75), ((1, 1, 0, 1, 1, 1), 62), ((1, 1, 0, 1, 2, 0), 61), ((1, 1, 0, 1, 2, 1), 53), ((1, 1, 0, 2, 0, 0), 77), ((1, 1, 0, 2, 0, 1), 66), ((1, 1, 0, 2, 1, 0), 68), ((1, 1, 0, 2, 1, 1), 59), ((1, 1, 0, 2, 2, 0), 52), ((1, 1, 0, 2, 2, 1), 30)],
    [((1, 1, 1, 0, 0, 0), 89), ((1, 1, 1, 0, 0, 1), 78), ((1, 1, 1, 0, 1, 0), 76), ((1, 1, 1, 0, 1, 1), 67), ((1, 1, 1, 0, 2, 0), 62), ((1, 1, 1, 0, 2, 1), 58), ((1, 1, 1, 1, 0, 0), 74), ((1, 1, 1, 1, 0, 1), 59), ((1, 1, 1, 1, 1, 0), 57), ((1, 1, 1, 1, 1, 1), 57), ((1, 1, 1, 1, 2, 0), 47), ((1, 1, 1, 1, 2, 1), 23), ((1, 1, 1, 2, 0, 0), 61), ((1, 1, 1, 2, 0, 1), 52), ((1, 1, 1, 2, 1, 0), 57), ((1, 1, 1, 2, 1, 1), 29), ((1, 1, 1, 2, 2, 0), 24), ((1, 1, 1, 2, 2, 1), 16)],
    [((1, 1, 2, 0, 0, 1), 71), ((1, 1, 2, 0, 1, 1), 59), ((1, 1, 2, 0, 2, 1), 30), ((1, 1, 2, 1, 0, 1), 58), ((1, 1, 2, 1, 1, 1), 26), ((1, 1, 2, 1, 2, 1), 15), ((1, 1, 2, 2, 0, 1), 23), ((1, 1, 2, 2, 1, 1), 13), ((1, 1, 2, 2, 2, 1), 6)],
    [((2, 0, 0, 0, 0, 0), 93), ((2, 0, 0, 0, 0, 1), 87), ((2, 0, 0, 0, 1, 0), 86), ((2, 0, 0, 0, 1, 1), 72), ((2, 0, 0, 0, 2, 0), 75), ((2, 0, 0, 0, 2, 1), 58), ((2, 0, 0, 1, 0, 0), 86), ((2, 0, 0, 1, 0, 1), 74), ((2, 0, 0, 1, 1, 0), 74), ((2, 0, 0, 1, 1, 1), 61), ((2, 0, 0, 1, 2, 0), 56), ((2, 0, 0, 1, 2, 1), 34), ((2, 0, 0, 2, 0, 0), 70), ((2, 0, 0, 2, 0, 1), 54), ((2, 0, 0, 2, 1, 0), 52), ((2, 0, 0, 2, 1, 1), 40), ((2, 0, 0, 2, 2, 0), 40), ((2, 0, 0, 2, 2, 1), 22)],
    [((2, 0, 1, 0, 0, 0), 85), ((2, 0, 1, 0, 0, 1), 75), ((2, 0, 1, 0, 1, 0), 74), ((2, 0, 1, 0, 1, 1), 55), ((2, 0, 1, 0, 2, 0), 62), ((2, 0, 1, 0, 2, 1), 51), ((2, 0, 1, 1, 0, 0), 72), ((2, 0, 1, 1, 0, 1), 57), ((2, 0, 1, 1, 1, 0), 55), ((2, 0, 1, 1, 1, 1), 41), ((2, 0, 1, 1, 2, 0), 46), ((2, 0, 1, 1, 2, 1), 19), ((2, 0, 1, 2, 0, 0), 53), ((2, 0, 1, 2, 0, 1), 36), ((2, 0, 1, 2, 1, 0), 34), ((2, 0, 1, 2, 1, 1), 19), ((2, 0, 1, 2, 2, 0), 19), ((2, 0, 1, 2, 2, 1), 8)],
    [((2, 0, 2, 0, 0, 1), 64), ((2, 0, 2, 0, 1, 1), 51), ((2, 0, 2, 0, 2, 1), 20), ((2, 0, 2, 1, 0, 1), 47), ((2, 0, 2, 1, 1, 1), 21), ((2, 0, 2, 1, 2, 1), 11), ((2, 0, 2, 2, 0, 1), 24), ((2, 0, 2, 2, 1, 1), 9), ((2, 0, 2, 2, 2, 1), 4)],
    [((2, 1, 0, 0, 0, 0), 88), ((2, 1, 0, 0, 0, 1), 75), ((2, 1, 0, 0, 1, 0), 73), ((2, 1, 0, 0, 1, 1), 53), ((2, 1, 0, 0, 2, 0), 60), ((2, 1, 0, 0, 2, 1), 50), ((2, 1, 0, 1, 0, 0), 73), ((2, 1, 0, 1, 0, 1), 55), ((2, 1, 0, 1, 1, 0), 59), ((2, 1, 0, 1, 1, 1), 40), ((2, 1, 0, 1, 2, 0), 41), ((2, 1, 0, 1, 2, 1), 20), ((2, 1, 0, 2, 0, 0), 54), ((2, 1, 0, 2, 0, 1), 43), ((2, 1, 0, 2, 1, 0), 45), ((2, 1, 0, 2, 1, 1), 22), ((2, 1, 0, 2, 2, 0), 20), ((2, 1, 0, 2, 2, 1), 11)],
    [((2, 1, 1, 0, 0, 0), 75), ((2, 1, 1, 0, 0, 1), 55), ((2, 1, 1, 0, 1, 0), 58), ((2, 1, 1, 0, 1, 1), 45), ((2, 1, 1, 0, 2, 0), 40), ((2, 1, 1, 0, 2, 1), 21), ((2, 1, 1, 1, 0, 0), 61), ((2, 1, 1, 1, 0, 1), 51), ((2, 1, 1, 1, 1, 0), 48), ((2, 1, 1, 1, 1, 1), 18), ((2, 1, 1, 1, 2, 0), 20), ((2, 1, 1, 1, 2, 1), 9), ((2, 1, 1, 2, 0, 0), 46), ((2, 1, 1, 2, 0, 1), 18), ((2, 1, 1, 2, 1, 0), 17), ((2, 1, 1, 2, 1, 1), 7), ((2, 1, 1, 2, 2, 0), 8), ((2, 1, 1, 2, 2, 1), 2)],
    [((2, 1, 2, 0, 0, 1), 53), ((2, 1, 2, 0, 1, 1), 24), ((2, 1, 2, 0, 2, 1), 14), ((2, 1, 2, 1, 0, 1), 24), ((2, 1, 2, 1, 1, 1), 12), ((2, 1, 2, 1, 2, 1), 5), ((2, 1, 2, 2, 0, 1), 10), ((2, 1, 2, 2, 1, 1), 3), ((2, 1, 2, 2, 2, 1), 1)]
  ]

def chunkAt {α : Type} : List (List α) → Nat → List α
  | [], _ => []
  | c :: _, 0 => c
  | _ :: r, i + 1 => chunkAt r i

set_option synthInstance.maxSize 1024 in
theorem chunks_flatten : chunks.flatten = Spec.V4.tableTenths := by decide +kernel

/-- every row of chunk `i` has class `i` (checked from index `n` on) -/
def clsOK {κ β : Type} (c : κ → Nat) : List (List (κ × β)) → Nat → Bool
  | [], _ => true
  | ch :: r, n => ch.all (fun p => c p.1 == n) && clsOK c r (n + 1)

theorem chunks_cls : clsOK cls chunks 0 = true := by decide +kernel

theorem lookup_flatten_cls {κ β : Type} [DecidableEq κ] (c : κ → Nat) (k : κ) :
    ∀ (T : List (List (κ × β))) (n : Nat), clsOK c T n = true →
      lookup k T.flatten = if c k < n then none else lookup k (chunkAt T (c k - n)) := by
  intro T
  induction T with
  | nil => intro n _; simp [chunkAt, lookup]
  | cons ch r ih =>
    intro n h
    simp only [clsOK, Bool.and_eq_true, List.all_eq_true, beq_iff_eq] at h
    obtain ⟨hch, hr⟩ := h
    rw [List.flatten_cons, Cvss.Lemmas.V4.lookup_append, ih (n + 1) hr]
    by_cases hlt : c k < n
    · have hnone : lookup k ch = none := by
        apply Cvss.Lemmas.V4.lookup_none_of_not_mem
        intro hmem
        obtain ⟨p, hp, hpk⟩ := List.mem_map.mp hmem
        have := hch p hp
        rw [hpk] at this; omega
      rw [hnone, if_pos hlt, if_pos (by omega)]
    · rw [if_neg hlt]
      by_cases heq : c k = n
      · have h0 : c k - n = 0 := by omega
        rw [h0, if_pos (by omega)]
        simp only [chunkAt]
        cases lookup k ch <;> rfl
      · have hnone : lookup k ch = none := by
          apply Cvss.Lemmas.V4.lookup_none_of_not_mem
          intro hmem
          obtain ⟨p, hp, hpk⟩ := List.mem_map.mp hmem
          have := hch p hp
          rw [hpk] at this; omega
        have h1 : c k - n = (c k - (n + 1)) + 1 := by omega
        rw [hnone, if_neg (by omega), h1]
        simp only [chunkAt]

def fastLookup (k : Key) : Option Nat := lookup k (chunkAt chunks (cls k))

theorem lookup_table (k : Key) : lookup k Spec.V4.tableTenths = fastLookup k := by
  rw [← chunks_flatten, lookup_flatten_cls cls k chunks 0 chunks_cls]
  simp [fastLookup]

/-- `Spec.V4.score?` through the chunked table -/
def scoreF (mv : Spec.V4.MacroVector) : Option Rat :=
  (fastLookup (mv.eq1, mv.eq2, mv.eq3, mv.eq4, mv.eq5, mv.eq6)).map (fun t => (t : Rat) / 10)

theorem score?_eq (mv : Spec.V4.MacroVector) : Spec.V4.score? mv = scoreF mv := by
  unfold Spec.V4.score? scoreF
  rw [lookup_table]


/-! ### the library's table read through the specification's -/

theorem lookup_map_iff {α α' β β' : Type} [DecidableEq α] [DecidableEq α'] (f : α → α') (g : β → β')
    (k : α) (k' : α') (l : List (α × β)) (h : ∀ p ∈ l, (k' = f p.1 ↔ k = p.1)) :
    lookup k' (l.map fun p => (f p.1, g p.2)) = (lookup k l).map g := by
  induction l with
  | nil => rfl
  | cons p r ih =>
    obtain ⟨a, b⟩ := p
    have h1 := h (a, b) List.mem_cons_self
    simp only [List.map_cons, lookup]
    by_cases hk : k = a
    · rw [if_pos hk, if_pos (h1.mpr hk)]; rfl
    · rw [if_neg hk, if_neg (fun h' => hk (h1.mp h'))]
      exact ih (fun p hp => h p (List.mem_cons_of_mem _ hp))

def keyDigits (k : Str) : List Nat := k.map (fun c => c.toNat - 48)
def toList6 (k : Key) : List Nat := [k.1, k.2.1, k.2.2.1, k.2.2.2.1, k.2.2.2.2.1, k.2.2.2.2.2]

/-! #### order-insensitive pinning of the generated table

  The generated table lists its rows in the order of the Python dict literal.  That order is
  unobservable (look-ups are by key), so the pin must not depend on it: the keys are distinct and the
  rows are a PERMUTATION of the specification's rows.  It is established from three Boolean checks
  whose cost does not depend on the order of the rows either (distinct keys; every generated row is
  the specification's row for its key, read through the chunked table; the specification has no
  more rows than the library). -/

/-- Boolean duplicate check (cheap for the kernel) -/
def nodupB {α : Type} [DecidableEq α] : List α → Bool
  | [] => true
  | a :: l => l.all (fun b => !decide (a = b)) && nodupB l

theorem nodup_of_nodupB {α : Type} [DecidableEq α] : ∀ {l : List α}, nodupB l = true → l.Nodup
  | [], _ => List.nodup_nil
  | a :: l, h => by
    simp only [nodupB, Bool.and_eq_true, List.all_eq_true, Bool.not_eq_true',
      decide_eq_false_iff_not] at h
    exact List.nodup_cons.2 ⟨fun hm => h.1 a hm rfl, nodup_of_nodupB h.2⟩

/-- a duplicate-free list contained in a list that is not longer is a permutation of it -/
theorem perm_of_subset {α : Type} {l₁ l₂ : List α} (hn : l₁.Nodup) (hs : l₁ ⊆ l₂)
    (hl : l₂.length ≤ l₁.length) : l₁.Perm l₂ :=
  (List.subperm_of_subset hn hs).perm_of_length_le hl

/-- the library's rows / the specification's rows, both keyed by the list of the six digits -/
abbrev genRows (T : List (Str × Rat)) : List (List Nat × Rat) :=
  T.map (fun p => (keyDigits p.1, id p.2))
abbrev specRows : List (List Nat × Rat) :=
  Spec.V4.tableTenths.map (fun p => (toList6 p.1, (fun t : Nat => (t : Rat) / 10) p.2))

/-- a digit list as one number, so that the duplicate check compares numbers (no injectivity is needed:
    distinct images imply distinct keys for any function) -/
def encDigits (d : List Nat) : Nat := d.foldl (fun n x => 10 * n + x) 0

def toKey? : List Nat → Option Key
  | [a, b, c, d, e, f] => some (a, b, c, d, e, f)
  | _ => none

theorem toKey?_some {d : List Nat} {k : Key} (h : toKey? d = some k) : d = toList6 k := by
  unfold toKey? at h
  split at h
  · cases h; rfl
  · cases h

/-- the row is the specification's row for its key (found through the chunked table) -/
def rowOK (p : Str × Rat) : Bool :=
  match toKey? (keyDigits p.1) with
  | some k =>
    match fastLookup k with
    | some t => decide (p.2 = (t : Rat) / 10)
    | none => false
  | none => false

/-- from the three order-independent checks to "distinct keys, same rows up to order"; generic in the
    table so that it can be replayed on any re-ordering of the generated table -/
theorem pinned_of_checks (T : List (Str × Rat))
    (h1 : nodupB (T.map fun p => encDigits (keyDigits p.1)) = true)
    (h2 : T.all rowOK = true) (h3 : Spec.V4.tableTenths.length ≤ T.length) :
    (keys (genRows T)).Nodup ∧ (genRows T).Perm specRows := by
  have hk : (keys (genRows T)).Nodup := by
    have h := nodup_of_nodupB h1
    have e : T.map (fun p => encDigits (keyDigits p.1)) = (keys (genRows T)).map encDigits := by
      simp [keys, genRows, List.map_map, Function.comp_def]
    rw [e] at h
    exact List.Nodup.of_map _ h
  have hk' : ((genRows T).map (fun q => q.1)).Nodup := hk
  refine ⟨hk, perm_of_subset (List.Nodup.of_map _ hk') ?_ (by simpa [genRows, specRows] using h3)⟩
  intro q hq
  obtain ⟨p, hp, rfl⟩ := List.mem_map.1 hq
  have hr := List.all_eq_true.1 h2 p hp
  unfold rowOK at hr
  split at hr
  · rename_i k hk'
    split at hr
    · rename_i t ht
      have hv : p.2 = (t : Rat) / 10 := of_decide_eq_true hr
      have hm : (k, t) ∈ Spec.V4.tableTenths :=
        Cvss.Lemmas.V2.lookup_mem (by rw [lookup_table]; exact ht)
      exact List.mem_map.2 ⟨(k, t), hm, by simp [toKey?_some hk', hv]⟩
    · cases hr
  · cases hr

/-- pinning (order-insensitive): no key of `CVSS_LOOKUP_GLOBAL` occurs twice, and its rows are the
    specification's rows up to the order of the entries -/
theorem table_pinned :
    (keys (Gen.V4.lookupTable.map (fun p => (keyDigits p.1, id p.2)))).Nodup ∧
    (Gen.V4.lookupTable.map (fun p => (keyDigits p.1, id p.2))).Perm
      (Spec.V4.tableTenths.map (fun p => (toList6 p.1, (fun t : Nat => (t : Rat) / 10) p.2))) :=
  pinned_of_checks Gen.V4.lookupTable (by decide +kernel) (by decide +kernel) (by decide +kernel)

/-- … hence the same look-up results, key by key -/
theorem table_lookup_eq (k : List Nat) :
    lookup k (Gen.V4.lookupTable.map (fun p => (keyDigits p.1, id p.2))) =
      lookup k (Spec.V4.tableTenths.map (fun p => (toList6 p.1, (fun t : Nat => (t : Rat) / 10) p.2))) :=
  lookup_perm _ _ table_pinned.2 table_pinned.1 k

theorem keys_roundtrip :
    (Gen.V4.lookupTable.all fun p => Model.V4.mvKey (keyDigits p.1) == p.1) = true := by decide +kernel

theorem keyDigits_natToStr : ∀ e < 10, keyDigits (natToStr e) = [e] := by decide

theorem keyDigits_mvKey (e1 e2 e3 e4 e5 e6 : Nat) (h1 : e1 < 10) (h2 : e2 < 10) (h3 : e3 < 10)
    (h4 : e4 < 10) (h5 : e5 < 10) (h6 : e6 < 10) :
    keyDigits (Model.V4.mvKey [e1, e2, e3, e4, e5, e6]) = [e1, e2, e3, e4, e5, e6] := by
  have hk : ∀ a b, keyDigits (a ++ b) = keyDigits a ++ keyDigits b := fun a b => List.map_append
  simp only [Model.V4.mvKey, List.flatMap_cons, List.flatMap_nil, hk,
    keyDigits_natToStr _ h1, keyDigits_natToStr _ h2, keyDigits_natToStr _ h3,
    keyDigits_natToStr _ h4, keyDigits_natToStr _ h5, keyDigits_natToStr _ h6]
  rfl

/-- the library's `lookup(macrovector)` is the specification's `score?` -/
theorem lookupScore_eq (e1 e2 e3 e4 e5 e6 : Nat) (h1 : e1 < 10) (h2 : e2 < 10) (h3 : e3 < 10)
    (h4 : e4 < 10) (h5 : e5 < 10) (h6 : e6 < 10) :
    Model.V4.lookupScore [e1, e2, e3, e4, e5, e6] = Spec.V4.score? ⟨e1, e2, e3, e4, e5, e6⟩ := by
  have hA := lookup_map_iff keyDigits (id : Rat → Rat) (Model.V4.mvKey [e1, e2, e3, e4, e5, e6])
    [e1, e2, e3, e4, e5, e6] Gen.V4.lookupTable (by
      intro p hp
      constructor
      · intro h
        have := List.all_eq_true.mp keys_roundtrip p hp
        rw [← h] at this
        exact (eq_of_beq this)
      · intro h
        rw [← h]
        exact (keyDigits_mvKey e1 e2 e3 e4 e5 e6 h1 h2 h3 h4 h5 h6).symm)
  have hB := lookup_map_iff toList6 (fun t : Nat => (t : Rat) / 10) (e1, e2, e3, e4, e5, e6)
    [e1, e2, e3, e4, e5, e6] Spec.V4.tableTenths (by
      intro p _
      obtain ⟨⟨a, b, c, d, e, f⟩, t⟩ := p
      simp [toList6])
  unfold Model.V4.lookupScore Spec.V4.score?
  rw [table_lookup_eq, hB] at hA
  have hA' : lookup (Model.V4.mvKey [e1, e2, e3, e4, e5, e6]) Gen.V4.lookupTable =
      Option.map (fun t : Nat => (t : Rat) / 10) (lookup (e1, e2, e3, e4, e5, e6) Spec.V4.tableTenths) := by
    rw [hA]; cases lookup (Model.V4.mvKey [e1, e2, e3, e4, e5, e6]) Gen.V4.lookupTable <;> rfl
  rw [hA']
  show _ = Option.map _ (Option.bind (lookup (e1, e2, e3, e4, e5, e6) Spec.V4.tableTenths) _)
  cases lookup (e1, e2, e3, e4, e5, e6) Spec.V4.tableTenths <;> rfl


/-! ### totality of the look-up and non-negative gaps -/

theorem mv_bounds (a : Str → Str) :
    (Spec.V4.macroVector a).eq1 ≤ 2 ∧ (Spec.V4.macroVector a).eq2 ≤ 1 ∧
    (Spec.V4.macroVector a).eq3 ≤ 2 ∧ (Spec.V4.macroVector a).eq4 ≤ 2 ∧
    (Spec.V4.macroVector a).eq5 ≤ 2 ∧ (Spec.V4.macroVector a).eq6 ≤ 1 ∧
    ((Spec.V4.macroVector a).eq3 = 2 → (Spec.V4.macroVector a).eq6 = 1) := by
  unfold Spec.V4.macroVector
  simp only []
  refine ⟨?_, ?_, ?_, ?_, ?_, ?_, ?_⟩
  · split_ifs <;> omega
  · split_ifs <;> omega
  · split_ifs <;> omega
  · split_ifs <;> omega
  · split_ifs <;> omega
  · split_ifs <;> omega
  · by_cases h1 : Spec.V4.eff a c!"VC" = c!"H" <;> by_cases h2 : Spec.V4.eff a c!"VI" = c!"H" <;>
      by_cases h3 : Spec.V4.eff a c!"VA" = c!"H" <;> simp [h1, h2, h3]

def totalChk : Bool :=
  (List.range 3).all fun e1 => (List.range 2).all fun e2 => (List.range 3).all fun e3 =>
  (List.range 3).all fun e4 => (List.range 3).all fun e5 => (List.range 2).all fun e6 =>
    (e3 == 2 && e6 == 0) || (scoreF ⟨e1, e2, e3, e4, e5, e6⟩).isSome

theorem totalChk_true : totalChk = true := by decide +kernel

/-- every admissible macrovector has a row -/
theorem score_total (mv : Spec.V4.MacroVector) (h1 : mv.eq1 ≤ 2) (h2 : mv.eq2 ≤ 1) (h3 : mv.eq3 ≤ 2)
    (h4 : mv.eq4 ≤ 2) (h5 : mv.eq5 ≤ 2) (h6 : mv.eq6 ≤ 1) (h36 : mv.eq3 = 2 → mv.eq6 = 1) :
    (Spec.V4.score? mv).isSome = true := by
  have h := totalChk_true
  unfold totalChk at h
  simp only [List.all_eq_true, List.mem_range] at h
  have := h mv.eq1 (by omega) mv.eq2 (by omega) mv.eq3 (by omega) mv.eq4 (by omega) mv.eq5 (by omega)
    mv.eq6 (by omega)
  rw [score?_eq]
  simp only [Bool.or_eq_true, Bool.and_eq_true, beq_iff_eq] at this
  rcases this with ⟨h7, h8⟩ | h7
  · omega
  · exact h7

theorem lookup_total (a : Str → Str) : (Spec.V4.score? (Spec.V4.macroVector a)).isSome = true := by
  obtain ⟨h1, h2, h3, h4, h5, h6, h7⟩ := mv_bounds a
  exact score_total _ h1 h2 h3 h4 h5 h6 h7

theorem gapsF :
    (Spec.V4.tableTenths.all fun ((e1, e2, e3, e4, e5, e6), _) =>
      let mv : Spec.V4.MacroVector := ⟨e1, e2, e3, e4, e5, e6⟩
      match scoreF mv with
      | none => false
      | some v =>
        [scoreF { mv with eq1 := mv.eq1 + 1 }, scoreF { mv with eq2 := mv.eq2 + 1 },
          (match mv.eq3, mv.eq6 with
            | 0, 0 =>
              match scoreF { mv with eq6 := 1 }, scoreF { mv with eq3 := 1 } with
              | some l, some rr => some (max l rr)
              | some l, none => some l
              | none, some rr => some rr
              | none, none => none
            | 0, 1 => scoreF { mv with eq3 := 1 }
            | 1, 0 => scoreF { mv with eq6 := 1 }
            | 1, 1 => scoreF { mv with eq3 := 2 }
            | _, _ => none), scoreF { mv with eq4 := mv.eq4 + 1 }, scoreF { mv with eq5 := mv.eq5 + 1 }].all
          fun l => match l with | none => true | some x => decide (x ≤ v)) = true := by
  decide +kernel

theorem gaps_nonneg :
    (Spec.V4.tableTenths.all fun ((e1, e2, e3, e4, e5, e6), _) =>
      let mv : Spec.V4.MacroVector := ⟨e1, e2, e3, e4, e5, e6⟩
      match Spec.V4.score? mv with
      | none => false
      | some v =>
        [Spec.V4.lower1 mv, Spec.V4.lower2 mv, Spec.V4.lower36 mv, Spec.V4.lower4 mv, Spec.V4.lower5 mv].all
          fun l => match l with | none => true | some x => decide (x ≤ v)) = true := by
  have h := gapsF
  simp only [← score?_eq] at h
  exact h

/-- the gap to an existing next-lower macrovector is non-negative -/
theorem gap_nonneg (mv : Spec.V4.MacroVector) (v : Rat) (hv : Spec.V4.score? mv = some v) :
    ∀ l ∈ [Spec.V4.lower1 mv, Spec.V4.lower2 mv, Spec.V4.lower36 mv, Spec.V4.lower4 mv,
      Spec.V4.lower5 mv], ∀ x, l = some x → x ≤ v := by
  have hmem : ∃ t, ((mv.eq1, mv.eq2, mv.eq3, mv.eq4, mv.eq5, mv.eq6), t) ∈ Spec.V4.tableTenths := by
    unfold Spec.V4.score? at hv
    cases hl : lookup (mv.eq1, mv.eq2, mv.eq3, mv.eq4, mv.eq5, mv.eq6) Spec.V4.tableTenths with
    | none => rw [hl] at hv; cases hv
    | some t => exact ⟨t, Cvss.Lemmas.V2.lookup_mem hl⟩
  obtain ⟨t, ht⟩ := hmem
  have h := List.all_eq_true.mp gaps_nonneg _ ht
  simp only [] at h
  have hmv : (⟨mv.eq1, mv.eq2, mv.eq3, mv.eq4, mv.eq5, mv.eq6⟩ : Spec.V4.MacroVector) = mv := rfl
  rw [hmv, hv] at h
  simp only [List.all_eq_true] at h
  intro l hl x hx
  have := h l hl
  rw [hx] at this
  simpa using this


theorem eq3_le : (Spec.V4.tableTenths.all fun p => decide (p.1.2.2.1 ≤ 2)) = true := by decide +kernel

/-- there is no row with EQ3 > 2 -/
theorem score?_none_of_eq3 (mv : Spec.V4.MacroVector) (h : 2 < mv.eq3) : Spec.V4.score? mv = none := by
  have hnone : lookup (mv.eq1, mv.eq2, mv.eq3, mv.eq4, mv.eq5, mv.eq6) Spec.V4.tableTenths = none := by
    apply Cvss.Lemmas.V4.lookup_none_of_not_mem
    intro hmem
    obtain ⟨p, hp, hpk⟩ := List.mem_map.mp hmem
    have := List.all_eq_true.mp eq3_le p hp
    simp only [decide_eq_true_eq] at this
    rw [hpk] at this
    simp only at this
    omega
  unfold Spec.V4.score?
  rw [hnone]; rfl

end Cvss.Lemmas.V4Table
