/-
  The Brzozowski-derivative matcher of `Cvss/Spec/Regex.lean` decides the declarative semantics;
  general lemmas on `Matches` for sequences, literals and `(F/)*F`.
-/
import Cvss.Spec.Regex
import Cvss.Lemmas.Str
namespace Cvss.Spec.Regex
open Cvss

/-! ### inversion lemmas (stated with a variable string index) -/

theorem not_matches_empty (s : Str) : ¬ Matches .empty s := by
  intro h; cases h

theorem matches_eps_iff {s : Str} : Matches .eps s ↔ s = [] := by
  constructor
  · intro h; cases h; rfl
  · rintro rfl; exact .eps

theorem matches_chr_iff {c : Char} {s : Str} : Matches (.chr c) s ↔ s = [c] := by
  constructor
  · intro h; cases h; rfl
  · rintro rfl; exact .chr c

theorem matches_cls_iff {cs : List Char} {s : Str} :
    Matches (.cls cs) s ↔ ∃ c, c ∈ cs ∧ s = [c] := by
  constructor
  · intro h
    cases h with
    | cls _ c hc => exact ⟨c, hc, rfl⟩
  · rintro ⟨c, hc, rfl⟩; exact .cls cs c hc

theorem matches_any_iff {s : Str} : Matches .any s ↔ ∃ c, c ≠ '\n' ∧ s = [c] := by
  constructor
  · intro h
    cases h with
    | any c hc => exact ⟨c, hc, rfl⟩
  · rintro ⟨c, hc, rfl⟩; exact .any c hc

theorem matches_seq_iff {a b : Re} {s : Str} :
    Matches (.seq a b) s ↔ ∃ s1 s2, s = s1 ++ s2 ∧ Matches a s1 ∧ Matches b s2 := by
  constructor
  · intro h
    cases h with
    | seq h1 h2 => exact ⟨_, _, rfl, h1, h2⟩
  · rintro ⟨s1, s2, rfl, h1, h2⟩; exact .seq h1 h2

theorem matches_alt_iff {a b : Re} {s : Str} :
    Matches (.alt a b) s ↔ Matches a s ∨ Matches b s := by
  constructor
  · intro h
    cases h with
    | altL h => exact Or.inl h
    | altR h => exact Or.inr h
  · rintro (h | h)
    · exact .altL h
    · exact .altR h

/-! ### `nullable` -/

theorem nullable_of_matches {r : Re} {s : Str} (h : Matches r s) : s = [] → nullable r = true := by
  induction h with
  | eps => intro _; rfl
  | chr c => intro h; cases h
  | cls cs c hc => intro h; cases h
  | any c hc => intro h; cases h
  | seq h1 h2 ih1 ih2 =>
    intro h
    obtain ⟨h1', h2'⟩ := List.append_eq_nil_iff.1 h
    simp [nullable, ih1 h1', ih2 h2']
  | altL h ih => intro e; simp [nullable, ih e]
  | altR h ih => intro e; simp [nullable, ih e]
  | starNil => intro _; rfl
  | starCons _ _ _ _ => intro _; rfl

theorem matches_nil_of_nullable (r : Re) (h : nullable r = true) : Matches r [] := by
  induction r with
  | empty => cases h
  | eps => exact .eps
  | chr c => cases h
  | cls cs => cases h
  | any => cases h
  | seq a b iha ihb =>
    simp only [nullable, Bool.and_eq_true] at h
    exact Matches.seq (iha h.1) (ihb h.2)
  | alt a b iha ihb =>
    simp only [nullable, Bool.or_eq_true] at h
    rcases h with h | h
    · exact .altL (iha h)
    · exact .altR (ihb h)
  | star a _ => exact .starNil

theorem nullable_iff (r : Re) : nullable r = true ↔ Matches r [] :=
  ⟨matches_nil_of_nullable r, fun h => nullable_of_matches h rfl⟩

/-! ### the simplifying constructors -/

theorem matches_mkSeq {a b : Re} {s : Str} : Matches (mkSeq a b) s ↔ Matches (.seq a b) s := by
  rw [matches_seq_iff]
  unfold mkSeq
  split
  · simp [not_matches_empty]
  · simp [not_matches_empty]
  · simp only [matches_eps_iff]
    constructor
    · intro h; exact ⟨[], s, rfl, rfl, h⟩
    · rintro ⟨s1, s2, rfl, rfl, h⟩; exact h
  · simp only [matches_eps_iff]
    constructor
    · intro h; exact ⟨s, [], by simp, h, rfl⟩
    · rintro ⟨s1, s2, rfl, h, rfl⟩; simpa using h
  · exact matches_seq_iff

theorem matches_mkAlt {a b : Re} {s : Str} : Matches (mkAlt a b) s ↔ Matches (.alt a b) s := by
  rw [matches_alt_iff]
  unfold mkAlt
  split
  · simp [not_matches_empty]
  · simp [not_matches_empty]
  · split
    · rename_i h; subst h; simp
    · exact matches_alt_iff

/-! ### derivatives -/

/-- a non-empty match of `star a` starts with a non-empty match of `a` -/
theorem star_cons_split {r : Re} {t : Str} (h : Matches r t) :
    ∀ a, r = .star a → ∀ c s, t = c :: s →
      ∃ s1 s2, s = s1 ++ s2 ∧ Matches a (c :: s1) ∧ Matches (.star a) s2 := by
  induction h with
  | eps => intro a e; cases e
  | chr c => intro a e; cases e
  | cls cs c hc => intro a e; cases e
  | any c hc => intro a e; cases e
  | seq h1 h2 ih1 ih2 => intro a e; cases e
  | altL h ih => intro a e; cases e
  | altR h ih => intro a e; cases e
  | starNil => intro a _ c s e; cases e
  | @starCons a' s' t' h1 h2 ih1 ih2 =>
    intro a e c s hs
    cases e
    cases s' with
    | nil => exact ih2 a' rfl c s hs
    | cons d s1 =>
      simp only [List.cons_append, List.cons.injEq] at hs
      obtain ⟨rfl, rfl⟩ := hs
      exact ⟨s1, t', rfl, h1, h2⟩

theorem matches_deriv (c : Char) (r : Re) : ∀ s, Matches (deriv c r) s ↔ Matches r (c :: s) := by
  induction r with
  | empty => intro s; simp [deriv, not_matches_empty]
  | eps => intro s; simp [deriv, not_matches_empty, matches_eps_iff]
  | chr d =>
    intro s
    unfold deriv
    by_cases h : c = d
    · subst h; simp [matches_eps_iff, matches_chr_iff]
    · simp [h, not_matches_empty, matches_chr_iff]
  | cls cs =>
    intro s
    unfold deriv
    by_cases h : c ∈ cs
    · simp only [if_pos h, matches_eps_iff, matches_cls_iff]
      constructor
      · rintro rfl; exact ⟨c, h, rfl⟩
      · rintro ⟨d, -, e⟩
        simp only [List.cons.injEq] at e
        exact e.2
    · simp only [if_neg h, matches_cls_iff]
      constructor
      · intro h'; exact absurd h' (not_matches_empty _)
      · rintro ⟨d, hd, e⟩
        simp only [List.cons.injEq] at e
        obtain ⟨rfl, -⟩ := e
        exact absurd hd h
  | any =>
    intro s
    unfold deriv
    by_cases h : c ≠ '\n'
    · simp only [if_pos h, matches_eps_iff, matches_any_iff]
      constructor
      · rintro rfl; exact ⟨c, h, rfl⟩
      · rintro ⟨d, -, e⟩
        simp only [List.cons.injEq] at e
        exact e.2
    · simp only [if_neg h, matches_any_iff]
      constructor
      · intro h'; exact absurd h' (not_matches_empty _)
      · rintro ⟨d, hd, e⟩
        simp only [List.cons.injEq] at e
        obtain ⟨rfl, -⟩ := e
        exact absurd hd h
  | seq a b iha ihb =>
    intro s
    have key : Matches (mkSeq (deriv c a) b) s ↔
        ∃ s1 s2, s = s1 ++ s2 ∧ Matches a (c :: s1) ∧ Matches b s2 := by
      rw [matches_mkSeq, matches_seq_iff]
      constructor
      · rintro ⟨s1, s2, e, h1, h2⟩; exact ⟨s1, s2, e, (iha s1).1 h1, h2⟩
      · rintro ⟨s1, s2, e, h1, h2⟩; exact ⟨s1, s2, e, (iha s1).2 h1, h2⟩
    unfold deriv
    by_cases hn : nullable a = true
    · rw [if_pos hn, matches_mkAlt, matches_alt_iff, key, ihb s, matches_seq_iff]
      constructor
      · rintro (⟨s1, s2, rfl, h1, h2⟩ | h)
        · exact ⟨c :: s1, s2, rfl, h1, h2⟩
        · exact ⟨[], c :: s, rfl, matches_nil_of_nullable a hn, h⟩
      · rintro ⟨t1, t2, e, h1, h2⟩
        cases t1 with
        | nil =>
          simp only [List.nil_append] at e
          subst e
          exact Or.inr h2
        | cons d t1 =>
          simp only [List.cons_append, List.cons.injEq] at e
          obtain ⟨rfl, rfl⟩ := e
          exact Or.inl ⟨t1, t2, rfl, h1, h2⟩
    · rw [if_neg hn, key, matches_seq_iff]
      constructor
      · rintro ⟨s1, s2, rfl, h1, h2⟩
        exact ⟨c :: s1, s2, rfl, h1, h2⟩
      · rintro ⟨t1, t2, e, h1, h2⟩
        cases t1 with
        | nil => exact absurd (nullable_of_matches h1 rfl) hn
        | cons d t1 =>
          simp only [List.cons_append, List.cons.injEq] at e
          obtain ⟨rfl, rfl⟩ := e
          exact ⟨t1, t2, rfl, h1, h2⟩
  | alt a b iha ihb =>
    intro s
    unfold deriv
    rw [matches_mkAlt, matches_alt_iff, matches_alt_iff, iha s, ihb s]
  | star a iha =>
    intro s
    unfold deriv
    rw [matches_mkSeq, matches_seq_iff]
    constructor
    · rintro ⟨s1, s2, rfl, h1, h2⟩
      exact Matches.starCons (s := c :: s1) ((iha s1).1 h1) h2
    · intro h
      obtain ⟨s1, s2, e, h1, h2⟩ := star_cons_split h a rfl c s rfl
      exact ⟨s1, s2, e, (iha s1).2 h1, h2⟩

theorem fullMatch_nil (r : Re) : fullMatch r [] = nullable r := rfl

theorem fullMatch_cons (r : Re) (c : Char) (s : Str) :
    fullMatch r (c :: s) = fullMatch (deriv c r) s := rfl

/-- Brzozowski-derivative matching is sound and complete for the declarative semantics -/
theorem fullMatch_iff_matches (r : Re) (s : Str) : fullMatch r s = true ↔ Matches r s := by
  induction s generalizing r with
  | nil => rw [fullMatch_nil]; exact nullable_iff r
  | cons c s ih => rw [fullMatch_cons, ih, matches_deriv]

/-! ### sequences and literals -/

theorem matches_seqs_cons {a : Re} {l : List Re} {s : Str} :
    Matches (Re.seqs (a :: l)) s ↔ ∃ s1 s2, s = s1 ++ s2 ∧ Matches a s1 ∧ Matches (Re.seqs l) s2 := by
  cases l with
  | nil =>
    simp only [Re.seqs, matches_eps_iff]
    constructor
    · intro h; exact ⟨s, [], by simp, h, rfl⟩
    · rintro ⟨s1, s2, rfl, h, rfl⟩; simpa using h
  | cons b l => exact matches_seq_iff

theorem matches_seqs_cons_mk {a : Re} {l : List Re} {s1 s2 : Str} (h1 : Matches a s1)
    (h2 : Matches (Re.seqs l) s2) : Matches (Re.seqs (a :: l)) (s1 ++ s2) :=
  matches_seqs_cons.2 ⟨s1, s2, rfl, h1, h2⟩

theorem matches_seqs_append {l1 l2 : List Re} {s1 s2 : Str} (h1 : Matches (Re.seqs l1) s1)
    (h2 : Matches (Re.seqs l2) s2) : Matches (Re.seqs (l1 ++ l2)) (s1 ++ s2) := by
  induction l1 generalizing s1 with
  | nil =>
    have : s1 = [] := matches_eps_iff.1 h1
    subst this
    simpa using h2
  | cons a l ih =>
    obtain ⟨t1, t2, rfl, ha, hl⟩ := matches_seqs_cons.1 h1
    rw [List.cons_append, List.append_assoc]
    exact matches_seqs_cons_mk ha (ih hl)

/-- a literal character in front -/
theorem matches_chr_cons {l : List Re} {s : Str} (c : Char) (h : Matches (Re.seqs l) s) :
    Matches (Re.seqs (.chr c :: l)) (c :: s) :=
  matches_seqs_cons_mk (s1 := [c]) (.chr c) h

/-- `.` in front -/
theorem matches_any_cons {l : List Re} {s : Str} (c : Char) (hc : c ≠ '\n')
    (h : Matches (Re.seqs l) s) : Matches (Re.seqs (.any :: l)) (c :: s) :=
  matches_seqs_cons_mk (s1 := [c]) (.any c hc) h

/-- a literal string in front -/
theorem matches_lit_append {l : List Re} {s : Str} (k : Str) (h : Matches (Re.seqs l) s) :
    Matches (Re.seqs (k.map .chr ++ l)) (k ++ s) := by
  induction k with
  | nil => simpa using h
  | cons c k ih => exact matches_chr_cons c ih

/-! ### `(F/)*F` matches a non-empty '/'-joined list of strings matching `F` -/

theorem matches_star_sep (F : Re) (sep : Char) (fields : List Str) (hne : fields ≠ [])
    (h : ∀ f ∈ fields, Matches F f) :
    Matches (.seq (.star (.seq F (.chr sep))) F) (join sep fields) := by
  induction fields with
  | nil => exact absurd rfl hne
  | cons f rest ih =>
    cases rest with
    | nil =>
      rw [join_singleton]
      exact Matches.seq (s := []) .starNil (h f (by simp))
    | cons g gs =>
      rw [join_cons_cons']
      obtain ⟨s1, s2, e, h1, h2⟩ :=
        matches_seq_iff.1 (ih (by simp) (fun x hx => h x (List.mem_cons_of_mem _ hx)))
      rw [e]
      have hf : Matches (.seq F (.chr sep)) (f ++ [sep]) := .seq (h f (by simp)) (.chr sep)
      have := Matches.seq (Matches.starCons hf h1) h2
      simpa using this

/-- `sep`-joining with a leading separator -/
theorem sep_cons_join (sep : Char) (fs : List Str) (hne : fs ≠ []) :
    sep :: join sep fs = (fs.map (sep :: ·)).flatten := by
  induction fs with
  | nil => exact absurd rfl hne
  | cons f rest ih =>
    cases rest with
    | nil => simp [join]
    | cons g gs =>
      rw [join_cons_cons', List.map_cons, List.flatten_cons, ← ih (by simp)]
      simp

end Cvss.Spec.Regex
