/-
  Lemmas for C17Messages: the message-carrying parser (`Model/Messages.lean`) against the message-free one
  (`Model/Parse.lean`), and the printed dialogue (`Model/Prompts.lean`) against `Interactive.loop`.
-/
import Cvss.Model.Prompts
import Cvss.Lemmas.Parse
import Cvss.Lemmas.Interactive
namespace Cvss.Lemmas.Messages
open Cvss Cvss.Model Cvss.Model.Messages

/-- the text is the mandatory-metric message -/
def IsMand (e : Str) : Prop := ∃ rest, e = c!"Missing mandatory metrics " ++ rest

theorem IsMand.take2 {e : Str} (h : IsMand e) : e.take 2 = ['M', 'i'] := by
  obtain ⟨r, rfl⟩ := h; rfl

/-- field level: same success; a failure is a failure, and neither side is the mandatory error -/
def FRel : Except Str MMap → Except Err MMap → Prop
  | .ok a, .ok b => a = b
  | .error e, .error x => e.take 2 ≠ ['M', 'i'] ∧ x ≠ .mandatory
  | _, _ => False

theorem fieldMsg_rel (v : Ver) (vec : Str) (acc : MMap) (f : Str) :
    FRel (fieldMsg v vec acc f) (parseField (tablesOf v) acc f) := by
  unfold fieldMsg parseField
  generalize tablesOf v = T
  by_cases h : f = []
  · simp only [h, if_true]
    exact ⟨by simp, by decide⟩
  · simp only [h, if_false]
    generalize splitOn ':' f = l
    rcases l with _ | ⟨m, _ | ⟨val, _ | ⟨x, l⟩⟩⟩
    · exact ⟨by simp, by decide⟩
    · exact ⟨by simp, by decide⟩
    · simp only []
      cases T.v4style
      · simp only [Bool.false_eq_true, if_false]
        by_cases hab : m ∈ T.abbrs
        · simp only [hab, if_true]
          cases lookup m T.legal with
          | none => exact ⟨by simp, by decide⟩
          | some vs =>
            simp only []
            by_cases hv : val ∈ vs
            · simp only [hv, if_true]
              cases hasKey m acc
              · exact rfl
              · exact ⟨by simp, by decide⟩
            · simp only [hv, if_false]
              exact ⟨by simp, by decide⟩
        · simp only [hab, if_false]
          exact ⟨by simp, by decide⟩
      · simp only [if_true]
        cases hasKey m acc
        · simp only [Bool.false_eq_true, if_false]
          cases lookup m T.legal with
          | none => exact ⟨by simp, by decide⟩
          | some vs =>
            simp only []
            by_cases hv : val ∈ vs
            · simp only [hv, if_true]; exact rfl
            · simp only [hv, if_false]
              exact ⟨by simp, by decide⟩
        · exact ⟨by simp, by decide⟩
    · exact ⟨by simp, by decide⟩

theorem fieldsMsg_rel (v : Ver) (vec : Str) (fs : List Str) (acc : MMap) :
    FRel (fieldsMsg v vec acc fs) (parseFields (tablesOf v) acc fs) := by
  induction fs generalizing acc with
  | nil => exact rfl
  | cons f fs ih =>
    have h := fieldMsg_rel v vec acc f
    rw [fieldsMsg, parseFields]
    revert h
    cases fieldMsg v vec acc f <;> cases parseField (tablesOf v) acc f <;> intro h
    · exact h
    · exact h.elim
    · exact h.elim
    · cases h; exact ih _

/-- parser level: same metric map; a failure is a failure; mandatory text ⇔ mandatory class -/
def PRel {β : Type} (proj : β → MMap) : Except Str MMap → Except Err β → Prop
  | .ok a, .ok b => a = proj b
  | .error e, .error x => (IsMand e ↔ x = .mandatory)
  | _, _ => False

theorem PRel.malformed {β : Type} (proj : β → MMap) {e : Str} (h : e.take 2 ≠ ['M', 'i']) :
    PRel proj (.error e) (.error .malformed) :=
  ⟨fun hm => absurd hm.take2 h, fun hx => by cases hx⟩

theorem missing_nil_iff (T : Tables) (m : MMap) :
    T.mandatory.filter (fun k => !hasKey k m) = [] ↔ T.mandatory.all (fun k => hasKey k m) = true := by
  simp [List.filter_eq_nil_iff, List.all_eq_true]

/-- the common tail of the three parsers: field loop, then the mandatory check -/
theorem tail_rel {β : Type} (v : Ver) (T : Tables) (hT : T = tablesOf v) (s : Str) (fs : List Str)
    (mk : MMap → β) (proj : β → MMap) (hp : ∀ m, proj (mk m) = m) :
    PRel proj
      (match fieldsMsg v s [] fs with
        | .error e => .error e
        | .ok m =>
          if (tablesOf v).mandatory.filter (fun k => !hasKey k m) = [] then .ok m
          else .error (c!"Missing mandatory metrics " ++
            q (((tablesOf v).mandatory.filter (fun k => !hasKey k m)).foldl
              (fun acc k => if acc = [] then k else acc ++ c!", " ++ k) [])))
      (match parseFields T [] fs with
        | .error e => .error e
        | .ok m =>
          match checkMandatory T m with
          | .error e => .error e
          | .ok _ => .ok (mk m)) := by
  subst hT
  have h := fieldsMsg_rel v s fs []
  revert h
  cases fieldsMsg v s [] fs <;> cases parseFields (tablesOf v) [] fs <;> intro h
  · exact ⟨fun hm => absurd hm.take2 h.1, fun hx => absurd hx h.2⟩
  · exact h.elim
  · exact h.elim
  · cases h
    rename_i m
    simp only [checkMandatory]
    by_cases hm : (tablesOf v).mandatory.filter (fun k => !hasKey k m) = []
    · rw [if_pos hm, if_pos ((missing_nil_iff _ _).1 hm)]
      exact (hp m).symm
    · rw [if_neg hm, if_neg (fun h => hm ((missing_nil_iff _ _).2 h))]
      exact ⟨fun _ => rfl, fun _ => ⟨_, rfl⟩⟩

theorem parseMsg_rel_v2 (s : Str) : PRel id (parseMsg .v2 s) (V2.parse s) := by
  unfold parseMsg V2.parse parseNoPrefix
  by_cases h : s = []
  · simp only [h, if_true]
    exact PRel.malformed _ (by simp)
  · simp only [h, if_false]
    cases endsWithChar '/' s
    · simp only [Bool.false_eq_true, if_false]
      exact tail_rel .v2 V2.tables rfl s (splitOn '/' s) id id (fun _ => rfl)
    · simp only [if_true]
      exact PRel.malformed _ (by simp)

theorem any_of_findIdx? {α : Type} (p : α → Bool) (l : List α) :
    l.any p = (l.findIdx? p).isSome := by
  cases h : l.findIdx? p with
  | none =>
    rw [List.findIdx?_eq_none_iff] at h
    simpa using h
  | some i =>
    obtain ⟨hlt, hp, -⟩ := List.findIdx?_eq_some_iff_getElem.1 h
    simp only [Option.isSome_some, List.any_eq_true]
    exact ⟨l[i], List.getElem_mem hlt, hp⟩

theorem parseMsg_rel_v3 (s : Str) : PRel Prod.snd (parseMsg .v3 s) (V3.parse s) := by
  unfold parseMsg V3.parse parseWithPrefix
  by_cases h : s = []
  · simp only [h, if_true]
    exact PRel.malformed _ (by simp)
  · simp only [h, if_false]
    cases endsWithChar '/' s
    · simp only [Bool.false_eq_true, if_false, prefixesOf, any_of_findIdx?]
      cases V3.prefixes.findIdx? (fun p => startsWith p s) with
      | none =>
        simp only [Option.isSome_none, Bool.false_eq_true, if_false]
        exact PRel.malformed _ (by simp)
      | some i =>
        simp only [Option.isSome_some, if_true]
        have := tail_rel .v3 V3.tables rfl s ((splitOn '/' s).drop 1) (fun m => (i, m)) Prod.snd (fun _ => rfl)
        revert this
        cases parseFields V3.tables [] ((splitOn '/' s).drop 1) <;> exact id
    · simp only [if_true]
      exact PRel.malformed _ (by simp)

theorem parseMsg_rel_v4 (s : Str) : PRel id (parseMsg .v4 s) (V4.parse s) := by
  unfold parseMsg V4.parse parseWithPrefix
  by_cases h : s = []
  · simp only [h, if_true]
    exact PRel.malformed _ (by simp)
  · simp only [h, if_false]
    cases endsWithChar '/' s
    · simp only [Bool.false_eq_true, if_false, prefixesOf, any_of_findIdx?]
      cases [V4.pfx].findIdx? (fun p => startsWith p s) with
      | none =>
        simp only [Option.isSome_none, Bool.false_eq_true, if_false]
        exact PRel.malformed _ (by simp)
      | some i =>
        simp only [Option.isSome_some, if_true]
        have := tail_rel .v4 V4.tables rfl s ((splitOn '/' s).drop 1) id id (fun _ => rfl)
        revert this
        cases parseFields V4.tables [] ((splitOn '/' s).drop 1) <;> exact id
    · simp only [if_true]
      exact PRel.malformed _ (by simp)

/-! ### reading the relation -/

theorem PRel.ok_iff {β : Type} {proj : β → MMap} {x : Except Str MMap} {y : Except Err β}
    (h : PRel proj x y) (m : MMap) : x = .ok m ↔ ∃ b, y = .ok b ∧ proj b = m := by
  revert h
  cases x <;> cases y <;> intro h
  · simp
  · exact h.elim
  · exact h.elim
  · change _ = _ at h
    subst h
    simp [eq_comm]

theorem PRel.mand_iff {β : Type} {proj : β → MMap} {x : Except Str MMap} {y : Except Err β}
    (h : PRel proj x y) : (∃ e, x = .error e ∧ IsMand e) ↔ y = .error .mandatory := by
  revert h
  cases x <;> cases y <;> intro h
  · rename_i e x
    change _ ↔ _ at h
    simp [h]
  · exact h.elim
  · exact h.elim
  · simp

/-! ### the printed dialogue against `Interactive.loop` -/

open Cvss.Model.Interactive Cvss.Model.Prompts in
/-- every metric that is asked has a full name to print -/
theorem asked_have_names :
    ([IVer.i2, .i30, .i31, .i4].all fun v => [true, false].all fun a =>
      (if a then abbrsOf v else mandatoryOf v).all fun m => (lookup m (abbrNamesOf v)).isSome) = true := by
  decide +kernel

open Cvss.Model.Interactive Cvss.Model.Prompts in
theorem dialogueLoop_loop (v : IVer) (nc : Bool) (ms : List Str)
    (h : ∀ m ∈ ms, (lookup m (abbrNamesOf v)).isSome = true) (answers : List Str) (out : Str)
    (fields : List Str) (asked : List (Str × Nat)) :
    (dialogueLoop v nc ms answers out fields).2.map (fun fs => prefixOf v ++ join '/' fs) =
      match loop v ms answers fields asked with
      | .result vec _ _ => some vec
      | _ => none := by
  induction ms generalizing answers out fields asked with
  | nil => simp [dialogueLoop, loop]
  | cons m ms ih =>
    obtain ⟨full, hfull⟩ := Option.isSome_iff_exists.1 (h m (by simp))
    rw [dialogueLoop, loop]
    simp only [hfull]
    cases lookup m (valueNamesOf v) with
    | none => rfl
    | some row =>
      simp only []
      cases askOne v (keys row) answers with
      | none => rfl
      | some t =>
        obtain ⟨x, rest, n⟩ := t
        simp only []
        exact ih (fun m' hm' => h m' (List.mem_cons_of_mem _ hm')) _ _ _ _

end Cvss.Lemmas.Messages
