/-
  Characterisation of the generic field parser `parseFields` (Model/Parse.lean).
-/
import Cvss.Model.Parse
import Cvss.Lemmas.Str
namespace Cvss.Model
open Cvss

/-- well-formedness of the tables a parser consults; decided by the kernel for the generated tables:
    every metric of `abbrs` has a row in `legal` (no KeyError) and `legal` has no other rows -/
def Tables.wf (T : Tables) : Bool :=
  T.abbrs.all (fun m => (lookup m T.legal).isSome) && (keys T.legal).all (fun m => decide (m ∈ T.abbrs))

/-- the text of a field -/
def fieldOf (kv : Str × Str) : Str := kv.1 ++ ':' :: kv.2

/-- `(metric, value)` is a legal pair of the tables and neither part contains ':' -/
def LegalPair (T : Tables) (kv : Str × Str) : Prop :=
  kv.1 ∈ T.abbrs ∧ (∃ vs, lookup kv.1 T.legal = some vs ∧ kv.2 ∈ vs) ∧ ':' ∉ kv.1 ∧ ':' ∉ kv.2

/-! ### consequences of well-formed tables -/

theorem Tables.wf_lookup_of_mem_abbrs {T : Tables} (hT : T.wf = true) {m : Str} (h : m ∈ T.abbrs) :
    ∃ vs, lookup m T.legal = some vs := by
  unfold Tables.wf at hT
  rw [Bool.and_eq_true] at hT
  have := List.all_eq_true.1 hT.1 m h
  exact Option.isSome_iff_exists.1 this

theorem Tables.wf_mem_abbrs_of_lookup {T : Tables} (hT : T.wf = true) {m : Str} {vs : List Str}
    (h : lookup m T.legal = some vs) : m ∈ T.abbrs := by
  unfold Tables.wf at hT
  rw [Bool.and_eq_true] at hT
  have hk : m ∈ keys T.legal := mem_keys_of_mem (mem_of_lookup_eq_some _ _ _ h)
  have := List.all_eq_true.1 hT.2 m hk
  exact of_decide_eq_true this

/-! ### one field -/

theorem parseField_ok_iff (T : Tables) (hT : T.wf = true) (acc : MMap) (f : Str) (acc' : MMap) :
    parseField T acc f = .ok acc' ↔
      ∃ kv, f = fieldOf kv ∧ LegalPair T kv ∧ kv.1 ∉ keys acc ∧ acc' = acc ++ [kv] := by
  constructor
  · intro h
    unfold parseField at h
    split at h
    · cases h
    · split at h
      · rename_i m v hsp
        obtain ⟨hf, hm, hv⟩ := (splitOn_eq_pair_iff _ _ _ _).1 hsp
        split at h
        · -- v4 style
          split at h
          · cases h
          · rename_i hk
            split at h
            · cases h
            · rename_i vs hl
              split at h
              · rename_i hvs
                cases h
                refine ⟨(m, v), hf, ⟨T.wf_mem_abbrs_of_lookup hT hl, ⟨vs, hl, hvs⟩, hm, hv⟩, ?_, rfl⟩
                intro hmem
                exact hk ((hasKey_iff_mem_keys _ _).2 hmem)
              · cases h
        · split at h
          · rename_i hab
            split at h
            · cases h
            · rename_i vs hl
              split at h
              · rename_i hvs
                split at h
                · cases h
                · rename_i hk
                  cases h
                  refine ⟨(m, v), hf, ⟨hab, ⟨vs, hl, hvs⟩, hm, hv⟩, ?_, rfl⟩
                  intro hmem
                  exact hk ((hasKey_iff_mem_keys _ _).2 hmem)
              · cases h
          · cases h
      · cases h
  · rintro ⟨⟨m, v⟩, rfl, ⟨hab, ⟨vs, hl, hvs⟩, hm, hv⟩, hk, rfl⟩
    have hsp : splitOn ':' (fieldOf (m, v)) = [m, v] :=
      (splitOn_eq_pair_iff _ _ _ _).2 ⟨rfl, hm, hv⟩
    have hne : fieldOf (m, v) ≠ [] := by simp [fieldOf]
    have hk' : hasKey m acc = false := by
      cases hb : hasKey m acc with
      | false => rfl
      | true => exact absurd ((hasKey_iff_mem_keys _ _).1 hb) hk
    simp only at hl hvs hab hk
    unfold parseField
    rw [if_neg hne, hsp]
    simp only [hk', hl, hvs, hab, if_true, Bool.false_eq_true, if_false]
    cases T.v4style <;> simp

theorem parseField_error (T : Tables) (hT : T.wf = true) (acc : MMap) (f : Str) (e : Err)
    (h : parseField T acc f = .error e) : e = .malformed := by
  unfold parseField at h
  split at h
  · cases h; rfl
  · split at h
    · rename_i m v hsp
      split at h
      · split at h
        · cases h; rfl
        · split at h
          · cases h; rfl
          · split at h <;> cases h; rfl
      · split at h
        · rename_i hab
          split at h
          · rename_i hl
            obtain ⟨vs, hvs⟩ := T.wf_lookup_of_mem_abbrs hT hab
            rw [hvs] at hl; cases hl
          · split at h
            · split at h <;> cases h; rfl
            · cases h; rfl
        · cases h; rfl
    · cases h; rfl

/-! ### the field loop -/

theorem parseFields_nil (T : Tables) (acc : MMap) : parseFields T acc [] = .ok acc := rfl

theorem parseFields_cons_ok_iff (T : Tables) (acc : MMap) (f : Str) (fs : List Str) (m : MMap) :
    parseFields T acc (f :: fs) = .ok m ↔
      ∃ acc', parseField T acc f = .ok acc' ∧ parseFields T acc' fs = .ok m := by
  rw [parseFields]
  cases h : parseField T acc f with
  | error e => simp
  | ok a => simp

theorem parseFields_cons_error_iff (T : Tables) (acc : MMap) (f : Str) (fs : List Str) (e : Err) :
    parseFields T acc (f :: fs) = .error e ↔
      parseField T acc f = .error e ∨
        ∃ acc', parseField T acc f = .ok acc' ∧ parseFields T acc' fs = .error e := by
  rw [parseFields]
  cases h : parseField T acc f with
  | error e' => simp
  | ok a => simp

/-- generalisation over the accumulator -/
theorem parseFields_acc_ok_iff (T : Tables) (hT : T.wf = true) (fs : List Str) (acc m : MMap) :
    parseFields T acc fs = .ok m ↔
      ∃ m', m = acc ++ m' ∧ fs = m'.map fieldOf ∧ (∀ kv ∈ m', LegalPair T kv) ∧ (keys m').Nodup ∧
        ∀ k ∈ keys m', k ∉ keys acc := by
  induction fs generalizing acc with
  | nil =>
    rw [parseFields_nil]
    constructor
    · intro h; cases h
      exact ⟨[], by simp, rfl, by simp, by simp [keys], by simp [keys]⟩
    · rintro ⟨m', rfl, hfs, -⟩
      have : m' = [] := by simpa using hfs.symm
      subst this; simp
  | cons f fs ih =>
    rw [parseFields_cons_ok_iff]
    constructor
    · rintro ⟨acc', hf, hrest⟩
      obtain ⟨kv, rfl, hleg, hk, rfl⟩ := (parseField_ok_iff T hT _ _ _).1 hf
      obtain ⟨m'', rfl, rfl, hleg', hnd, hdisj⟩ := (ih _).1 hrest
      refine ⟨kv :: m'', by simp, rfl, ?_, ?_, ?_⟩
      · intro x hx
        rcases List.mem_cons.1 hx with rfl | hx
        · exact hleg
        · exact hleg' x hx
      · simp only [keys, List.map_cons, List.nodup_cons]
        refine ⟨?_, hnd⟩
        intro hmem
        exact hdisj kv.1 hmem (by simp [keys])
      · intro k hk'
        simp only [keys, List.map_cons, List.mem_cons] at hk'
        rcases hk' with rfl | hk'
        · exact hk
        · intro hacc
          exact hdisj k hk' (by rw [keys_append]; exact List.mem_append_left _ hacc)
    · rintro ⟨m', rfl, hfs, hleg, hnd, hdisj⟩
      cases m' with
      | nil => simp at hfs
      | cons kv m'' =>
        simp only [List.map_cons, List.cons.injEq] at hfs
        obtain ⟨rfl, rfl⟩ := hfs
        simp only [keys, List.map_cons, List.nodup_cons] at hnd
        refine ⟨acc ++ [kv], (parseField_ok_iff T hT _ _ _).2
          ⟨kv, rfl, hleg kv (by simp), hdisj kv.1 (by simp [keys]), rfl⟩, ?_⟩
        refine (ih _).2 ⟨m'', by simp, rfl, fun x hx => hleg x (List.mem_cons_of_mem _ hx), hnd.2, ?_⟩
        intro k hk hacc
        rw [keys_append] at hacc
        rcases List.mem_append.1 hacc with h | h
        · exact hdisj k (by simp only [keys, List.map_cons]; exact List.mem_cons_of_mem _ hk) h
        · simp only [keys, List.map_cons, List.map_nil, List.mem_singleton] at h
          subst h
          exact hnd.1 hk

theorem parseFields_acc_error (T : Tables) (hT : T.wf = true) (fs : List Str) (acc : MMap) (e : Err)
    (h : parseFields T acc fs = .error e) : e = .malformed := by
  induction fs generalizing acc with
  | nil => cases h
  | cons f fs ih =>
    rcases (parseFields_cons_error_iff _ _ _ _ _).1 h with h | ⟨acc', _, h⟩
    · exact parseField_error T hT _ _ _ h
    · exact ih _ h

/-- the field loop succeeds with map `m` exactly when the fields are the texts of the pairs of `m`,
    in order, every pair is legal, and no metric repeats -/
theorem parseFields_ok_iff (T : Tables) (hT : T.wf = true) (fs : List Str) (m : MMap) :
    parseFields T [] fs = .ok m ↔
      fs = m.map fieldOf ∧ (∀ kv ∈ m, LegalPair T kv) ∧ (keys m).Nodup := by
  rw [parseFields_acc_ok_iff T hT]
  constructor
  · rintro ⟨m', rfl, hfs, hleg, hnd, -⟩
    exact ⟨by simpa using hfs, by simpa using hleg, by simpa using hnd⟩
  · rintro ⟨hfs, hleg, hnd⟩
    exact ⟨m, by simp, hfs, hleg, hnd, by simp [keys]⟩

/-- with well-formed tables the field loop can only fail with the malformed-vector error -/
theorem parseFields_error (T : Tables) (hT : T.wf = true) (fs : List Str) (e : Err)
    (h : parseFields T [] fs = .error e) : e = .malformed :=
  parseFields_acc_error T hT fs [] e h


/-! ### `parse_vector` and `check_mandatory`, for arbitrary well-formed tables -/

/-- neither part of any pair contains '/' -/
def SlashFree (m : MMap) : Prop := ∀ kv ∈ m, '/' ∉ kv.1 ∧ '/' ∉ kv.2

/-- every accepted prefix is a '/'-free token followed by '/', and no prefix repeats -/
def PfxOk (pfxs : List Str) : Prop :=
  (∀ p ∈ pfxs, ∃ p0, p = p0 ++ ['/'] ∧ '/' ∉ p0) ∧ pfxs.Nodup

theorem fieldOf_ne_nil (kv : Str × Str) : fieldOf kv ≠ [] := by simp [fieldOf]

theorem slash_not_mem_fieldOf {kv : Str × Str} (h : '/' ∉ kv.1 ∧ '/' ∉ kv.2) : '/' ∉ fieldOf kv := by
  have : '/' ≠ ':' := by decide
  simp [fieldOf, h.1, h.2, this]

theorem render_facts (m : MMap) (hne : m ≠ []) (hs : SlashFree m) :
    m.map fieldOf ≠ [] ∧ (∀ f ∈ m.map fieldOf, '/' ∉ f) ∧ (∀ f ∈ m.map fieldOf, f ≠ []) := by
  refine ⟨by simpa using hne, ?_, ?_⟩
  · intro f hf
    obtain ⟨kv, hkv, rfl⟩ := List.mem_map.1 hf
    exact slash_not_mem_fieldOf (hs kv hkv)
  · intro f hf
    obtain ⟨kv, _, rfl⟩ := List.mem_map.1 hf
    exact fieldOf_ne_nil kv

theorem render_ne_nil (m : MMap) (hne : m ≠ []) : join '/' (m.map fieldOf) ≠ [] := by
  cases m with
  | nil => exact absurd rfl hne
  | cons kv r => exact join_ne_nil _ _ ⟨fieldOf kv, by simp, fieldOf_ne_nil kv⟩

theorem parseNoPrefix_ok_of (T : Tables) (hT : T.wf = true) (s : Str) (m : MMap)
    (h : parseNoPrefix T s = .ok m) :
    s = join '/' (m.map fieldOf) ∧ m ≠ [] ∧ (∀ kv ∈ m, LegalPair T kv) ∧ (keys m).Nodup := by
  unfold parseNoPrefix at h
  split at h
  · cases h
  · split at h
    · cases h
    · obtain ⟨hfs, hl, hn⟩ := (parseFields_ok_iff T hT _ _).1 h
      refine ⟨?_, ?_, hl, hn⟩
      · rw [← hfs, join_splitOn]
      · rintro rfl
        exact splitOn_ne_nil _ _ hfs

theorem parseNoPrefix_ok (T : Tables) (hT : T.wf = true) (m : MMap) (hne : m ≠ [])
    (hl : ∀ kv ∈ m, LegalPair T kv) (hs : SlashFree m) (hn : (keys m).Nodup) :
    parseNoPrefix T (join '/' (m.map fieldOf)) = .ok m := by
  obtain ⟨h1, h2, h3⟩ := render_facts m hne hs
  unfold parseNoPrefix
  rw [if_neg (render_ne_nil m hne), endsWithChar_join _ _ h1 h2 h3, splitOn_join _ _ h1 h2]
  simp only [Bool.false_eq_true, if_false]
  exact (parseFields_ok_iff T hT _ _).2 ⟨rfl, hl, hn⟩

theorem parseNoPrefix_error (T : Tables) (hT : T.wf = true) (s : Str) (e : Err)
    (h : parseNoPrefix T s = .error e) : e = .malformed := by
  unfold parseNoPrefix at h
  split at h
  · cases h; rfl
  · split at h
    · cases h; rfl
    · exact parseFields_error T hT _ _ h

theorem splitOn_pfx (p0 rest : Str) (h : '/' ∉ p0) :
    splitOn '/' ((p0 ++ ['/']) ++ rest) = p0 :: splitOn '/' rest := by
  rw [List.append_assoc]
  exact splitOn_append_sep '/' p0 rest h

theorem parseWithPrefix_ok_of (T : Tables) (hT : T.wf = true) (pfxs : List Str)
    (hp : ∀ p ∈ pfxs, ∃ p0, p = p0 ++ ['/'] ∧ '/' ∉ p0) (s : Str) (i : Nat) (m : MMap)
    (h : parseWithPrefix T pfxs s = .ok (i, m)) :
    (∃ p, pfxs[i]? = some p ∧ s = p ++ join '/' (m.map fieldOf)) ∧ m ≠ [] ∧
      (∀ kv ∈ m, LegalPair T kv) ∧ (keys m).Nodup := by
  unfold parseWithPrefix at h
  split at h
  · cases h
  · split at h
    · cases h
    · split at h
      · cases h
      · rename_i j hj
        split at h
        · cases h
        · rename_i m' hm'
          cases h
          obtain ⟨hlt, hsw, -⟩ := List.findIdx?_eq_some_iff_getElem.1 hj
          obtain ⟨rest, rfl⟩ := (startsWith_iff _ _).1 hsw
          obtain ⟨p0, hp0, hp0'⟩ := hp _ (List.getElem_mem hlt)
          rw [hp0, splitOn_pfx _ _ hp0'] at hm'
          simp only [List.drop_succ_cons, List.drop_zero] at hm'
          obtain ⟨hfs, hl, hn⟩ := (parseFields_ok_iff T hT _ _).1 hm'
          refine ⟨⟨pfxs[i], List.getElem?_eq_getElem hlt, ?_⟩, ?_, hl, hn⟩
          · rw [← hfs, join_splitOn]
          · rintro rfl
            exact splitOn_ne_nil _ _ hfs

theorem parseWithPrefix_ok (T : Tables) (hT : T.wf = true) (pfxs : List Str) (hp : PfxOk pfxs)
    (i : Nat) (p : Str) (hpi : pfxs[i]? = some p) (m : MMap) (hne : m ≠ [])
    (hl : ∀ kv ∈ m, LegalPair T kv) (hs : SlashFree m) (hn : (keys m).Nodup) :
    parseWithPrefix T pfxs (p ++ join '/' (m.map fieldOf)) = .ok (i, m) := by
  obtain ⟨h1, h2, h3⟩ := render_facts m hne hs
  obtain ⟨hlt, hpe⟩ := List.getElem?_eq_some_iff.1 hpi
  obtain ⟨p0, hp0, hp0'⟩ := hp.1 p (List.mem_of_getElem? hpi)
  have hrne := render_ne_nil m hne
  have hidx : pfxs.findIdx? (fun q => startsWith q (p ++ join '/' (m.map fieldOf))) = some i := by
    rw [List.findIdx?_eq_some_iff_getElem]
    refine ⟨hlt, ?_, ?_⟩
    · rw [hpe]; exact (startsWith_iff _ _).2 ⟨_, rfl⟩
    · intro j hji hsw
      have hjlt : j < pfxs.length := Nat.lt_trans hji hlt
      obtain ⟨r, hr⟩ := (startsWith_iff _ _).1 hsw
      obtain ⟨q0, hq0, hq0'⟩ := hp.1 _ (List.getElem_mem hjlt)
      have := congrArg (splitOn '/') hr
      rw [hq0, hp0, splitOn_pfx _ _ hp0', splitOn_pfx _ _ hq0'] at this
      have hpq : p0 = q0 := (List.cons.inj this).1
      have heq : pfxs[j] = pfxs[i] := by rw [hq0, hpe, hp0, hpq]
      have hpw := List.pairwise_iff_getElem.1 (List.nodup_iff_pairwise_ne.1 hp.2) j i hjlt hlt hji
      exact hpw heq
  unfold parseWithPrefix
  rw [if_neg (by simp [hrne]), endsWithChar_append _ _ _ hrne, endsWithChar_join _ _ h1 h2 h3]
  simp only [Bool.false_eq_true, if_false, hidx]
  rw [hp0, splitOn_pfx _ _ hp0', splitOn_join _ _ h1 h2]
  simp only [List.drop_succ_cons, List.drop_zero]
  rw [(parseFields_ok_iff T hT _ _).2 ⟨rfl, hl, hn⟩]

theorem parseWithPrefix_error (T : Tables) (hT : T.wf = true) (pfxs : List Str) (s : Str) (e : Err)
    (h : parseWithPrefix T pfxs s = .error e) : e = .malformed := by
  unfold parseWithPrefix at h
  split at h
  · cases h; rfl
  · split at h
    · cases h; rfl
    · split at h
      · cases h; rfl
      · split at h
        · rename_i e' he'
          cases h
          exact parseFields_error T hT _ _ he'
        · cases h

theorem checkMandatory_ok_iff (T : Tables) (m : MMap) :
    checkMandatory T m = .ok () ↔ ∀ k ∈ T.mandatory, k ∈ keys m := by
  unfold checkMandatory
  split
  · rename_i h
    refine ⟨fun _ k hk => ?_, fun _ => rfl⟩
    exact (hasKey_iff_mem_keys _ _).1 (List.all_eq_true.1 h k hk)
  · rename_i h
    refine ⟨fun h' => (by cases h'), fun h' => absurd ?_ h⟩
    exact List.all_eq_true.2 (fun k hk => (hasKey_iff_mem_keys _ _).2 (h' k hk))

theorem checkMandatory_error_iff (T : Tables) (m : MMap) (e : Err) :
    checkMandatory T m = .error e ↔ e = .mandatory ∧ ∃ k ∈ T.mandatory, k ∉ keys m := by
  by_cases h : ∀ k ∈ T.mandatory, k ∈ keys m
  · have := (checkMandatory_ok_iff T m).2 h
    rw [this]
    constructor
    · intro h'; cases h'
    · rintro ⟨-, k, hk, hk'⟩; exact absurd (h k hk) hk'
  · have h' : ¬ checkMandatory T m = .ok () := fun hc => h ((checkMandatory_ok_iff T m).1 hc)
    have hex : ∃ k ∈ T.mandatory, k ∉ keys m := by
      apply Classical.byContradiction
      intro hne
      apply h
      intro k hk
      apply Classical.byContradiction
      intro hk'
      exact hne ⟨k, hk, hk'⟩
    unfold checkMandatory at h' ⊢
    split
    · rename_i hc; simp [hc] at h'
    · constructor
      · intro he; cases he; exact ⟨rfl, hex⟩
      · rintro ⟨rfl, -⟩; rfl

end Cvss.Model
