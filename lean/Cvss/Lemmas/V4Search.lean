/-
  C02 helpers: severity distances on numeric levels (existence of a dominating highest-severity
  vector and irrelevance of the choice), and the library's search loop over the product of the
  per-class highest-severity vectors.
-/
import Mathlib.Tactic.Ring
import Mathlib.Tactic.Push
import Cvss.Lemmas.V4
import Cvss.Lemmas.Num4
namespace Cvss.Lemmas.V4Search
open Cvss Cvss.Model Cvss.Lemmas.V4 Cvss.Lemmas.V4Table Cvss.Lemmas.Num Cvss.Lemmas.Num4
open Cvss.Lemmas.V2 (lookup_mem)

/-! ### numeric shadow of `dominates` / `distFrom` / `distance` -/

/-- severity level of the effective value -/
def lv (a : Str → Str) (k : Str) : Nat := Spec.V4.level k (Spec.V4.eff a k)

/-- levels of a highest-severity vector -/
def lvls (mx : List (Str × Str)) : List Nat := mx.map fun p => Spec.V4.level p.1 p.2

def domN : List Nat → List Nat → Bool
  | l :: ls, x :: xs => decide (x ≤ l) && domN ls xs
  | _, _ => true

def distN : List Nat → List Nat → Nat
  | l :: ls, x :: xs => (l - x) + distN ls xs
  | _, _ => 0

def distanceN (ls : List Nat) (ms : List (List Nat)) : Nat :=
  match ms.find? (domN ls) with
  | some mx => distN ls mx
  | none => 0

/-- one dominating vector exists, and every dominating vector is at the distance of the first -/
def goodN (ls : List Nat) (ms : List (List Nat)) : Bool :=
  ms.any (domN ls) && ms.all (fun mx => !domN ls mx || distN ls mx == distanceN ls ms)

theorem dominates_eq (a : Str → Str) : ∀ (K : List Str) (mx : List (Str × Str)), keys mx = K →
    Spec.V4.dominates a mx = domN (K.map (lv a)) (lvls mx) := by
  intro K mx
  induction mx generalizing K with
  | nil => intro h; cases K <;> simp [Spec.V4.dominates, lvls, domN]
  | cons p r ih =>
    intro h
    obtain ⟨m, v⟩ := p
    cases K with
    | nil => simp [keys] at h
    | cons k K' =>
      simp only [keys, List.map_cons, List.cons.injEq] at h
      obtain ⟨rfl, h2⟩ := h
      have := ih K' h2
      simp only [Spec.V4.dominates] at this
      simp only [Spec.V4.dominates, List.all_cons, List.map_cons, lvls, domN, this, lv]

theorem distFrom_eq (a : Str → Str) : ∀ (K : List Str) (mx : List (Str × Str)), keys mx = K →
    Spec.V4.distFrom a mx = distN (K.map (lv a)) (lvls mx) := by
  intro K mx
  induction mx generalizing K with
  | nil => intro h; cases K <;> simp [Spec.V4.distFrom, lvls, distN]
  | cons p r ih =>
    intro h
    obtain ⟨m, v⟩ := p
    cases K with
    | nil => simp [keys] at h
    | cons k K' =>
      simp only [keys, List.map_cons, List.cons.injEq] at h
      obtain ⟨rfl, h2⟩ := h
      have := ih K' h2
      simp only [Spec.V4.distFrom] at this
      simp only [Spec.V4.distFrom, List.map_cons, List.sum_cons, lvls, distN, this, lv]

theorem distance_eq (a : Str → Str) (K : List Str) : ∀ (maxes : List (List (Str × Str))),
    (∀ mx ∈ maxes, keys mx = K) →
    Spec.V4.distance a maxes = distanceN (K.map (lv a)) (maxes.map lvls) := by
  intro maxes
  induction maxes with
  | nil => intro _; rfl
  | cons mx r ih =>
    intro h
    have h1 := dominates_eq a K mx (h mx List.mem_cons_self)
    have h2 := distFrom_eq a K mx (h mx List.mem_cons_self)
    have h3 := ih (fun mx' hm => h mx' (List.mem_cons_of_mem _ hm))
    unfold Spec.V4.distance distanceN at h3 ⊢
    simp only [List.map_cons, List.find?_cons, ← h1]
    cases hd : Spec.V4.dominates a mx with
    | true => simp only [h2]
    | false => exact h3

theorem good_of_goodN (a : Str → Str) (K : List Str) (maxes : List (List (Str × Str)))
    (hK : ∀ mx ∈ maxes, keys mx = K) (h : goodN (K.map (lv a)) (maxes.map lvls) = true) :
    (∃ mx ∈ maxes, Spec.V4.dominates a mx = true) ∧
    (∀ mx ∈ maxes, Spec.V4.dominates a mx = true →
      Spec.V4.distFrom a mx = Spec.V4.distance a maxes) := by
  unfold goodN at h
  simp only [Bool.and_eq_true, List.any_eq_true, List.all_eq_true, List.mem_map, Bool.or_eq_true,
    Bool.not_eq_true', beq_iff_eq] at h
  obtain ⟨⟨x, ⟨mx, hmx, rfl⟩, hdom⟩, hall⟩ := h
  constructor
  · exact ⟨mx, hmx, by rw [dominates_eq a K mx (hK mx hmx)]; exact hdom⟩
  · intro mx' hmx' hd
    rw [dominates_eq a K mx' (hK mx' hmx')] at hd
    rcases hall _ ⟨mx', hmx', rfl⟩ with h1 | h1
    · rw [hd] at h1; cases h1
    · rw [distFrom_eq a K mx' (hK mx' hmx'), distance_eq a K maxes hK]; exact h1


/-! ### tokens and levels -/

/-- legal effective values (hypothesis of `v4_distance_choice_irrelevant`) -/
def LegalEff (a : Str → Str) : Prop :=
  ∀ p ∈ Spec.V4.levelTable, (lookup (Spec.V4.eff a p.1) p.2).isSome

/-- within the row of metric `k`, token `v` is exactly the one at level `n` -/
def isChk (k v : Str) (n : Nat) : Bool :=
  match lookup k Spec.V4.levelTable with
  | none => false
  | some row => row.all fun q => decide (q.1 = v) == (q.2 == n)

/-- all levels of metric `k` lie in `[lo, hi)` -/
def lvChk (k : Str) (lo hi : Nat) : Bool :=
  match lookup k Spec.V4.levelTable with
  | none => false
  | some row => row.all fun q => decide (lo ≤ q.2) && decide (q.2 < hi)

theorem lv_row {a : Str → Str} (hl : LegalEff a) {k : Str} {row : List (Str × Nat)}
    (hrow : lookup k Spec.V4.levelTable = some row) :
    (Spec.V4.eff a k, lv a k) ∈ row := by
  have h1 := hl (k, row) (lookup_mem hrow)
  obtain ⟨n, hn⟩ := Option.isSome_iff_exists.mp h1
  simp only at hn
  have : lv a k = n := by
    unfold lv Spec.V4.level
    rw [hrow]; simp only [hn, Option.getD_some]
  rw [this]
  exact lookup_mem hn

theorem is_lv {a : Str → Str} (hl : LegalEff a) {k v : Str} {n : Nat} (h : isChk k v n = true) :
    decide (Spec.V4.eff a k = v) = (lv a k == n) := by
  unfold isChk at h
  cases hrow : lookup k Spec.V4.levelTable with
  | none => rw [hrow] at h; cases h
  | some row =>
    rw [hrow] at h
    have := List.all_eq_true.mp h _ (lv_row hl hrow)
    exact eq_of_beq this

theorem lv_bounds {a : Str → Str} (hl : LegalEff a) {k : Str} {lo hi : Nat}
    (h : lvChk k lo hi = true) : lo ≤ lv a k ∧ lv a k < hi := by
  unfold lvChk at h
  cases hrow : lookup k Spec.V4.levelTable with
  | none => rw [hrow] at h; cases h
  | some row =>
    rw [hrow] at h
    have := List.all_eq_true.mp h _ (lv_row hl hrow)
    simpa using this

/-! ### the four classes on numeric levels -/

def K1 : List Str := [c!"AV", c!"PR", c!"UI"]
def K2 : List Str := [c!"AC", c!"AT"]
def K36 : List Str := [c!"VC", c!"VI", c!"VA", c!"CR", c!"IR", c!"AR"]
def K4 : List Str := [c!"SC", c!"SI", c!"SA"]

def eq1N (av pr ui : Nat) : Nat :=
  if av == 0 && pr == 0 && ui == 0 then 0
  else if (av == 0 || pr == 0 || ui == 0) && !(av == 3) then 1
  else 2
def eq2N (ac at' : Nat) : Nat := if ac == 0 && at' == 0 then 0 else 1
def eq3N (vc vi va : Nat) : Nat :=
  if vc == 0 && vi == 0 then 0 else if vc == 0 || vi == 0 || va == 0 then 1 else 2
def eq6N (vc vi va cr ir ar : Nat) : Nat :=
  if (cr == 0 && vc == 0) || (ir == 0 && vi == 0) || (ar == 0 && va == 0) then 0 else 1
def eq4N (sc si sa : Nat) : Nat :=
  if si == 0 || sa == 0 then 0 else if sc == 1 || si == 1 || sa == 1 then 1 else 2

def max1N : Nat → List (List Nat)
  | 0 => [[0, 0, 0]]
  | 1 => [[1, 0, 0], [0, 1, 0], [0, 0, 1]]
  | _ => [[3, 0, 0], [1, 1, 1]]
def max2N : Nat → List (List Nat)
  | 0 => [[0, 0]]
  | _ => [[1, 0], [0, 1]]
def max36N : Nat → Nat → List (List Nat)
  | 0, 0 => [[0, 0, 0, 0, 0, 0]]
  | 0, _ => [[0, 0, 1, 1, 1, 0], [0, 0, 0, 1, 1, 1]]
  | 1, 0 => [[1, 0, 0, 0, 0, 0], [0, 1, 0, 0, 0, 0]]
  | 1, _ => [[1, 0, 1, 0, 1, 0], [1, 0, 0, 0, 1, 1], [0, 1, 0, 1, 0, 1], [0, 1, 1, 1, 0, 0], [1, 1, 0, 0, 0, 1]]
  | _, _ => [[1, 1, 1, 0, 0, 0]]
def max4N : Nat → List (List Nat)
  | 0 => [[1, 0, 0]]
  | 1 => [[1, 1, 1]]
  | _ => [[2, 2, 2]]

/-- a class vector lists exactly the class's metrics, with tokens that have a level -/
def wfMx (K : List Str) (mx : List (Str × Str)) : Bool :=
  decide (keys mx = K) && mx.all fun p =>
    match lookup p.1 Spec.V4.levelTable with
    | none => false
    | some row => (lookup p.2 row).isSome

theorem max1_facts : ∀ e, e ≤ 2 →
    (Spec.V4.max1 e).map lvls = max1N e ∧ (Spec.V4.max1 e).all (wfMx K1) = true := by decide +kernel
theorem max2_facts : ∀ e, e ≤ 1 →
    (Spec.V4.max2 e).map lvls = max2N e ∧ (Spec.V4.max2 e).all (wfMx K2) = true := by decide +kernel
theorem max36_facts : ∀ e3, e3 ≤ 2 → ∀ e6, e6 ≤ 1 →
    (Spec.V4.max36 e3 e6).map lvls = max36N e3 e6 ∧ (Spec.V4.max36 e3 e6).all (wfMx K36) = true := by
  decide +kernel
theorem max4_facts : ∀ e, e ≤ 2 →
    (Spec.V4.max4 e).map lvls = max4N e ∧ (Spec.V4.max4 e).all (wfMx K4) = true := by decide +kernel

theorem chk1 : ((List.range 4).all fun av => (List.range 3).all fun pr => (List.range 3).all fun ui =>
    goodN [av, pr, ui] (max1N (eq1N av pr ui))) = true := by decide +kernel
theorem chk2 : ((List.range 2).all fun ac => (List.range 2).all fun at' =>
    goodN [ac, at'] (max2N (eq2N ac at'))) = true := by decide +kernel
theorem chk36 : ((List.range 3).all fun vc => (List.range 3).all fun vi => (List.range 3).all fun va =>
    (List.range 3).all fun cr => (List.range 3).all fun ir => (List.range 3).all fun ar =>
    goodN [vc, vi, va, cr, ir, ar] (max36N (eq3N vc vi va) (eq6N vc vi va cr ir ar))) = true := by
  decide +kernel
theorem chk4 : ((List.range 4).all fun sc => (List.range 4).all fun si => (List.range 4).all fun sa =>
    sc == 0 || goodN [sc, si, sa] (max4N (eq4N sc si sa))) = true := by decide +kernel


section classes
variable {a : Str → Str} (hl : LegalEff a)
include hl

theorem eq1_eq : (Spec.V4.macroVector a).eq1 = eq1N (lv a c!"AV") (lv a c!"PR") (lv a c!"UI") := by
  unfold Spec.V4.macroVector eq1N
  simp only [is_lv hl (show isChk c!"AV" c!"N" 0 = true by decide),
    is_lv hl (show isChk c!"PR" c!"N" 0 = true by decide),
    is_lv hl (show isChk c!"UI" c!"N" 0 = true by decide),
    is_lv hl (show isChk c!"AV" c!"P" 3 = true by decide)]

theorem eq2_eq : (Spec.V4.macroVector a).eq2 = eq2N (lv a c!"AC") (lv a c!"AT") := by
  unfold Spec.V4.macroVector eq2N
  simp only [is_lv hl (show isChk c!"AC" c!"L" 0 = true by decide),
    is_lv hl (show isChk c!"AT" c!"N" 0 = true by decide)]

theorem eq3_eq : (Spec.V4.macroVector a).eq3 = eq3N (lv a c!"VC") (lv a c!"VI") (lv a c!"VA") := by
  unfold Spec.V4.macroVector eq3N
  simp only [is_lv hl (show isChk c!"VC" c!"H" 0 = true by decide),
    is_lv hl (show isChk c!"VI" c!"H" 0 = true by decide),
    is_lv hl (show isChk c!"VA" c!"H" 0 = true by decide)]

theorem eq6_eq : (Spec.V4.macroVector a).eq6 =
    eq6N (lv a c!"VC") (lv a c!"VI") (lv a c!"VA") (lv a c!"CR") (lv a c!"IR") (lv a c!"AR") := by
  unfold Spec.V4.macroVector eq6N
  simp only [is_lv hl (show isChk c!"VC" c!"H" 0 = true by decide),
    is_lv hl (show isChk c!"VI" c!"H" 0 = true by decide),
    is_lv hl (show isChk c!"VA" c!"H" 0 = true by decide),
    is_lv hl (show isChk c!"CR" c!"H" 0 = true by decide),
    is_lv hl (show isChk c!"IR" c!"H" 0 = true by decide),
    is_lv hl (show isChk c!"AR" c!"H" 0 = true by decide)]

theorem eq4_eq : (Spec.V4.macroVector a).eq4 = eq4N (lv a c!"SC") (lv a c!"SI") (lv a c!"SA") := by
  unfold Spec.V4.macroVector eq4N
  simp only [is_lv hl (show isChk c!"SI" c!"S" 0 = true by decide),
    is_lv hl (show isChk c!"SA" c!"S" 0 = true by decide),
    is_lv hl (show isChk c!"SC" c!"H" 1 = true by decide),
    is_lv hl (show isChk c!"SI" c!"H" 1 = true by decide),
    is_lv hl (show isChk c!"SA" c!"H" 1 = true by decide)]

omit hl in
theorem wf_keys {K : List Str} {maxes : List (List (Str × Str))} (h : maxes.all (wfMx K) = true) :
    ∀ mx ∈ maxes, keys mx = K := by
  intro mx hmx
  have := List.all_eq_true.mp h mx hmx
  unfold wfMx at this
  simp only [Bool.and_eq_true, decide_eq_true_eq] at this
  exact this.1

theorem class1 (he : (Spec.V4.macroVector a).eq1 ≤ 2) :
    (∃ mx ∈ Spec.V4.max1 (Spec.V4.macroVector a).eq1, Spec.V4.dominates a mx = true) ∧
    (∀ mx ∈ Spec.V4.max1 (Spec.V4.macroVector a).eq1, Spec.V4.dominates a mx = true →
      Spec.V4.distFrom a mx = Spec.V4.distance a (Spec.V4.max1 (Spec.V4.macroVector a).eq1)) := by
  obtain ⟨f1, f2⟩ := max1_facts _ he
  apply good_of_goodN a K1 _ (wf_keys f2)
  rw [f1, eq1_eq hl]
  have h := chk1
  simp only [List.all_eq_true, List.mem_range] at h
  exact h _ (lv_bounds hl (show lvChk c!"AV" 0 4 = true by decide)).2
    _ (lv_bounds hl (show lvChk c!"PR" 0 3 = true by decide)).2
    _ (lv_bounds hl (show lvChk c!"UI" 0 3 = true by decide)).2

theorem class2 (he : (Spec.V4.macroVector a).eq2 ≤ 1) :
    (∃ mx ∈ Spec.V4.max2 (Spec.V4.macroVector a).eq2, Spec.V4.dominates a mx = true) ∧
    (∀ mx ∈ Spec.V4.max2 (Spec.V4.macroVector a).eq2, Spec.V4.dominates a mx = true →
      Spec.V4.distFrom a mx = Spec.V4.distance a (Spec.V4.max2 (Spec.V4.macroVector a).eq2)) := by
  obtain ⟨f1, f2⟩ := max2_facts _ he
  apply good_of_goodN a K2 _ (wf_keys f2)
  rw [f1, eq2_eq hl]
  have h := chk2
  simp only [List.all_eq_true, List.mem_range] at h
  exact h _ (lv_bounds hl (show lvChk c!"AC" 0 2 = true by decide)).2
    _ (lv_bounds hl (show lvChk c!"AT" 0 2 = true by decide)).2

theorem class36 (he3 : (Spec.V4.macroVector a).eq3 ≤ 2) (he6 : (Spec.V4.macroVector a).eq6 ≤ 1) :
    (∃ mx ∈ Spec.V4.max36 (Spec.V4.macroVector a).eq3 (Spec.V4.macroVector a).eq6,
      Spec.V4.dominates a mx = true) ∧
    (∀ mx ∈ Spec.V4.max36 (Spec.V4.macroVector a).eq3 (Spec.V4.macroVector a).eq6,
      Spec.V4.dominates a mx = true → Spec.V4.distFrom a mx =
        Spec.V4.distance a (Spec.V4.max36 (Spec.V4.macroVector a).eq3 (Spec.V4.macroVector a).eq6)) := by
  obtain ⟨f1, f2⟩ := max36_facts _ he3 _ he6
  apply good_of_goodN a K36 _ (wf_keys f2)
  rw [f1, eq3_eq hl, eq6_eq hl]
  have h := chk36
  simp only [List.all_eq_true, List.mem_range] at h
  exact h _ (lv_bounds hl (show lvChk c!"VC" 0 3 = true by decide)).2
    _ (lv_bounds hl (show lvChk c!"VI" 0 3 = true by decide)).2
    _ (lv_bounds hl (show lvChk c!"VA" 0 3 = true by decide)).2
    _ (lv_bounds hl (show lvChk c!"CR" 0 3 = true by decide)).2
    _ (lv_bounds hl (show lvChk c!"IR" 0 3 = true by decide)).2
    _ (lv_bounds hl (show lvChk c!"AR" 0 3 = true by decide)).2

theorem class4 (he : (Spec.V4.macroVector a).eq4 ≤ 2) :
    (∃ mx ∈ Spec.V4.max4 (Spec.V4.macroVector a).eq4, Spec.V4.dominates a mx = true) ∧
    (∀ mx ∈ Spec.V4.max4 (Spec.V4.macroVector a).eq4, Spec.V4.dominates a mx = true →
      Spec.V4.distFrom a mx = Spec.V4.distance a (Spec.V4.max4 (Spec.V4.macroVector a).eq4)) := by
  obtain ⟨f1, f2⟩ := max4_facts _ he
  apply good_of_goodN a K4 _ (wf_keys f2)
  rw [f1, eq4_eq hl]
  have h := chk4
  simp only [List.all_eq_true, List.mem_range, Bool.or_eq_true, beq_iff_eq] at h
  have hsc := lv_bounds hl (show lvChk c!"SC" 1 4 = true by decide)
  rcases h _ hsc.2
    _ (lv_bounds hl (show lvChk c!"SI" 0 4 = true by decide)).2
    _ (lv_bounds hl (show lvChk c!"SA" 0 4 = true by decide)).2 with h0 | h0
  · omega
  · exact h0

end classes


/-! ### generic list facts for the search loop -/

theorem mapM_some {α β : Type} (f : α → Option β) (g : α → β) :
    ∀ (l : List α), (∀ x ∈ l, f x = some (g x)) → l.mapM f = some (l.map g) := by
  intro l
  induction l with
  | nil => intro _; rfl
  | cons x r ih =>
    intro h
    rw [List.mapM_cons, h x List.mem_cons_self, ih (fun y hy => h y (List.mem_cons_of_mem _ hy))]
    rfl

theorem find?_flatMap_some {α β : Type} {g : α → List β} {p : β → Bool} {p1 : α → Bool} {y0 : β} :
    ∀ {xs : List α} {a0 : α}, xs.find? p1 = some a0 →
    (∀ a ∈ xs, p1 a = false → ∀ y ∈ g a, p y = false) →
    (g a0).find? p = some y0 →
    (xs.flatMap g).find? p = some y0 := by
  intro xs
  induction xs with
  | nil => intro a0 h; simp at h
  | cons x r ih =>
    intro a0 hx hneg hpos
    rw [List.flatMap_cons, List.find?_append]
    rw [List.find?_cons] at hx
    cases hp : p1 x with
    | true =>
      rw [hp] at hx
      simp only [Option.some.injEq] at hx
      subst hx
      rw [hpos]; rfl
    | false =>
      rw [hp] at hx
      have hnone : (g x).find? p = none := by
        rw [List.find?_eq_none]
        intro y hy
        simp [hneg x List.mem_cons_self hp y hy]
      rw [hnone]
      simp only [Option.none_or]
      exact ih hx (fun a ha => hneg a (List.mem_cons_of_mem _ ha)) hpos

/-- the first element of the product that satisfies a test which decomposes into per-component
    tests is the tuple of the per-component first hits -/
theorem find?_product (xs ys zs ws : List (List (Str × Str))) (P p1 p2 p3 p4 : List (Str × Str) → Bool)
    (hP : ∀ a ∈ xs, ∀ b ∈ ys, ∀ c ∈ zs, ∀ d ∈ ws,
      P (a ++ b ++ c ++ d ++ []) = (p1 a && p2 b && p3 c && p4 d))
    {a0 b0 c0 d0 : List (Str × Str)} (ha : xs.find? p1 = some a0) (hb : ys.find? p2 = some b0)
    (hc : zs.find? p3 = some c0) (hd : ws.find? p4 = some d0) :
    (V4.product xs ys zs ws [[]]).find? P = some (a0 ++ b0 ++ c0 ++ d0 ++ []) := by
  have ma := List.mem_of_find?_eq_some ha
  have mb := List.mem_of_find?_eq_some hb
  have mc := List.mem_of_find?_eq_some hc
  have md := List.mem_of_find?_eq_some hd
  have ta := List.find?_some ha
  have tb := List.find?_some hb
  have tc := List.find?_some hc
  have td := List.find?_some hd
  unfold V4.product
  apply find?_flatMap_some ha
  · intro a ham hfalse y hy
    simp only [List.mem_flatMap, List.mem_map, List.mem_singleton] at hy
    obtain ⟨b, hbm, c, hcm, d, hdm, e, rfl, rfl⟩ := hy
    rw [hP a ham b hbm c hcm d hdm, hfalse]; rfl
  apply find?_flatMap_some hb
  · intro b hbm hfalse y hy
    simp only [List.mem_flatMap, List.mem_map, List.mem_singleton] at hy
    obtain ⟨c, hcm, d, hdm, e, rfl, rfl⟩ := hy
    rw [hP a0 ma b hbm c hcm d hdm, hfalse]; simp
  apply find?_flatMap_some hc
  · intro c hcm hfalse y hy
    simp only [List.mem_flatMap, List.mem_map, List.mem_singleton] at hy
    obtain ⟨d, hdm, e, rfl, rfl⟩ := hy
    rw [hP a0 ma b0 mb c hcm d hdm, hfalse]; simp
  apply find?_flatMap_some hd
  · intro d hdm hfalse y hy
    simp only [List.mem_map, List.mem_singleton] at hy
    obtain ⟨e, rfl, rfl⟩ := hy
    rw [hP a0 ma b0 mb c0 mc d hdm, hfalse]; simp
  simp only [List.map_cons, List.map_nil, List.find?_cons]
  rw [hP a0 ma b0 mb c0 mc d0 md, ta, tb, tc, td]; rfl

theorem search_find (m : MMap) (f : List (Str × Str) → List Rat) :
    ∀ (L : List (List (Str × Str))) (last : Option (List Rat)),
    (∀ mv ∈ L, V4.distances m mv = some (f mv)) →
    ∀ mv0, L.find? (fun mv => !(f mv).any (· < 0)) = some mv0 →
    V4.search m L last = some (f mv0) := by
  intro L
  induction L with
  | nil => intro _ _ mv0 h; simp at h
  | cons mv r ih =>
    intro last hd mv0 hf
    rw [V4.search, hd mv List.mem_cons_self]
    simp only
    rw [List.find?_cons] at hf
    cases hany : (f mv).any (· < 0) with
    | true =>
      rw [hany] at hf
      simp only [Bool.not_true] at hf
      rw [if_pos rfl]
      exact ih _ (fun mv' h' => hd mv' (List.mem_cons_of_mem _ h')) mv0 hf
    | false =>
      rw [hany] at hf
      simp only [Bool.not_false, Option.some.injEq] at hf
      subst hf
      rw [if_neg (by simp)]


/-! ### the library's severity distances -/

theorem levels_pinned : V4.levels =
    Spec.V4.levelTable.map (fun p => (p.1, p.2.map fun q => (q.1, (q.2 : Rat) / 10))) := by
  decide +kernel

/-- a severity distance in tenths -/
def δ (l x : Nat) : Rat := (l : Rat) / 10 - (x : Rat) / 10

theorem δ_neg (l x : Nat) : decide (δ l x < 0) = !decide (x ≤ l) := by
  unfold δ
  by_cases h : x ≤ l
  · have : (x : Rat) ≤ l := by exact_mod_cast h
    simp only [h, decide_true, Bool.not_true, decide_eq_false_iff_not, not_lt]
    linarith
  · have : (l : Rat) < x := by exact_mod_cast (Nat.lt_of_not_le h)
    simp only [h, decide_false, Bool.not_false, decide_eq_true_eq]
    linarith

theorem δ_sub {l x : Nat} (h : x ≤ l) : δ l x = ((l - x : Nat) : Rat) / 10 := by
  unfold δ
  rw [Nat.cast_sub h]; ring

/-- the 14 distances of a max vector, as the specification's levels see them -/
def fdist (a : Str → Str) (mv : List (Str × Str)) : List Rat :=
  V4.distMetrics.map fun k => δ (lv a k) (Spec.V4.level k ((lookup k mv).getD []))

theorem distMetrics_split : ∀ k ∈ V4.distMetrics,
    (k ∈ Gen.V4.mandatory ∨ k ∈ dfltMetrics) ∧ (k ∈ K1 ∨ k ∈ K2 ∨ k ∈ K36 ∨ k ∈ K4) := by decide

theorem wf_lookup {K : List Str} {mx : List (Str × Str)} (h : wfMx K mx = true) {k : Str} (hk : k ∈ K) :
    ∃ v row, lookup k mx = some v ∧ lookup k Spec.V4.levelTable = some row ∧
      (lookup v row).isSome = true := by
  unfold wfMx at h
  simp only [Bool.and_eq_true, decide_eq_true_eq, List.all_eq_true] at h
  obtain ⟨hkeys, hall⟩ := h
  obtain ⟨v, hv⟩ := Cvss.Lemmas.V2.lookup_of_mem_keys (hkeys ▸ hk : k ∈ keys mx)
  have := hall _ (lookup_mem hv)
  simp only at this
  cases hrow : lookup k Spec.V4.levelTable with
  | none => rw [hrow] at this; cases this
  | some row => rw [hrow] at this; exact ⟨v, row, hv, rfl, this⟩

theorem classes_disjoint : (∀ k ∈ K2, k ∉ K1) ∧ (∀ k ∈ K36, k ∉ K1 ∧ k ∉ K2) ∧
    (∀ k ∈ K4, k ∉ K1 ∧ k ∉ K2 ∧ k ∉ K36) := by decide

theorem lookup_cat {a b c d : List (Str × Str)} (ha : keys a = K1) (hb : keys b = K2)
    (hc : keys c = K36) (_hd : keys d = K4) (k : Str) :
    (k ∈ K1 → lookup k (a ++ b ++ c ++ d ++ []) = lookup k a) ∧
    (k ∈ K2 → lookup k (a ++ b ++ c ++ d ++ []) = lookup k b) ∧
    (k ∈ K36 → lookup k (a ++ b ++ c ++ d ++ []) = lookup k c) ∧
    (k ∈ K4 → lookup k (a ++ b ++ c ++ d ++ []) = lookup k d) := by
  obtain ⟨d2, d36, d4⟩ := classes_disjoint
  have hsome : ∀ {l : List (Str × Str)} {K : List Str}, keys l = K → k ∈ K → ∃ v, lookup k l = some v :=
    fun hl hk => Cvss.Lemmas.V2.lookup_of_mem_keys (hl ▸ hk)
  have hnone : ∀ {l : List (Str × Str)} {K : List Str}, keys l = K → k ∉ K → lookup k l = none :=
    fun hl hk => lookup_none_of_not_mem (hl ▸ hk)
  simp only [lookup_append, List.append_nil]
  refine ⟨fun h => ?_, fun h => ?_, fun h => ?_, fun h => ?_⟩
  · obtain ⟨v, hv⟩ := hsome ha h
    simp [hv]
  · obtain ⟨v, hv⟩ := hsome hb h
    simp [hnone ha (d2 k h), hv]
  · obtain ⟨v, hv⟩ := hsome hc h
    simp [hnone ha (d36 k h).1, hnone hb (d36 k h).2, hv]
  · simp [hnone ha (d4 k h).1, hnone hb (d4 k h).2.1, hnone hc (d4 k h).2.2]

theorem keys2 {l : List (Str × Str)} {k1 k2 : Str} (h : keys l = [k1, k2]) :
    ∃ x1 x2, l = [(k1, x1), (k2, x2)] := by
  rcases l with _ | ⟨⟨m1, x1⟩, _ | ⟨⟨m2, x2⟩, _ | ⟨p, r⟩⟩⟩ <;> simp [keys] at h
  obtain ⟨rfl, rfl⟩ := h
  exact ⟨x1, x2, rfl⟩

theorem keys3 {l : List (Str × Str)} {k1 k2 k3 : Str} (h : keys l = [k1, k2, k3]) :
    ∃ x1 x2 x3, l = [(k1, x1), (k2, x2), (k3, x3)] := by
  rcases l with _ | ⟨⟨m1, x1⟩, _ | ⟨⟨m2, x2⟩, _ | ⟨⟨m3, x3⟩, _ | ⟨p, r⟩⟩⟩⟩ <;> simp [keys] at h
  obtain ⟨rfl, rfl, rfl⟩ := h
  exact ⟨x1, x2, x3, rfl⟩

theorem keys6 {l : List (Str × Str)} {k1 k2 k3 k4 k5 k6 : Str} (h : keys l = [k1, k2, k3, k4, k5, k6]) :
    ∃ x1 x2 x3 x4 x5 x6, l = [(k1, x1), (k2, x2), (k3, x3), (k4, x4), (k5, x5), (k6, x6)] := by
  rcases l with _ | ⟨⟨m1, x1⟩, _ | ⟨⟨m2, x2⟩, _ | ⟨⟨m3, x3⟩, _ | ⟨⟨m4, x4⟩, _ | ⟨⟨m5, x5⟩,
    _ | ⟨⟨m6, x6⟩, _ | ⟨p, r⟩⟩⟩⟩⟩⟩⟩ <;> simp [keys] at h
  obtain ⟨rfl, rfl, rfl, rfl, rfl, rfl⟩ := h
  exact ⟨x1, x2, x3, x4, x5, x6, rfl⟩

/-- the distances of an explicit composed max vector -/
theorem fdist_explicit (A : Str → Str) (x1 x2 x3 x4 x5 x6 x7 x8 x9 x10 x11 x12 x13 x14 : Str) :
    fdist A ([(c!"AV", x1), (c!"PR", x2), (c!"UI", x3)] ++ [(c!"AC", x4), (c!"AT", x5)] ++
      [(c!"VC", x6), (c!"VI", x7), (c!"VA", x8), (c!"CR", x9), (c!"IR", x10), (c!"AR", x11)] ++
      [(c!"SC", x12), (c!"SI", x13), (c!"SA", x14)] ++ []) =
    [δ (lv A c!"AV") (Spec.V4.level c!"AV" x1), δ (lv A c!"PR") (Spec.V4.level c!"PR" x2),
     δ (lv A c!"UI") (Spec.V4.level c!"UI" x3), δ (lv A c!"AC") (Spec.V4.level c!"AC" x4),
     δ (lv A c!"AT") (Spec.V4.level c!"AT" x5), δ (lv A c!"VC") (Spec.V4.level c!"VC" x6),
     δ (lv A c!"VI") (Spec.V4.level c!"VI" x7), δ (lv A c!"VA") (Spec.V4.level c!"VA" x8),
     δ (lv A c!"SC") (Spec.V4.level c!"SC" x12), δ (lv A c!"SI") (Spec.V4.level c!"SI" x13),
     δ (lv A c!"SA") (Spec.V4.level c!"SA" x14), δ (lv A c!"CR") (Spec.V4.level c!"CR" x9),
     δ (lv A c!"IR") (Spec.V4.level c!"IR" x10), δ (lv A c!"AR") (Spec.V4.level c!"AR" x11)] := by
  rfl

/-- "all 14 distances are non-negative" is the conjunction of the four per-class `dominates` tests -/
theorem nonneg_decomp (A : Str → Str) {a b c d : List (Str × Str)} (ha : keys a = K1)
    (hb : keys b = K2) (hc : keys c = K36) (hd : keys d = K4) :
    (!(fdist A (a ++ b ++ c ++ d ++ [])).any (· < 0)) =
      (Spec.V4.dominates A a && Spec.V4.dominates A b && Spec.V4.dominates A c &&
        Spec.V4.dominates A d) := by
  obtain ⟨x1, x2, x3, rfl⟩ := keys3 ha
  obtain ⟨x4, x5, rfl⟩ := keys2 hb
  obtain ⟨x6, x7, x8, x9, x10, x11, rfl⟩ := keys6 hc
  obtain ⟨x12, x13, x14, rfl⟩ := keys3 hd
  rw [fdist_explicit]
  simp only [List.any_cons, List.any_nil, δ_neg, Spec.V4.dominates, List.all_cons, List.all_nil,
    Bool.not_or, Bool.not_not, Bool.or_false, Bool.and_true, lv]
  ac_rfl

theorem wf_of_all {K : List Str} {xs : List (List (Str × Str))} (h : xs.all (wfMx K) = true)
    {a : List (Str × Str)} (ha : a ∈ xs) : wfMx K a = true := List.all_eq_true.mp h a ha

theorem wf_key {K : List Str} {a : List (Str × Str)} (h : wfMx K a = true) : keys a = K := by
  unfold wfMx at h
  simp only [Bool.and_eq_true, decide_eq_true_eq] at h
  exact h.1

section search
variable {m : MMap} (hv : Valid m) {full : MMap} (hfull : ∀ k, lookup k full = fullLookup m k)
include hv hfull

theorem mEff_dist {k : Str} (hk : k ∈ V4.distMetrics) :
    V4.mEff full k = some (Spec.V4.eff (assignment V4.X m) k) := by
  rcases (distMetrics_split k hk).1 with h | h
  · exact mEff_base hv hfull h
  · exact mEff_dflt hv hfull h

theorem distance_eq' {k : Str} (hk : k ∈ V4.distMetrics) (mv : List (Str × Str)) {v : Str}
    {row : List (Str × Nat)} (hmv : lookup k mv = some v)
    (hrow : lookup k Spec.V4.levelTable = some row) (hlm : (lookup v row).isSome) :
    V4.distance full mv k =
      some (δ (lv (assignment V4.X m) k) (Spec.V4.level k ((lookup k mv).getD []))) := by
  have hl : LegalEff (assignment V4.X m) := eff_legal hv
  obtain ⟨lm, hlm⟩ := Option.isSome_iff_exists.mp hlm
  obtain ⟨lc, hlc⟩ := Option.isSome_iff_exists.mp (hl (k, row) (lookup_mem hrow))
  simp only at hlc
  have h1 : lookup k V4.levels = some (row.map fun q => (q.1, (q.2 : Rat) / 10)) := by
    rw [levels_pinned, lookup_map_val (fun r : List (Str × Nat) => r.map fun q => (q.1, (q.2 : Rat) / 10)),
      hrow]; rfl
  have h2 : lv (assignment V4.X m) k = lc := by
    unfold lv Spec.V4.level; rw [hrow]; simp only [hlc, Option.getD_some]
  have h3 : Spec.V4.level k ((lookup k mv).getD []) = lm := by
    unfold Spec.V4.level; rw [hrow, hmv]; simp only [Option.getD_some, hlm]
  unfold V4.distance
  rw [h3, h2, h1, mEff_dist hv hfull hk, hmv]
  simp only [Option.bind_eq_bind, Option.bind_some,
    lookup_map_val (fun n : Nat => (n : Rat) / 10), hlc, hlm, Option.map_some]
  rfl

/-- a well-formed composed max vector yields the 14 distances without exception -/
theorem distances_eq (mv : List (Str × Str))
    (hwf : ∀ k ∈ V4.distMetrics, ∃ v row, lookup k mv = some v ∧
      lookup k Spec.V4.levelTable = some row ∧ (lookup v row).isSome = true) :
    V4.distances full mv = some (fdist (assignment V4.X m) mv) := by
  unfold V4.distances fdist
  apply mapM_some
  intro k hk
  obtain ⟨v, row, h1, h2, h3⟩ := hwf k hk
  exact distance_eq' hv hfull hk mv h1 h2 h3


/-- the search loop returns the distances from the per-class FIRST dominating max vectors; the
    per-class sums are the specification's `distFrom` of those vectors, in tenths -/
theorem search_result {xs ys zs ws : List (List (Str × Str))}
    (hx : xs.all (wfMx K1) = true) (hy : ys.all (wfMx K2) = true)
    (hz : zs.all (wfMx K36) = true) (hw : ws.all (wfMx K4) = true)
    {a0 b0 c0 d0 : List (Str × Str)}
    (ha : xs.find? (Spec.V4.dominates (assignment V4.X m)) = some a0)
    (hb : ys.find? (Spec.V4.dominates (assignment V4.X m)) = some b0)
    (hc : zs.find? (Spec.V4.dominates (assignment V4.X m)) = some c0)
    (hd : ws.find? (Spec.V4.dominates (assignment V4.X m)) = some d0) :
    ∃ dAV dPR dUI dAC dAT dVC dVI dVA dSC dSI dSA dCR dIR dAR : Rat,
      V4.search full (V4.product xs ys zs ws [[]]) none =
        some [dAV, dPR, dUI, dAC, dAT, dVC, dVI, dVA, dSC, dSI, dSA, dCR, dIR, dAR] ∧
      dAV + dPR + dUI = (Spec.V4.distFrom (assignment V4.X m) a0 : Rat) / 10 ∧
      dAC + dAT = (Spec.V4.distFrom (assignment V4.X m) b0 : Rat) / 10 ∧
      dVC + dVI + dVA + dCR + dIR + dAR = (Spec.V4.distFrom (assignment V4.X m) c0 : Rat) / 10 ∧
      dSC + dSI + dSA = (Spec.V4.distFrom (assignment V4.X m) d0 : Rat) / 10 := by
  have hdist : ∀ mv ∈ V4.product xs ys zs ws [[]],
      V4.distances full mv = some (fdist (assignment V4.X m) mv) := by
    intro mv hmv
    unfold V4.product at hmv
    simp only [List.mem_flatMap, List.mem_map, List.mem_singleton] at hmv
    obtain ⟨a, ham, b, hbm, c, hcm, d, hdm, e, rfl, rfl⟩ := hmv
    have wa := wf_of_all hx ham
    have wb := wf_of_all hy hbm
    have wc := wf_of_all hz hcm
    have wd := wf_of_all hw hdm
    apply distances_eq hv hfull
    intro k hk
    obtain ⟨l1, l2, l3, l4⟩ := lookup_cat (wf_key wa) (wf_key wb) (wf_key wc) (wf_key wd) k
    rcases (distMetrics_split k hk).2 with h | h | h | h
    · rw [l1 h]; exact wf_lookup wa h
    · rw [l2 h]; exact wf_lookup wb h
    · rw [l3 h]; exact wf_lookup wc h
    · rw [l4 h]; exact wf_lookup wd h
  have hfind := find?_product xs ys zs ws
    (fun mv => !(fdist (assignment V4.X m) mv).any (· < 0))
    (Spec.V4.dominates (assignment V4.X m)) (Spec.V4.dominates (assignment V4.X m))
    (Spec.V4.dominates (assignment V4.X m)) (Spec.V4.dominates (assignment V4.X m))
    (fun a ham b hbm c hcm d hdm => nonneg_decomp (assignment V4.X m)
      (wf_key (wf_of_all hx ham)) (wf_key (wf_of_all hy hbm))
      (wf_key (wf_of_all hz hcm)) (wf_key (wf_of_all hw hdm)))
    ha hb hc hd
  have hs := search_find full (fdist (assignment V4.X m)) _ none hdist _ hfind
  have ta := List.find?_some ha
  have tb := List.find?_some hb
  have tc := List.find?_some hc
  have td := List.find?_some hd
  obtain ⟨x1, x2, x3, rfl⟩ := keys3 (wf_key (wf_of_all hx (List.mem_of_find?_eq_some ha)))
  obtain ⟨x4, x5, rfl⟩ := keys2 (wf_key (wf_of_all hy (List.mem_of_find?_eq_some hb)))
  obtain ⟨x6, x7, x8, x9, x10, x11, rfl⟩ := keys6 (wf_key (wf_of_all hz (List.mem_of_find?_eq_some hc)))
  obtain ⟨x12, x13, x14, rfl⟩ := keys3 (wf_key (wf_of_all hw (List.mem_of_find?_eq_some hd)))
  rw [fdist_explicit] at hs
  refine ⟨_, _, _, _, _, _, _, _, _, _, _, _, _, _, hs, ?_, ?_, ?_, ?_⟩
  · simp only [Spec.V4.dominates, List.all_cons, List.all_nil, Bool.and_true, Bool.and_eq_true,
      decide_eq_true_eq] at ta
    obtain ⟨h1, h2, h3⟩ := ta
    simp only [Spec.V4.distFrom, List.map_cons, List.map_nil, List.sum_cons, List.sum_nil, lv]
    rw [δ_sub h1, δ_sub h2, δ_sub h3]
    push_cast; ring
  · simp only [Spec.V4.dominates, List.all_cons, List.all_nil, Bool.and_true, Bool.and_eq_true,
      decide_eq_true_eq] at tb
    obtain ⟨h1, h2⟩ := tb
    simp only [Spec.V4.distFrom, List.map_cons, List.map_nil, List.sum_cons, List.sum_nil, lv]
    rw [δ_sub h1, δ_sub h2]
    push_cast; ring
  · simp only [Spec.V4.dominates, List.all_cons, List.all_nil, Bool.and_true, Bool.and_eq_true,
      decide_eq_true_eq] at tc
    obtain ⟨h1, h2, h3, h4, h5, h6⟩ := tc
    simp only [Spec.V4.distFrom, List.map_cons, List.map_nil, List.sum_cons, List.sum_nil, lv]
    rw [δ_sub h1, δ_sub h2, δ_sub h3, δ_sub h4, δ_sub h5, δ_sub h6]
    push_cast; ring
  · simp only [Spec.V4.dominates, List.all_cons, List.all_nil, Bool.and_true, Bool.and_eq_true,
      decide_eq_true_eq] at td
    obtain ⟨h1, h2, h3⟩ := td
    simp only [Spec.V4.distFrom, List.map_cons, List.map_nil, List.sum_cons, List.sum_nil, lv]
    rw [δ_sub h1, δ_sub h2, δ_sub h3]
    push_cast; ring

end search


/-! ### assembly: `compute_base_score` against the specification -/

set_option synthInstance.maxSize 1024 in
theorem maxEq1_lookup : ∀ e, e ≤ 2 → lookup (natToStr e) Gen.V4.maxEq1 = some (Spec.V4.max1 e) := by
  decide +kernel
set_option synthInstance.maxSize 1024 in
theorem maxEq2_lookup : ∀ e, e ≤ 1 → lookup (natToStr e) Gen.V4.maxEq2 = some (Spec.V4.max2 e) := by
  decide +kernel
set_option synthInstance.maxSize 1024 in
theorem maxEq36_lookup : ∀ e3, e3 ≤ 2 → ∀ e6, e6 ≤ 1 → (e3 = 2 → e6 = 1) →
    lookup (natToStr e3 ++ natToStr e6) Gen.V4.maxEq36 = some (Spec.V4.max36 e3 e6) := by
  decide +kernel
set_option synthInstance.maxSize 1024 in
theorem maxEq4_lookup : ∀ e, e ≤ 2 → lookup (natToStr e) Gen.V4.maxEq4 = some (Spec.V4.max4 e) := by
  decide +kernel
set_option synthInstance.maxSize 1024 in
theorem maxEq5_lookup : ∀ e, e ≤ 2 → lookup (natToStr e) Gen.V4.maxEq5 = some [[]] := by
  decide +kernel
theorem maxSev1_lookup : ∀ e, e ≤ 2 → lookup e Gen.V4.maxSeverityEq1 = some (Spec.V4.depth1 e) := by
  decide +kernel
theorem maxSev2_lookup : ∀ e, e ≤ 1 → lookup e Gen.V4.maxSeverityEq2 = some (Spec.V4.depth2 e) := by
  decide +kernel
theorem maxSev36_lookup : ∀ e3, e3 ≤ 2 → ∀ e6, e6 ≤ 1 → (e3 = 2 → e6 = 1) →
    lookup (e3, e6) Gen.V4.maxSeverityEq36 = some (Spec.V4.depth36 e3 e6) := by
  decide +kernel
theorem maxSev4_lookup : ∀ e, e ≤ 2 → lookup e Gen.V4.maxSeverityEq4 = some (Spec.V4.depth4 e) := by
  decide +kernel

theorem depth1_bounds (e : Nat) : Spec.V4.depth1 e ≠ 0 ∧ Spec.V4.depth1 e ≤ 5 := by
  unfold Spec.V4.depth1; split <;> omega
theorem depth2_bounds (e : Nat) : Spec.V4.depth2 e ≠ 0 ∧ Spec.V4.depth2 e ≤ 2 := by
  unfold Spec.V4.depth2; split <;> omega
theorem depth36_bounds (e3 e6 : Nat) : Spec.V4.depth36 e3 e6 ≠ 0 ∧ Spec.V4.depth36 e3 e6 ≤ 10 := by
  unfold Spec.V4.depth36; split <;> omega
theorem depth4_bounds (e : Nat) : Spec.V4.depth4 e ≠ 0 ∧ Spec.V4.depth4 e ≤ 6 := by
  unfold Spec.V4.depth4; split <;> omega

theorem r_1_10 : V4.r 1 10 = 1 / 10 := by
  unfold V4.r; rw [Rat.mkRat_eq_div]; norm_num

theorem epsilon_eq : Gen.V4.epsilon = 1 / 1000000 := by
  unfold Gen.V4.epsilon; rw [Rat.mkRat_eq_div]; norm_num

theorem contribution_term (value : ℚ) (lower : Option ℚ) (c : ℚ) (dist D : ℕ)
    (hgap : ∀ l, lower = some l → l ≤ value) (hD : D ≠ 0) (hc : c = (dist : ℚ) / 10) :
    V4.contribution value lower c ((D : ℚ) * V4.r 1 10) = some (Spec.V4.term value lower dist D) := by
  have hDq : (D : ℚ) ≠ 0 := by exact_mod_cast hD
  unfold V4.contribution Spec.V4.term
  cases lower with
  | none => rfl
  | some l =>
    have := hgap l rfl
    simp only
    rw [if_pos (by linarith), r_1_10, if_neg (by positivity), hc]
    congr 2
    field_simp

theorem term_int (value : ℚ) (V : ℤ) (hV : value * 10 = V) (lower : Option ℚ)
    (hl : ∀ l, lower = some l → ∃ L : ℤ, l * 10 = L) (dist D : ℕ) (hD : D ≠ 0) :
    (∃ T : ℤ, (Spec.V4.term value lower dist D).2 * (10 * (D : ℚ)) = T) ∧
    (Spec.V4.term value lower dist D).1 ≤ 1 := by
  have hDq : (D : ℚ) ≠ 0 := by exact_mod_cast hD
  unfold Spec.V4.term
  cases lower with
  | none => exact ⟨⟨0, by simp⟩, by simp⟩
  | some l =>
    obtain ⟨L, hL⟩ := hl l rfl
    refine ⟨⟨(V - L) * dist, ?_⟩, le_refl _⟩
    push_cast
    rw [← hV, ← hL]
    field_simp

theorem score?_tenths {mv : Spec.V4.MacroVector} {v : ℚ} (h : Spec.V4.score? mv = some v) :
    ∃ L : ℤ, v * 10 = L := by
  rw [score?_eq] at h
  unfold scoreF at h
  cases hf : fastLookup (mv.eq1, mv.eq2, mv.eq3, mv.eq4, mv.eq5, mv.eq6) with
  | none => rw [hf] at h; cases h
  | some t =>
    rw [hf] at h
    refine ⟨t, ?_⟩
    have : v = (t : ℚ) / 10 := by
      simp at h; exact h.symm
    rw [this]; push_cast; ring

theorem lower36_tenths {mv : Spec.V4.MacroVector} {v : ℚ} (h : Spec.V4.lower36 mv = some v) :
    ∃ L : ℤ, v * 10 = L := by
  unfold Spec.V4.lower36 at h
  split at h
  · split at h
    · next l rr h1 h2 =>
      simp only [Option.some.injEq] at h
      rcases max_cases l rr with ⟨hm, _⟩ | ⟨hm, _⟩
      · rw [← h, hm]; exact score?_tenths h1
      · rw [← h, hm]; exact score?_tenths h2
    · next l h1 h2 => simp only [Option.some.injEq] at h; rw [← h]; exact score?_tenths h1
    · next rr h1 h2 => simp only [Option.some.injEq] at h; rw [← h]; exact score?_tenths h2
    · cases h
  · exact score?_tenths h
  · exact score?_tenths h
  · exact score?_tenths h
  · cases h

theorem clamp_eq (x : ℚ) : pyMin 10 (pyMax 0 x) = max 0 (min 10 x) := by
  rw [pyMin_eq_min, pyMax_eq_max]
  rcases le_total x 0 with h | h
  · rw [max_eq_left h, min_eq_right (by linarith), min_eq_right (by linarith), max_eq_left h]
  · rw [max_eq_right h]
    rcases le_total x 10 with h' | h'
    · rw [min_eq_right h', max_eq_right h]
    · rw [min_eq_left h', max_eq_right (by norm_num)]

/-- denominator bound of the clamped interpolated score -/
theorem raw_den (value : ℚ) (V : ℤ) (hV : value * 10 = V) (l1 l2 l3 l4 : Option ℚ)
    (h1 : ∀ l, l1 = some l → ∃ L : ℤ, l * 10 = L) (h2 : ∀ l, l2 = some l → ∃ L : ℤ, l * 10 = L)
    (h3 : ∀ l, l3 = some l → ∃ L : ℤ, l * 10 = L) (h4 : ∀ l, l4 = some l → ∃ L : ℤ, l * 10 = L)
    (d1 d2 d3 d4 D1 D2 D3 D4 : ℕ) (t5 : ℕ × ℚ) (hD1 : D1 ≠ 0 ∧ D1 ≤ 5) (hD2 : D2 ≠ 0 ∧ D2 ≤ 2)
    (hD3 : D3 ≠ 0 ∧ D3 ≤ 10) (hD4 : D4 ≠ 0 ∧ D4 ≤ 6) (hn5 : t5.1 ≤ 1) (ht5 : t5.2 = 0) :
    (max 0 (min 10 (value -
      (if (Spec.V4.term value l1 d1 D1).1 + (Spec.V4.term value l2 d2 D2).1 +
          (Spec.V4.term value l3 d3 D3).1 + (Spec.V4.term value l4 d4 D4).1 + t5.1 = 0 then 0
       else ((Spec.V4.term value l1 d1 D1).2 + (Spec.V4.term value l2 d2 D2).2 +
          (Spec.V4.term value l3 d3 D3).2 + (Spec.V4.term value l4 d4 D4).2 + t5.2) /
          (((Spec.V4.term value l1 d1 D1).1 + (Spec.V4.term value l2 d2 D2).1 +
          (Spec.V4.term value l3 d3 D3).1 + (Spec.V4.term value l4 d4 D4).1 + t5.1 : ℕ) : ℚ)))) * 10 + 1 / 2).den
      < 100000 := by
  rw [ht5]
  generalize t5.1 = n5 at *
  obtain ⟨⟨T1, hT1⟩, hc1⟩ := term_int value V hV l1 h1 d1 D1 hD1.1
  obtain ⟨⟨T2, hT2⟩, hc2⟩ := term_int value V hV l2 h2 d2 D2 hD2.1
  obtain ⟨⟨T3, hT3⟩, hc3⟩ := term_int value V hV l3 h3 d3 D3 hD3.1
  obtain ⟨⟨T4, hT4⟩, hc4⟩ := term_int value V hV l4 h4 d4 D4 hD4.1
  generalize Spec.V4.term value l1 d1 D1 = t1 at *
  generalize Spec.V4.term value l2 d2 D2 = t2 at *
  generalize Spec.V4.term value l3 d3 D3 = t3 at *
  generalize Spec.V4.term value l4 d4 D4 = t4 at *
  apply lt_of_le_of_lt (den_clamp _ 6000 (by norm_num) ?_) (by norm_num)
  by_cases hn : t1.1 + t2.1 + t3.1 + t4.1 + n5 = 0
  · rw [if_pos hn]
    have : (value - 0) * 10 + 1 / 2 = value * 10 + 1 / 2 := by ring
    rw [this]
    have := den_le_of_mul_int (value * 10 + 1 / 2) 2 (by norm_num) (2 * V + 1)
      (by push_cast; rw [← hV]; ring)
    omega
  · rw [if_neg hn]
    obtain ⟨N, hN⟩ := raw_mul_int value t1.2 t2.2 t3.2 t4.2 V T1 T2 T3 T4 D1 D2 D3 D4
      (t1.1 + t2.1 + t3.1 + t4.1 + n5) hV hT1 hT2 hT3 hT4 hn
    have hpos : 0 < 2 * (t1.1 + t2.1 + t3.1 + t4.1 + n5) * D1 * D2 * D3 * D4 := by
      have := Nat.pos_of_ne_zero hn
      have := Nat.pos_of_ne_zero hD1.1
      have := Nat.pos_of_ne_zero hD2.1
      have := Nat.pos_of_ne_zero hD3.1
      have := Nat.pos_of_ne_zero hD4.1
      positivity
    have hle := den_le_of_mul_int _ _ hpos N hN
    have hb : 2 * (t1.1 + t2.1 + t3.1 + t4.1 + n5) * D1 * D2 * D3 * D4 ≤ 2 * 5 * 5 * 2 * 10 * 6 :=
      Nat.mul_le_mul (Nat.mul_le_mul (Nat.mul_le_mul (Nat.mul_le_mul (Nat.mul_le_mul (le_refl 2)
        (by omega)) hD1.2) hD2.2) hD3.2) hD4.2
    omega

local macro "bs" : tactic =>
  `(tactic| first | rw [Option.bind_some] | rw [Option.bind_eq_bind, Option.bind_some])

theorem baseScore_eq (m : MMap) (e1 e2 e3 e4 e5 e6 : Nat) (value : Rat)
    (m1 m2 m36 m4 m5 : List (List (Str × Str)))
    (dAV dPR dUI dAC dAT dVC dVI dVA dSC dSI dSA dCR dIR dAR : Rat) (ms1 ms2 ms36 ms4 : Nat)
    (k1 k2 k36 k4 : Nat × Rat) (s36 : Option Rat)
    (hni : ([c!"VC", c!"VI", c!"VA", c!"SC", c!"SI", c!"SA"].all (fun k => V4.mEff m k = some c!"N")) = false)
    (hmv : V4.macroVector m = some [e1, e2, e3, e4, e5, e6])
    (hval : V4.lookupScore [e1, e2, e3, e4, e5, e6] = some value)
    (hm1 : lookup (natToStr e1) Gen.V4.maxEq1 = some m1)
    (hm2 : lookup (natToStr e2) Gen.V4.maxEq2 = some m2)
    (hm36 : lookup (natToStr e3 ++ natToStr e6) Gen.V4.maxEq36 = some m36)
    (hm4 : lookup (natToStr e4) Gen.V4.maxEq4 = some m4)
    (hm5 : lookup (natToStr e5) Gen.V4.maxEq5 = some m5)
    (hsearch : V4.search m (V4.product m1 m2 m36 m4 m5) none =
      some [dAV, dPR, dUI, dAC, dAT, dVC, dVI, dVA, dSC, dSI, dSA, dCR, dIR, dAR])
    (hms1 : lookup e1 Gen.V4.maxSeverityEq1 = some ms1)
    (hms2 : lookup e2 Gen.V4.maxSeverityEq2 = some ms2)
    (hms36 : lookup (e3, e6) Gen.V4.maxSeverityEq36 = some ms36)
    (hms4 : lookup e4 Gen.V4.maxSeverityEq4 = some ms4)
    (hs36 : (if e3 = 1 ∧ e6 = 1 then V4.lookupScore [e1, e2, e3 + 1, e4, e5, e6]
        else if e3 = 0 ∧ e6 = 1 then V4.lookupScore [e1, e2, e3 + 1, e4, e5, e6]
        else if e3 = 1 ∧ e6 = 0 then V4.lookupScore [e1, e2, e3, e4, e5, e6 + 1]
        else if e3 = 0 ∧ e6 = 0 then
          V4.pyMaxNan (V4.lookupScore [e1, e2, e3, e4, e5, e6 + 1]) (V4.lookupScore [e1, e2, e3 + 1, e4, e5, e6])
        else V4.lookupScore [e1, e2, e3 + 1, e4, e5, e6 + 1]) = s36)
    (hk1 : V4.contribution value (V4.lookupScore [e1 + 1, e2, e3, e4, e5, e6]) (dAV + dPR + dUI)
      (ms1 * V4.r 1 10) = some k1)
    (hk2 : V4.contribution value (V4.lookupScore [e1, e2 + 1, e3, e4, e5, e6]) (dAC + dAT)
      (ms2 * V4.r 1 10) = some k2)
    (hk36 : V4.contribution value s36 (dVC + dVI + dVA + dCR + dIR + dAR) (ms36 * V4.r 1 10) = some k36)
    (hk4 : V4.contribution value (V4.lookupScore [e1, e2, e3, e4 + 1, e5, e6]) (dSC + dSI + dSA)
      (ms4 * V4.r 1 10) = some k4) :
    V4.baseScore m = some (V4.finalRounding (pyMin 10 (pyMax 0 (value -
      (let k5 : Nat × Rat := match V4.lookupScore [e1, e2, e3, e4, e5 + 1, e6] with
          | none => (0, 0)
          | some l => if value - l ≥ 0 then (1, 0) else (0, 0)
       let n := k1.1 + k2.1 + k36.1 + k4.1 + k5.1
       if n = 0 then 0 else (k1.2 + k2.2 + k36.2 + k4.2 + k5.2) / n))))) := by
  unfold V4.baseScore
  rw [hni, if_neg (by decide), hmv]; bs
  rw [hval]; bs
  dsimp only
  rw [hm1]; bs
  rw [hm2]; bs
  rw [hm36]; bs
  rw [hm4]; bs
  rw [hm5]; bs
  rw [hsearch]; bs
  dsimp only
  rw [hms1]; bs
  rw [hms2]; bs
  rw [hms36]; bs
  rw [hms4]; bs
  rw [hk1]; bs
  rw [hk2]; bs
  rw [hs36, hk36]; bs
  rw [hk4]; bs
  rfl

theorem find_of_exists {A : Str → Str} {L : List (List (Str × Str))}
    (h : ∃ mx ∈ L, Spec.V4.dominates A mx = true) :
    ∃ a0, L.find? (Spec.V4.dominates A) = some a0 ∧ Spec.V4.distance A L = Spec.V4.distFrom A a0 := by
  obtain ⟨mx, hmx, hd⟩ := h
  obtain ⟨a0, ha0⟩ := Option.isSome_iff_exists.mp (List.find?_isSome.mpr ⟨mx, hmx, hd⟩)
  refine ⟨a0, ha0, ?_⟩
  unfold Spec.V4.distance; rw [ha0]

theorem term5_snd (value : ℚ) (l : Option ℚ) : (Spec.V4.term value l 0 1).2 = 0 := by
  unfold Spec.V4.term; cases l <;> simp

theorem term_fst_le (value : ℚ) (l : Option ℚ) (d D : ℕ) : (Spec.V4.term value l d D).1 ≤ 1 := by
  unfold Spec.V4.term; cases l <;> simp

theorem baseScore_spec {m : MMap} (hv : Valid m) {full : MMap}
    (hfull : ∀ k, lookup k full = fullLookup m k) :
    ∃ b, V4.baseScore full = some b ∧ Spec.V4.score (assignment V4.X m) = some b := by
  have hl : LegalEff (assignment V4.X m) := eff_legal hv
  have hni : ([c!"VC", c!"VI", c!"VA", c!"SC", c!"SI", c!"SA"].all
      (fun k => V4.mEff full k = some c!"N")) = Spec.V4.noImpact (assignment V4.X m) := by
    unfold Spec.V4.noImpact
    simp only [List.all_cons, List.all_nil, mEff_base hv hfull (k := c!"VC") (by decide),
      mEff_base hv hfull (k := c!"VI") (by decide), mEff_base hv hfull (k := c!"VA") (by decide),
      mEff_base hv hfull (k := c!"SC") (by decide), mEff_base hv hfull (k := c!"SI") (by decide),
      mEff_base hv hfull (k := c!"SA") (by decide), Option.some.injEq]
  cases hno : Spec.V4.noImpact (assignment V4.X m) with
  | true =>
    refine ⟨0, ?_, ?_⟩
    · unfold V4.baseScore; rw [hni, hno]; rfl
    · unfold Spec.V4.score; rw [hno]; rfl
  | false =>
    rw [hno] at hni
    obtain ⟨b1, b2, b3, b4, b5, b6, b36⟩ := mv_bounds (assignment V4.X m)
    obtain ⟨value, hvalue⟩ := Option.isSome_iff_exists.mp (lookup_total (assignment V4.X m))
    have hmacro := macroVector_eq hv hfull
    obtain ⟨a0, ha0, hd1⟩ := find_of_exists (class1 hl b1).1
    obtain ⟨b0, hb0, hd2⟩ := find_of_exists (class2 hl b2).1
    obtain ⟨c0, hc0, hd36⟩ := find_of_exists (class36 hl b3 b6).1
    obtain ⟨d0, hd0, hd4⟩ := find_of_exists (class4 hl b4).1
    unfold Spec.V4.score Spec.V4.rawScore
    rw [hno]
    simp only [Bool.false_eq_true, if_false]
    generalize Spec.V4.macroVector (assignment V4.X m) = mv at *
    obtain ⟨e1, e2, e3, e4, e5, e6⟩ := mv
    simp only at b1 b2 b3 b4 b5 b6 b36 hmacro ha0 hb0 hc0 hd0 hd1 hd2 hd36 hd4 ⊢
    rw [hvalue]
    simp only [Option.map_some]
    obtain ⟨dAV, dPR, dUI, dAC, dAT, dVC, dVI, dVA, dSC, dSI, dSA, dCR, dIR, dAR, hs, s1, s2, s36, s4⟩ :=
      search_result hv hfull (max1_facts e1 b1).2 (max2_facts e2 b2).2 (max36_facts e3 b3 e6 b6).2
        (max4_facts e4 b4).2 ha0 hb0 hc0 hd0
    have hgap := gap_nonneg ⟨e1, e2, e3, e4, e5, e6⟩ value hvalue
    have hL1 : V4.lookupScore [e1 + 1, e2, e3, e4, e5, e6] = Spec.V4.lower1 ⟨e1, e2, e3, e4, e5, e6⟩ :=
      lookupScore_eq _ _ _ _ _ _ (by omega) (by omega) (by omega) (by omega) (by omega) (by omega)
    have hL2 : V4.lookupScore [e1, e2 + 1, e3, e4, e5, e6] = Spec.V4.lower2 ⟨e1, e2, e3, e4, e5, e6⟩ :=
      lookupScore_eq _ _ _ _ _ _ (by omega) (by omega) (by omega) (by omega) (by omega) (by omega)
    have hL4 : V4.lookupScore [e1, e2, e3, e4 + 1, e5, e6] = Spec.V4.lower4 ⟨e1, e2, e3, e4, e5, e6⟩ :=
      lookupScore_eq _ _ _ _ _ _ (by omega) (by omega) (by omega) (by omega) (by omega) (by omega)
    have hL5 : V4.lookupScore [e1, e2, e3, e4, e5 + 1, e6] = Spec.V4.lower5 ⟨e1, e2, e3, e4, e5, e6⟩ :=
      lookupScore_eq _ _ _ _ _ _ (by omega) (by omega) (by omega) (by omega) (by omega) (by omega)
    have hL36 : (if e3 = 1 ∧ e6 = 1 then V4.lookupScore [e1, e2, e3 + 1, e4, e5, e6]
        else if e3 = 0 ∧ e6 = 1 then V4.lookupScore [e1, e2, e3 + 1, e4, e5, e6]
        else if e3 = 1 ∧ e6 = 0 then V4.lookupScore [e1, e2, e3, e4, e5, e6 + 1]
        else if e3 = 0 ∧ e6 = 0 then
          V4.pyMaxNan (V4.lookupScore [e1, e2, e3, e4, e5, e6 + 1]) (V4.lookupScore [e1, e2, e3 + 1, e4, e5, e6])
        else V4.lookupScore [e1, e2, e3 + 1, e4, e5, e6 + 1]) =
        Spec.V4.lower36 ⟨e1, e2, e3, e4, e5, e6⟩ := by
      have hA := lookupScore_eq e1 e2 (e3 + 1) e4 e5 e6 (by omega) (by omega) (by omega) (by omega)
        (by omega) (by omega)
      have hB := lookupScore_eq e1 e2 e3 e4 e5 (e6 + 1) (by omega) (by omega) (by omega) (by omega)
        (by omega) (by omega)
      rw [hA, hB]
      have h3 : e3 = 0 ∨ e3 = 1 ∨ e3 = 2 := by omega
      have h6 : e6 = 0 ∨ e6 = 1 := by omega
      rcases h3 with rfl | rfl | rfl <;> rcases h6 with rfl | rfl
      · -- (0, 0)
        simp only [Nat.zero_ne_one, false_and, and_false, if_false, and_self, if_true]
        obtain ⟨l, hl'⟩ := Option.isSome_iff_exists.mp
          (score_total ⟨e1, e2, 0, e4, e5, 1⟩ b1 b2 (by simp) b4 b5 (by simp) (by simp))
        unfold Spec.V4.lower36
        simp only [Nat.zero_add]
        rw [hl']
        cases Spec.V4.score? ⟨e1, e2, 1, e4, e5, 0⟩ with
        | none => rfl
        | some rr =>
          simp only [V4.pyMaxNan]
          exact congrArg some (pyMax_eq_max l rr)
      · simp; rfl
      · simp; rfl
      · simp; rfl
      · exact absurd (b36 rfl) (by simp)
      · rw [if_neg (by omega), if_neg (by omega), if_neg (by omega), if_neg (by omega),
          lookupScore_eq _ _ _ _ _ _ (by omega) (by omega) (by omega) (by omega) (by omega) (by omega),
          score?_none_of_eq3 _ (by simp)]
        rfl
    have hval : V4.lookupScore [e1, e2, e3, e4, e5, e6] = some value := by
      rw [lookupScore_eq _ _ _ _ _ _ (by omega) (by omega) (by omega) (by omega) (by omega) (by omega)]
      exact hvalue
    have hk1 := contribution_term value (Spec.V4.lower1 ⟨e1, e2, e3, e4, e5, e6⟩) (dAV + dPR + dUI)
      (Spec.V4.distance (assignment V4.X m) (Spec.V4.max1 e1)) (Spec.V4.depth1 e1)
      (hgap _ (by simp)) (depth1_bounds e1).1 (by rw [s1, hd1])
    have hk2 := contribution_term value (Spec.V4.lower2 ⟨e1, e2, e3, e4, e5, e6⟩) (dAC + dAT)
      (Spec.V4.distance (assignment V4.X m) (Spec.V4.max2 e2)) (Spec.V4.depth2 e2)
      (hgap _ (by simp)) (depth2_bounds e2).1 (by rw [s2, hd2])
    have hk36 := contribution_term value (Spec.V4.lower36 ⟨e1, e2, e3, e4, e5, e6⟩)
      (dVC + dVI + dVA + dCR + dIR + dAR)
      (Spec.V4.distance (assignment V4.X m) (Spec.V4.max36 e3 e6)) (Spec.V4.depth36 e3 e6)
      (hgap _ (by simp)) (depth36_bounds e3 e6).1 (by rw [s36, hd36])
    have hk4 := contribution_term value (Spec.V4.lower4 ⟨e1, e2, e3, e4, e5, e6⟩) (dSC + dSI + dSA)
      (Spec.V4.distance (assignment V4.X m) (Spec.V4.max4 e4)) (Spec.V4.depth4 e4)
      (hgap _ (by simp)) (depth4_bounds e4).1 (by rw [s4, hd4])
    have hk5 : (match V4.lookupScore [e1, e2, e3, e4, e5 + 1, e6] with
        | none => ((0 : ℕ), (0 : ℚ))
        | some l => if value - l ≥ 0 then (1, 0) else (0, 0)) =
        Spec.V4.term value (Spec.V4.lower5 ⟨e1, e2, e3, e4, e5, e6⟩) 0 1 := by
      rw [hL5]
      cases h5 : Spec.V4.lower5 ⟨e1, e2, e3, e4, e5, e6⟩ with
      | none => rfl
      | some l =>
        have := hgap _ (by simp) l h5
        simp only [Spec.V4.term]
        rw [if_pos (by linarith)]
        simp
    have hbase := baseScore_eq full e1 e2 e3 e4 e5 e6 value (Spec.V4.max1 e1) (Spec.V4.max2 e2)
      (Spec.V4.max36 e3 e6) (Spec.V4.max4 e4) [[]] dAV dPR dUI dAC dAT dVC dVI dVA dSC dSI dSA dCR dIR dAR
      (Spec.V4.depth1 e1) (Spec.V4.depth2 e2) (Spec.V4.depth36 e3 e6) (Spec.V4.depth4 e4)
      _ _ _ _ (Spec.V4.lower36 ⟨e1, e2, e3, e4, e5, e6⟩)
      hni hmacro hval (maxEq1_lookup e1 b1) (maxEq2_lookup e2 b2) (maxEq36_lookup e3 b3 e6 b6 b36)
      (maxEq4_lookup e4 b4) (maxEq5_lookup e5 b5) hs (maxSev1_lookup e1 b1) (maxSev2_lookup e2 b2)
      (maxSev36_lookup e3 b3 e6 b6 b36) (maxSev4_lookup e4 b4) hL36
      (by rw [hL1]; exact hk1) (by rw [hL2]; exact hk2) hk36 (by rw [hL4]; exact hk4)
    refine ⟨_, hbase, ?_⟩
    simp only [hk5]
    rw [clamp_eq]
    unfold V4.finalRounding Spec.V4.roundHalfUp
    rw [epsilon_eq]
    congr 1
    symm
    apply roundHalfUp_eps _ _ (le_max_left _ _) ?_ (by norm_num) (le_refl _)
    obtain ⟨V, hV⟩ := score?_tenths hvalue
    exact raw_den value V hV _ _ _ _ (fun l h => score?_tenths h) (fun l h => score?_tenths h)
      (fun l h => lower36_tenths h) (fun l h => score?_tenths h) _ _ _ _ _ _ _ _ _
      (depth1_bounds e1) (depth2_bounds e2) (depth36_bounds e3 e6) (depth4_bounds e4)
      (term_fst_le _ _ _ _) (term5_snd _ _)

end Cvss.Lemmas.V4Search
