/-
  Numeric facts used by C01: Python `min`, ROUND_CEILING to one decimal, ranges.
-/
import Cvss.Basic
import Cvss.Spec.V3
import Mathlib.Tactic.Linarith
import Mathlib.Tactic.NormNum
import Mathlib.Tactic.Positivity
import Mathlib.Tactic.Ring
namespace Cvss.Lemmas.Num3
open Cvss

theorem pyMin_eq_min (a b : Rat) : pyMin a b = min a b := by
  unfold pyMin
  rw [Rat.min_def]
  by_cases h : b < a
  · rw [if_pos h, if_neg (not_le.mpr h)]
  · rw [if_neg h, if_pos (not_lt.mp h)]

theorem roundUp1_eq_roundup (x : Rat) : roundUp1 x = Spec.V3.roundup x := rfl

theorem mkRat_eq (n : Int) (d : Nat) : mkRat n d = (n : Rat) / (d : Rat) := Rat.mkRat_eq_div n d

/-- `roundup` of a number in [0, 10] is a whole number of tenths in [0, 10] -/
theorem roundup_tenths {x : Rat} (h0 : 0 ≤ x) (h1 : x ≤ 10) :
    ∃ k : Nat, k ≤ 100 ∧ Spec.V3.roundup x = (k : Rat) / 10 := by
  have hc0 : (0 : Int) ≤ (x * 10).ceil := by
    have h : ((0 : Int) : Rat) ≤ ((x * 10).ceil : Rat) := by
      have := @Rat.le_ceil (x * 10)
      have h2 : (0 : Rat) ≤ x * 10 := by positivity
      simpa using le_trans h2 this
    exact_mod_cast h
  have hc1 : (x * 10).ceil ≤ (100 : Int) := by
    rw [Rat.ceil_le_iff]
    have : x * 10 ≤ 100 := by linarith
    simpa using this
  refine ⟨(x * 10).ceil.toNat, by omega, ?_⟩
  unfold Spec.V3.roundup
  have : (((x * 10).ceil.toNat : Nat) : Int) = (x * 10).ceil := Int.toNat_of_nonneg hc0
  have h3 : (((x * 10).ceil.toNat : Nat) : Rat) = (((x * 10).ceil : Int) : Rat) := by
    exact_mod_cast this
  rw [h3]

/-- a whole number of tenths in [0, 10] lies in [0, 10] -/
theorem tenths_range {x : Rat} (h : ∃ k : Nat, k ≤ 100 ∧ x = (k : Rat) / 10) : 0 ≤ x ∧ x ≤ 10 := by
  obtain ⟨k, hk, rfl⟩ := h
  have h1 : (k : Rat) ≤ 100 := by exact_mod_cast hk
  have h0 : (0 : Rat) ≤ (k : Rat) := by positivity
  constructor
  · positivity
  · linarith

theorem min_ten_range {y : Rat} (h : 0 ≤ y) : 0 ≤ min y 10 ∧ min y 10 ≤ 10 := by
  constructor
  · exact le_min h (by norm_num)
  · exact min_le_right _ _

theorem mul_factor_range {b f : Rat} (hb0 : 0 ≤ b) (hb1 : b ≤ 10) (hf0 : 0 ≤ f) (hf1 : f ≤ 1) :
    0 ≤ b * f ∧ b * f ≤ 10 := by
  constructor
  · positivity
  · nlinarith

theorem mul3_range {x y z : Rat} (hx0 : 0 ≤ x) (hx1 : x ≤ 1) (hy0 : 0 ≤ y) (hy1 : y ≤ 1)
    (hz0 : 0 ≤ z) (hz1 : z ≤ 1) : 0 ≤ x * y * z ∧ x * y * z ≤ 1 := by
  have hxy0 : 0 ≤ x * y := by positivity
  have hxy1 : x * y ≤ 1 := by nlinarith
  constructor
  · positivity
  · nlinarith

end Cvss.Lemmas.Num3
