/-
  Numeric facts used by the scoring proofs: Python `max`/`min`, ROUND_HALF_UP to one decimal.
-/
import Mathlib.Tactic.Linarith
import Mathlib.Tactic.NormNum
import Mathlib.Algebra.Order.Floor.Ring
import Mathlib.Data.Rat.Floor
import Cvss.Basic
namespace Cvss.Lemmas.Num
open Cvss

theorem pyMax_eq_max (a b : ℚ) : pyMax a b = max a b := by
  unfold pyMax
  rcases lt_or_ge a b with h | h
  · rw [if_pos h, max_eq_right h.le]
  · rw [if_neg (not_lt.mpr h), max_eq_left h]

theorem pyMin_eq_min (a b : ℚ) : pyMin a b = min a b := by
  unfold pyMin
  rcases lt_or_ge b a with h | h
  · rw [if_pos h, min_eq_right h.le]
  · rw [if_neg (not_lt.mpr h), min_eq_left h]

/-- core `Rat.floor` is the `FloorRing` floor -/
theorem rat_floor_eq (x : ℚ) : x.floor = ⌊x⌋ := rfl

/-- `roundHalfUp1 x` is an integer number of tenths, and at most 10.0 whenever `x ≤ 10`;
    for negative `x` it is not positive -/
theorem roundHalfUp1_tenths (x : ℚ) (hx : x ≤ 10) :
    ∃ n : ℤ, n ≤ 100 ∧ roundHalfUp1 x = (n : ℚ) / 10 := by
  unfold roundHalfUp1
  by_cases h0 : 0 ≤ x
  · rw [if_pos h0]
    refine ⟨⌊x * 10 + 1 / 2⌋, ?_, rfl⟩
    have h1 : ((⌊x * 10 + 1 / 2⌋ : ℤ) : ℚ) ≤ x * 10 + 1 / 2 := Int.floor_le _
    have h2 : ((⌊x * 10 + 1 / 2⌋ : ℤ) : ℚ) < ((101 : ℤ) : ℚ) := by
      push_cast; linarith
    have h3 := Int.cast_lt.mp h2
    omega
  · rw [if_neg h0]
    have hneg : x < 0 := not_le.mp h0
    refine ⟨-⌊-x * 10 + 1 / 2⌋, ?_, ?_⟩
    · have h1 : (0 : ℤ) ≤ ⌊-x * 10 + 1 / 2⌋ := by
        apply Int.floor_nonneg.mpr; linarith
      omega
    · rw [rat_floor_eq]; push_cast; ring

theorem roundHalfUp1_le_ten (x : ℚ) (hx : x ≤ 10) : roundHalfUp1 x ≤ 10 := by
  obtain ⟨n, hn, h⟩ := roundHalfUp1_tenths x hx
  rw [h]
  have : (n : ℚ) ≤ 100 := by exact_mod_cast hn
  linarith

end Cvss.Lemmas.Num
