/-
  Glue between the parser theorems (C04) and the scoring theorems (C01, C03): what a successful
  constructor call means, and that scoring cannot fail on a parsed map.
-/
import Cvss.Props.C01
import Cvss.Props.C02
import Cvss.Props.C03
import Cvss.Props.C04
namespace Cvss.Lemmas.Construct
open Cvss Cvss.Model Cvss.Props

theorem validMap2_of_parse {s : Str} {m : MMap} (h : V2.parse s = .ok m) : C03.ValidMap m := by
  obtain ⟨-, -, hl, hn, hm⟩ := C04.v2_parse_ok_fields s m h
  refine ⟨fun k v hk => ?_, fun k hk => ?_⟩
  · exact (hl (k, v) (mem_of_lookup_eq_some m k v hk)).2.1
  · exact (lookup_isSome_iff_mem_keys m k).2 (hm k hk)

theorem validMap3_of_parse {s : Str} {i : Nat} {m : MMap} (h : V3.parse s = .ok (i, m)) : C01.ValidMap m := by
  obtain ⟨-, -, hl, hn, hm⟩ := C04.v3_parse_ok_fields s i m h
  refine ⟨fun k v hk => ?_, fun k hk => ?_⟩
  · exact (hl (k, v) (mem_of_lookup_eq_some m k v hk)).2.1
  · exact (lookup_isSome_iff_mem_keys m k).2 (hm k hk)

/-- `CVSS2(s)` succeeds exactly when parsing does, and then holds the guide's scores of the parsed map -/
theorem v2_construct_ok_iff (s : Str) (o : V2.Obj) :
    V2.construct s = .ok o ↔ ∃ m, V2.parse s = .ok m ∧
      o = { vector := s, metrics := m, base := Spec.V2.baseScore (assignment V2.ND m),
            temporal := Spec.V2.temporalScore (assignment V2.ND m),
            env := Spec.V2.environmentalScore (assignment V2.ND m) } := by
  unfold V2.construct
  cases hp : V2.parse s with
  | error e => simp
  | ok m =>
    simp only [C03.v2_scores_eq_spec m (validMap2_of_parse hp)]
    constructor
    · intro h; exact ⟨m, rfl, by cases h; rfl⟩
    · rintro ⟨m', hm', rfl⟩; cases hm'; rfl

theorem v2_construct_error (s : Str) (e : Err) (h : V2.construct s = .error e) :
    V2.parse s = .error e ∧ (e = .malformed ∨ e = .mandatory) := by
  unfold V2.construct at h
  cases hp : V2.parse s with
  | error e' =>
    simp [hp] at h; subst h
    exact ⟨rfl, C04.v2_parse_error s e' hp⟩
  | ok m => simp [hp, C03.v2_scores_eq_spec m (validMap2_of_parse hp)] at h

/-- `CVSS3(s)` succeeds exactly when parsing does, and then is the object `build` makes of the parse -/
theorem v3_construct_ok_iff (s : Str) (o : V3.Obj) :
    V3.construct s = .ok o ↔ ∃ i m, V3.parse s = .ok (i, m) ∧ V3.build s i m = some o := by
  unfold V3.construct
  cases hp : V3.parse s with
  | error e => simp
  | ok r =>
    obtain ⟨i, m⟩ := r
    obtain ⟨o', ho', -⟩ := C01.v3_build_eq_spec s i m (validMap3_of_parse hp)
    simp only [ho']
    constructor
    · intro h; cases h; exact ⟨i, m, rfl, ho'⟩
    · rintro ⟨i', m', h1, h2⟩; cases h1; rw [ho'] at h2; cases h2; rfl

theorem v3_construct_error (s : Str) (e : Err) (h : V3.construct s = .error e) :
    V3.parse s = .error e ∧ (e = .malformed ∨ e = .mandatory) := by
  unfold V3.construct at h
  cases hp : V3.parse s with
  | error e' =>
    simp [hp] at h; subst h
    exact ⟨rfl, C04.v3_parse_error s e' hp⟩
  | ok r =>
    obtain ⟨i, m⟩ := r
    obtain ⟨o', ho', -⟩ := C01.v3_build_eq_spec s i m (validMap3_of_parse hp)
    simp [hp, ho'] at h

theorem validMap4_of_parse {s : Str} {m : MMap} (h : V4.parse s = .ok m) : C02.ValidMap m := by
  obtain ⟨-, -, hl, hn, hm⟩ := C04.v4_parse_ok_fields s m h
  refine ⟨fun k v hk => ?_, fun k hk => ?_⟩
  · exact (hl (k, v) (mem_of_lookup_eq_some m k v hk)).2.1
  · exact (lookup_isSome_iff_mem_keys m k).2 (hm k hk)

/-- `CVSS4(s)` succeeds exactly when parsing does, and then is the object `build` makes of the parse -/
theorem v4_construct_ok_iff (s : Str) (o : V4.Obj) :
    V4.construct s = .ok o ↔ ∃ m, V4.parse s = .ok m ∧ V4.build s m = some o := by
  unfold V4.construct
  cases hp : V4.parse s with
  | error e => simp
  | ok m =>
    obtain ⟨o', ho', -⟩ := C02.v4_build_eq_spec s m (validMap4_of_parse hp)
    simp only [ho']
    constructor
    · intro h; cases h; exact ⟨m, rfl, ho'⟩
    · rintro ⟨m', h1, h2⟩; cases h1; rw [ho'] at h2; cases h2; rfl

theorem v4_construct_error (s : Str) (e : Err) (h : V4.construct s = .error e) :
    V4.parse s = .error e ∧ (e = .malformed ∨ e = .mandatory) := by
  unfold V4.construct at h
  cases hp : V4.parse s with
  | error e' =>
    simp [hp] at h; subst h
    exact ⟨rfl, C04.v4_parse_error s e' hp⟩
  | ok m =>
    obtain ⟨o', ho', -⟩ := C02.v4_build_eq_spec s m (validMap4_of_parse hp)
    simp [hp, ho'] at h

/-- what a constructed v4 object holds: the input, the parsed map, the specification's score of the
    assignment read off that map, and its rating -/
theorem v4_construct_spec {s : Str} {o : V4.Obj} (h : V4.construct s = .ok o) :
    o.vector = s ∧ V4.parse s = .ok o.orig ∧ Spec.V4.score (assignment V4.X o.orig) = some o.base ∧
      o.severity = V4.sevOf o.base := by
  obtain ⟨m, hp, hb⟩ := (v4_construct_ok_iff s o).1 h
  obtain ⟨o', ho', h1, h2, h3, h4⟩ := C02.v4_build_eq_spec s m (validMap4_of_parse hp)
  rw [ho'] at hb; cases hb
  exact ⟨h1, by rw [h2]; exact hp, by rw [h2]; exact h3, h4⟩

/-- NO FOREIGN EXCEPTION: whatever the string, each constructor either succeeds or fails with its
    version's malformed-vector or mandatory-metric error -/
theorem construct_never_foreign (v : Ver) (s : Str) : construct v s ≠ .error .foreign := by
  intro h
  cases v with
  | v2 =>
    simp only [construct] at h
    cases hc : V2.construct s with
    | error e => rw [hc] at h; simp [Except.map] at h; subst h; have := (v2_construct_error s _ hc).2; simp at this
    | ok o => rw [hc] at h; simp [Except.map] at h
  | v3 =>
    simp only [construct] at h
    cases hc : V3.construct s with
    | error e => rw [hc] at h; simp [Except.map] at h; subst h; have := (v3_construct_error s _ hc).2; simp at this
    | ok o => rw [hc] at h; simp [Except.map] at h
  | v4 =>
    simp only [construct] at h
    cases hc : V4.construct s with
    | error e => rw [hc] at h; simp [Except.map] at h; subst h; have := (v4_construct_error s _ hc).2; simp at this
    | ok o => rw [hc] at h; simp [Except.map] at h

end Cvss.Lemmas.Construct
