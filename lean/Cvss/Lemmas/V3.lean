/-
  General lemmas about association lists and `add_missing_optional`, used by C01.
-/
import Cvss.Model.V3
import Cvss.Spec.V3
import Cvss.Lemmas.Num3
namespace Cvss.Lemmas.V3
open Cvss Cvss.Model

section Assoc
variable {α β γ : Type} [DecidableEq α]

theorem lookup_insert (k a : α) (v : β) (l : List (α × β)) :
    lookup k (Cvss.insert a v l) = if k = a then some v else lookup k l := by
  induction l with
  | nil => simp [Cvss.insert, lookup]
  | cons p r ih =>
    obtain ⟨a', b'⟩ := p
    by_cases h : a = a'
    · subst h
      by_cases hk : k = a
      · simp [Cvss.insert, lookup, hk]
      · simp [Cvss.insert, lookup, hk]
    · by_cases hk : k = a'
      · subst hk
        have : ¬ k = a := fun e => h e.symm
        simp [Cvss.insert, lookup, h, this]
      · simp [Cvss.insert, lookup, h, hk, ih]

theorem lookup_map_keys (k : α) (l : List (α × List (γ × β))) :
    lookup k (l.map (fun (k, row) => (k, keys row))) = (lookup k l).map keys := by
  induction l with
  | nil => simp [lookup]
  | cons p r ih =>
    obtain ⟨a', b'⟩ := p
    by_cases hk : k = a'
    · simp [lookup, hk]
    · simp [lookup, hk, ih]

theorem mem_keys_lookup {k : α} {l : List (α × β)} (h : k ∈ keys l) : ∃ w, lookup k l = some w := by
  induction l with
  | nil => simp [keys] at h
  | cons p r ih =>
    obtain ⟨a', b'⟩ := p
    by_cases hk : k = a'
    · exact ⟨b', by simp [lookup, hk]⟩
    · have : k ∈ keys r := by
        simp only [keys, List.map_cons, List.mem_cons] at h
        rcases h with h | h
        · exact absurd h hk
        · exact h
      obtain ⟨w, hw⟩ := ih this
      exact ⟨w, by simp [lookup, hk, hw]⟩

theorem lookup_mem {k : α} {v : β} {l : List (α × β)} (h : lookup k l = some v) : (k, v) ∈ l := by
  induction l with
  | nil => simp [lookup] at h
  | cons p r ih =>
    obtain ⟨a', b'⟩ := p
    by_cases hk : k = a'
    · simp [lookup, hk] at h
      simp [hk, h]
    · simp [lookup, hk] at h
      exact List.mem_cons_of_mem _ (ih h)

theorem all_lookup {p : α × β → Bool} {l : List (α × β)} (h : l.all p = true) {k : α} {v : β}
    (hl : lookup k l = some v) : p (k, v) = true :=
  List.all_eq_true.mp h _ (lookup_mem hl)

end Assoc

/-- `add_missing_optional` over any duplicate-free list of metric names none of whose base names
    (name minus first character) is in the list, on a map that has all the base names -/
theorem addMissingOptional_spec (l : List Str) :
    l.Nodup → (∀ a ∈ l, a.drop 1 ∉ l) →
    ∀ m : MMap, (∀ a ∈ l, (lookup (a.drop 1) m).isSome) →
    ∃ full, V3.addMissingOptional m l = some full ∧
      ∀ k, lookup k full =
        if k ∈ l ∧ (lookup k m).getD V3.X = V3.X then lookup (k.drop 1) m else lookup k m := by
  induction l with
  | nil =>
    intro _ _ m _
    exact ⟨m, rfl, by simp⟩
  | cons a rest ih =>
    intro hnd hdrop m hbase
    have hnd' : rest.Nodup := (List.nodup_cons.mp hnd).2
    have ha_rest : a ∉ rest := (List.nodup_cons.mp hnd).1
    have hdrop' : ∀ b ∈ rest, b.drop 1 ∉ rest := fun b hb hc =>
      hdrop b (List.mem_cons_of_mem _ hb) (List.mem_cons_of_mem _ hc)
    have hdrop_a : ∀ b ∈ rest, b.drop 1 ≠ a := fun b hb hc =>
      hdrop b (List.mem_cons_of_mem _ hb) (by simp [hc])
    have hbase' : ∀ b ∈ rest, (lookup (b.drop 1) m).isSome := fun b hb =>
      hbase b (List.mem_cons_of_mem _ hb)
    obtain ⟨bv, hbv⟩ := Option.isSome_iff_exists.mp (hbase a (by simp))
    -- the "fill" step
    have fill : (lookup a m).getD V3.X = V3.X →
        ∃ full, V3.addMissingOptional (Cvss.insert a bv m) rest = some full ∧
          ∀ k, lookup k full =
            if k ∈ a :: rest ∧ (lookup k m).getD V3.X = V3.X then lookup (k.drop 1) m
            else lookup k m := by
      intro hX
      have hb2 : ∀ b ∈ rest, (lookup (b.drop 1) (Cvss.insert a bv m)).isSome := by
        intro b hb
        rw [lookup_insert]
        split
        · rfl
        · exact hbase' b hb
      obtain ⟨full, hfull, hlk⟩ := ih hnd' hdrop' (Cvss.insert a bv m) hb2
      refine ⟨full, hfull, ?_⟩
      intro k
      rw [hlk k]
      by_cases hka : k = a
      · subst hka
        have h1 : ¬ (k ∈ rest ∧ (lookup k (Cvss.insert k bv m)).getD V3.X = V3.X) :=
          fun h => ha_rest h.1
        rw [if_neg h1, lookup_insert, if_pos rfl, if_pos ⟨by simp, hX⟩, hbv]
      · by_cases hkr : k ∈ rest
        · have hd : ¬ k.drop 1 = a := hdrop_a k hkr
          simp only [lookup_insert, if_neg hd, List.mem_cons, hka, hkr, false_or,
            true_and, if_false]
        · simp only [lookup_insert, List.mem_cons, hka, hkr, false_or, false_and,
            if_false]
    -- the "keep" step
    have keep : ∀ v, lookup a m = some v → v ≠ V3.X →
        ∃ full, V3.addMissingOptional m rest = some full ∧
          ∀ k, lookup k full =
            if k ∈ a :: rest ∧ (lookup k m).getD V3.X = V3.X then lookup (k.drop 1) m
            else lookup k m := by
      intro v hv hvX
      obtain ⟨full, hfull, hlk⟩ := ih hnd' hdrop' m hbase'
      refine ⟨full, hfull, ?_⟩
      intro k
      rw [hlk k]
      by_cases hka : k = a
      · subst hka
        have h1 : ¬ (k ∈ rest ∧ (lookup k m).getD V3.X = V3.X) := fun h => ha_rest h.1
        have h2 : ¬ (k ∈ k :: rest ∧ (lookup k m).getD V3.X = V3.X) := by
          rw [hv]; exact fun h => hvX h.2
        rw [if_neg h1, if_neg h2]
      · simp only [List.mem_cons, hka, false_or]
    unfold V3.addMissingOptional
    cases hla : lookup a m with
    | none =>
      simp only [hbv]
      exact fill (by simp [hla])
    | some v =>
      by_cases hvX : v = V3.X
      · simp only [hvX, if_true, hbv]
        exact fill (by simp [hla, hvX])
      · simp only [hvX, if_false]
        exact keep v hla hvX

end Cvss.Lemmas.V3
