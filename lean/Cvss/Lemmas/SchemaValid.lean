/-
  Lemmas for C10: when `Schema.failures` is empty, and that a run of `as_json` blocks whose items all
  satisfy their constraints succeeds and produces a valid object.
-/
import Cvss.Spec.Schema
import Cvss.Lemmas.Str
import Cvss.Lemmas.Json
namespace Cvss.Lemmas.SchemaValid
open Cvss Cvss.Model Cvss.Spec Cvss.Spec.Schema

/-- the value `v` under key `k` does not fail schema `sch` (a key the schema has no property for is
    not validated) -/
def propOk (sch : Schema) (k : Str) (v : JVal) : Bool :=
  match lookup k sch.props with
  | none => true
  | some c => okConstraint c v

/-- no failing location: required keys present, every present property satisfies its constraint, and
    the schema has no score/severity bands -/
theorem failures_eq_nil (sch : Schema) (j : JObj)
    (hreq : ∀ k ∈ sch.required, k ∈ keys j)
    (hn : (keys sch.props).Nodup)
    (hprops : ∀ k v, lookup k j = some v → propOk sch k v = true)
    (hb : sch.bands = []) : failures sch j = [] := by
  unfold failures
  rw [hb]
  simp only [List.filterMap_nil, List.append_nil, List.append_eq_nil_iff, List.map_eq_nil_iff,
    List.filter_eq_nil_iff, List.filterMap_eq_nil_iff]
  refine ⟨?_, ?_⟩
  · intro k hk
    simp [(hasKey_iff_mem_keys j k).2 (hreq k hk)]
  · rintro ⟨k, c⟩ hkc
    simp only
    cases hl : lookup k j with
    | none => rfl
    | some v =>
      have := hprops k v hl
      unfold propOk at this
      rw [lookup_eq_some_of_mem _ hn k c hkc] at this
      simp [this]

theorem mem_entries {jk : List (Str × Str)} {descr : Str → Option Str} {usf : Str → Str} {ms : List Str}
    {k : Str} {v : JVal} (h : (k, v) ∈ entries jk descr usf ms) :
    ∃ m ∈ ms, ∃ d, lookup m jk = some k ∧ descr m = some d ∧ v = .str (usf d) := by
  unfold entries at h
  rw [List.mem_filterMap] at h
  obtain ⟨m, hm, h⟩ := h
  cases hk : lookup m jk with
  | none => simp [hk] at h
  | some k' =>
    cases hd : descr m with
    | none => simp [hk, hd] at h
    | some d =>
      simp only [hk, hd, Option.some.injEq, Prod.mk.injEq] at h
      exact ⟨m, hm, d, by rw [hk, h.1], hd, h.2.symm⟩

theorem addMetrics_isSome (jk : List (Str × Str)) (descr : Str → Option Str) (usf : Str → Str)
    (ms : List Str) (h : ∀ m ∈ ms, ∃ k d, lookup m jk = some k ∧ descr m = some d) (data : JObj) :
    ∃ data', addMetrics jk descr usf data ms = some data' := by
  induction ms generalizing data with
  | nil => exact ⟨data, rfl⟩
  | cons m rest ih =>
    obtain ⟨k, d, hk, hd⟩ := h m (by simp)
    unfold addMetrics
    simp only [hk, hd]
    exact ih (fun m' hm' => h m' (List.mem_cons_of_mem _ hm')) _

theorem runBlocks_isSome (jk : List (Str × Str)) (descr : Str → Option Str) (usf : Str → Str)
    (bs : List Block)
    (h : ∀ b ∈ bs, ∀ m ∈ b.2.1, ∃ k d, lookup m jk = some k ∧ descr m = some d) (d : JObj) :
    ∃ d', runBlocks jk descr usf bs d = some d' := by
  induction bs generalizing d with
  | nil => exact ⟨d, rfl⟩
  | cons b bs ih =>
    have ih := ih (fun b' hb' => h b' (List.mem_cons_of_mem _ hb'))
    simp only [runBlocks, runBlock]
    cases hb : b.1 with
    | false => simpa using ih d
    | true =>
      obtain ⟨d1, hd1⟩ := addMetrics_isSome jk descr usf b.2.1 (h b (by simp)) d
      simpa [hd1] using ih _

/-- MAIN (generic): a run of blocks over a header, finished by the optional sort, succeeds and yields
    an object without failing schema location, provided every item it can assign passes `propOk` -/
theorem runBlocks_valid (sch : Schema) (jk : List (Str × Str)) (descr : Str → Option Str)
    (usf : Str → Str) (bs : List Block) (d0 : JObj) (sort : Bool)
    (hnodup : (keys d0 ++ bs.flatMap (blockKeys jk)).Nodup)
    (hdef : ∀ b ∈ bs, ∀ m ∈ b.2.1, ∃ k d, lookup m jk = some k ∧ descr m = some d ∧
      propOk sch k (.str (usf d)) = true)
    (h0 : ∀ kv ∈ d0, propOk sch kv.1 kv.2 = true)
    (hextra : ∀ b ∈ bs, ∀ kv ∈ b.2.2, propOk sch kv.1 kv.2 = true)
    (hreq : ∀ k ∈ sch.required, k ∈ keys d0 ∨ ∃ b ∈ bs, b.1 = true ∧ k ∈ keys b.2.2)
    (hn : (keys sch.props).Nodup) (hb : sch.bands = []) :
    ∃ j, (runBlocks jk descr usf bs d0).bind (fun d => some (finish sort d)) = some j ∧
      failures sch j = [] := by
  obtain ⟨d, hd⟩ := runBlocks_isSome jk descr usf bs
    (fun b hb m hm => by obtain ⟨k, dd, a, b', _⟩ := hdef b hb m hm; exact ⟨k, dd, a, b'⟩) d0
  obtain ⟨e1, e2, -, -⟩ := runBlocks_struct jk descr usf bs d0 d hnodup hd
  refine ⟨finish sort d, by simp [hd], ?_⟩
  apply failures_eq_nil sch _ _ hn _ hb
  · intro k hk
    rw [mem_keys_finish, e1, keys_append, List.mem_append]
    rcases hreq k hk with h | ⟨b, hb, hb1, hkb⟩
    · exact Or.inl h
    · right
      obtain ⟨kv, hkv, rfl⟩ := List.mem_map.1 hkb
      apply mem_keys_of_mem (v := kv.2)
      rw [List.mem_flatMap]
      refine ⟨b, hb, ?_⟩
      simp only [blockItems, hb1, if_true, List.mem_append]
      exact Or.inr hkv
  · intro k v hl
    rw [lookup_finish sort d e2] at hl
    have hmem := mem_of_lookup_eq_some d k v hl
    rw [e1, List.mem_append] at hmem
    rcases hmem with h | h
    · exact h0 (k, v) h
    · rw [List.mem_flatMap] at h
      obtain ⟨b, hb, hkv⟩ := h
      unfold blockItems at hkv
      split at hkv
      · rcases List.mem_append.1 hkv with h | h
        · obtain ⟨m, hm, dd, a1, a2, rfl⟩ := mem_entries h
          obtain ⟨k', d', b1, b2, b3⟩ := hdef b hb m hm
          rw [a1] at b1; rw [a2] at b2
          cases b1; cases b2
          exact b3
        · exact hextra b hb (k, v) h
      · simp at hkv

end Cvss.Lemmas.SchemaValid
