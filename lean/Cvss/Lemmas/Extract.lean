/-
  Lemmas about the text scanner `Cvss/Model/Extract.lean`.
-/
import Cvss.Model.Extract
namespace Cvss.Model.Extract
open Cvss Cvss.Model

/-! ### `classRun`, `matchPrefix`, `matchHere` -/

theorem classRun_append (s : Str) : (classRun s).1 ++ (classRun s).2 = s := by
  induction s with
  | nil => rfl
  | cons c cs ih =>
    unfold classRun
    split
    · simp [ih]
    · rfl

theorem matchPrefix_some {isDigit : Char → Bool} {s rest : Str}
    (h : matchPrefix isDigit s = some rest) :
    ∃ d, s = 'C' :: 'V' :: 'S' :: 'S' :: ':' :: '3' :: '.' :: d :: '/' :: rest ∧ isDigit d = true := by
  unfold matchPrefix at h
  split at h
  · split at h
    · cases h; exact ⟨_, rfl, ‹_›⟩
    · cases h
  · cases h

/-- the two ways `matchHere` can succeed -/
theorem matchHere_cases {isDigit : Char → Bool} {s m r : Str}
    (h : matchHere isDigit s = some (m, r)) :
    ((m, r) = classRun s ∧ 26 ≤ (classRun s).1.length) ∨
    (∃ rest, matchPrefix isDigit s = some rest ∧ 26 ≤ (classRun rest).1.length ∧
      m = s.take 9 ++ (classRun rest).1 ∧ r = (classRun rest).2) := by
  unfold matchHere at h
  simp only at h
  split at h
  · rename_i rest hp
    split at h
    · rename_i hlen
      right
      refine ⟨rest, hp, hlen, ?_, ?_⟩
      · simpa using (congrArg (fun x => Option.map Prod.fst x) h).symm
      · simpa using (congrArg (fun x => Option.map Prod.snd x) h).symm
    · split at h
      · rename_i hlen
        left
        exact ⟨by simpa using h.symm, hlen⟩
      · cases h
  · split at h
    · rename_i hlen
      left
      exact ⟨by simpa using h.symm, hlen⟩
    · cases h

theorem matchHere_some {isDigit : Char → Bool} {s m r : Str}
    (h : matchHere isDigit s = some (m, r)) : m ++ r = s ∧ 26 ≤ m.length := by
  rcases matchHere_cases h with ⟨heq, hlen⟩ | ⟨rest, hp, hlen, rfl, rfl⟩
  · have := classRun_append s
    rw [← heq] at this hlen
    exact ⟨this, hlen⟩
  · obtain ⟨d, rfl, -⟩ := matchPrefix_some hp
    refine ⟨?_, ?_⟩
    · simp [classRun_append]
    · simp; omega

theorem matchHere_length {isDigit : Char → Bool} {s m r : Str}
    (h : matchHere isDigit s = some (m, r)) : r.length + 26 ≤ s.length := by
  obtain ⟨h1, h2⟩ := matchHere_some h
  rw [← h1, List.length_append]; omega

/-! ### `findAll` -/

theorem findAll_nil (isDigit : Char → Bool) (fuel : Nat) : findAll isDigit fuel [] = [] := by
  cases fuel <;> rfl

theorem findAll_cons (isDigit : Char → Bool) (fuel : Nat) (c : Char) (cs : Str) :
    findAll isDigit (fuel + 1) (c :: cs) =
      match matchHere isDigit (c :: cs) with
      | some (m, rest) => m :: findAll isDigit fuel rest
      | none => findAll isDigit fuel cs := rfl

/-- every match the scanner reports is a contiguous substring of the text -/
theorem findAll_infix' (isDigit : Char → Bool) (fuel : Nat) (text : Str) :
    ∀ m ∈ findAll isDigit fuel text, m <:+: text := by
  induction fuel generalizing text with
  | zero => intro m hm; simp [findAll] at hm
  | succ fuel ih =>
    cases text with
    | nil => intro m hm; simp [findAll] at hm
    | cons c cs =>
      intro m hm
      rw [findAll_cons] at hm
      split at hm
      · rename_i m0 rest hmh
        obtain ⟨happ, -⟩ := matchHere_some hmh
        rcases List.mem_cons.1 hm with rfl | hm
        · exact ⟨[], rest, by simpa using happ⟩
        · have h1 := ih rest m hm
          have h2 : rest <:+: c :: cs := (List.IsSuffix.isInfix ⟨m0, happ⟩)
          exact h1.trans h2
      · have h1 := ih cs m hm
        exact h1.trans (List.suffix_cons c cs).isInfix

/-- with enough fuel the result does not depend on the fuel -/
theorem findAll_fuel (isDigit : Char → Bool) (f₁ f₂ : Nat) (s : Str)
    (h₁ : s.length ≤ f₁) (h₂ : s.length ≤ f₂) : findAll isDigit f₁ s = findAll isDigit f₂ s := by
  induction f₁ generalizing f₂ s with
  | zero =>
    have : s = [] := List.eq_nil_of_length_eq_zero (by omega)
    subst this
    rw [findAll_nil, findAll_nil]
  | succ f₁ ih =>
    cases s with
    | nil => rw [findAll_nil, findAll_nil]
    | cons c cs =>
      cases f₂ with
      | zero => simp at h₂
      | succ f₂ =>
        simp only [List.length_cons] at h₁ h₂
        rw [findAll_cons, findAll_cons]
        split
        · rename_i m rest hmh
          have := matchHere_length hmh
          simp only [List.length_cons] at this
          rw [ih f₂ rest (by omega) (by omega)]
        · exact ih f₂ cs (by omega) (by omega)

/-! ### `addDedup`, `collect` -/

theorem eq_refl (o : AnyObj) : o.eq o = true := by simp [AnyObj.eq]

theorem mem_addDedup {acc : List AnyObj} {o x : AnyObj} (h : x ∈ addDedup acc o) :
    x ∈ acc ∨ x = o := by
  unfold addDedup at h
  split at h
  · exact Or.inl h
  · simpa using h

theorem mem_addDedup_of_mem {acc : List AnyObj} (o : AnyObj) {x : AnyObj} (h : x ∈ acc) :
    x ∈ addDedup acc o := by
  unfold addDedup
  split
  · exact h
  · exact List.mem_append_left _ h

theorem exists_eq_addDedup (acc : List AnyObj) (o : AnyObj) :
    ∃ o' ∈ addDedup acc o, o'.eq o = true := by
  unfold addDedup
  split
  · rename_i h
    obtain ⟨a, ha, hae⟩ := List.any_eq_true.1 h
    exact ⟨a, ha, hae⟩
  · exact ⟨o, by simp, eq_refl o⟩

theorem pairwise_addDedup {acc : List AnyObj} (o : AnyObj)
    (h : acc.Pairwise (fun a b => a.eq b = false)) :
    (addDedup acc o).Pairwise (fun a b => a.eq b = false) := by
  unfold addDedup
  split
  · exact h
  · rename_i hany
    rw [List.pairwise_append]
    refine ⟨h, by simp, ?_⟩
    intro a ha b hb
    have hb' : b = o := by simpa using hb
    subst hb'
    cases hab : a.eq b with
    | false => rfl
    | true => exact absurd (List.any_eq_true.2 ⟨a, ha, hab⟩) hany

/-- the result constructed for one match -/
def resultOf (m : Str) : Except Err AnyObj :=
  if startsWith c!"CVSS:3." m then construct .v3 m else construct .v2 m

theorem collect_nil (acc : List AnyObj) : collect acc [] = some acc := rfl

theorem collect_cons (acc : List AnyObj) (m : Str) (rest : List Str) :
    collect acc (m :: rest) =
      match resultOf m with
      | .ok o => collect (addDedup acc o) rest
      | .error .foreign => none
      | .error _ => collect acc rest := by
  unfold resultOf
  rw [collect]
  generalize (if startsWith c!"CVSS:3." m then construct .v3 m else construct .v2 m) = res
  cases res with
  | ok o => rfl
  | error e => cases e <;> rfl

theorem resultOf_ok {m : Str} {o : AnyObj} (h : resultOf m = .ok o) :
    construct .v2 m = .ok o ∨ construct .v3 m = .ok o := by
  unfold resultOf at h
  split at h
  · exact Or.inr h
  · exact Or.inl h

/-- an invariant of the accumulator that every addition preserves holds of the result -/
theorem collect_invariant (P : List AnyObj → Prop) (ms : List Str)
    (hstep : ∀ acc m o, m ∈ ms → resultOf m = .ok o → P acc → P (addDedup acc o)) :
    ∀ acc os, P acc → collect acc ms = some os → P os := by
  induction ms with
  | nil =>
    intro acc os hP h
    rw [collect_nil] at h
    cases h; exact hP
  | cons m rest ih =>
    intro acc os hP h
    have ih' := ih (fun acc m' o hm' => hstep acc m' o (List.mem_cons_of_mem _ hm'))
    rw [collect_cons] at h
    split at h
    · rename_i o ho
      exact ih' _ os (hstep acc m o (by simp) ho hP) h
    · cases h
    · exact ih' _ os hP h

theorem collect_isSome (h2 : ∀ s, construct .v2 s ≠ .error .foreign)
    (h3 : ∀ s, construct .v3 s ≠ .error .foreign) (ms : List Str) :
    ∀ acc, (collect acc ms).isSome = true := by
  induction ms with
  | nil => intro acc; rfl
  | cons m rest ih =>
    intro acc
    rw [collect_cons]
    split
    · exact ih _
    · rename_i hres
      unfold resultOf at hres
      split at hres
      · exact absurd hres (h3 m)
      · exact absurd hres (h2 m)
    · exact ih _

theorem collect_append (ms₁ ms₂ : List Str) :
    ∀ acc os, collect acc (ms₁ ++ ms₂) = some os →
      ∃ acc', collect acc ms₁ = some acc' ∧ collect acc' ms₂ = some os := by
  induction ms₁ with
  | nil => intro acc os h; exact ⟨acc, rfl, h⟩
  | cons m rest ih =>
    intro acc os h
    rw [List.cons_append, collect_cons] at h
    rw [collect_cons]
    split at h
    · exact ih _ os h
    · cases h
    · exact ih _ os h

/-! ### scanning a text that contains a delimited vector -/

/-- a class run started before a non-class character `d` stops at or before `d` -/
theorem classRun_delim (q : Str) (d : Char) (rest : Str) (hd : inClass d = false) :
    ∃ q', (classRun (q ++ d :: rest)).2 = q' ++ d :: rest ∧ q'.length ≤ q.length := by
  induction q with
  | nil =>
    refine ⟨[], ?_, Nat.le_refl _⟩
    simp [classRun, hd]
  | cons c cs ih =>
    obtain ⟨q', h1, h2⟩ := ih
    rw [List.cons_append]
    unfold classRun
    split
    · exact ⟨q', h1, by simp; omega⟩
    · exact ⟨c :: cs, rfl, Nat.le_refl _⟩

/-- the class run over a string of class characters followed by a non-class character (or the end) -/
theorem classRun_all (v post : Str) (hv : v.all inClass = true)
    (hr : ∀ c, post.head? = some c → inClass c = false) : classRun (v ++ post) = (v, post) := by
  induction v with
  | nil =>
    cases post with
    | nil => rfl
    | cons c cs =>
      have := hr c rfl
      simp [classRun, this]
  | cons c cs ih =>
    simp only [List.all_cons, Bool.and_eq_true] at hv
    rw [List.cons_append]
    unfold classRun
    rw [if_pos hv.1, ih hv.2]

/-- a match that starts before the non-class character `d` ends before it, provided what follows `d`
    cannot complete the optional prefix `CVSS:3.<digit>/` -/
theorem matchHere_pre {isDigit : Char → Bool} (q : Str) (d r0 r1 : Char) (rest m r : Str)
    (hd : inClass d = false) (h0 : r0 ≠ '.') (h0' : r0 ≠ '/') (h1 : r1 ≠ '/')
    (h : matchHere isDigit (q ++ d :: r0 :: r1 :: rest) = some (m, r)) :
    ∃ q', r = q' ++ d :: r0 :: r1 :: rest ∧ q'.length < q.length := by
  have hlen := matchHere_length h
  have key : ∃ q', r = q' ++ d :: r0 :: r1 :: rest ∧ q'.length ≤ q.length := by
    rcases matchHere_cases h with ⟨heq, -⟩ | ⟨rest0, hp, -, -, rfl⟩
    · obtain ⟨q', hq1, hq2⟩ := classRun_delim q d (r0 :: r1 :: rest) hd
      rw [← heq] at hq1
      exact ⟨q', hq1, hq2⟩
    · obtain ⟨x, hs, -⟩ := matchPrefix_some hp
      rcases q with _ | ⟨a0, _ | ⟨a1, _ | ⟨a2, _ | ⟨a3, _ | ⟨a4, _ | ⟨a5, _ | ⟨a6, _ | ⟨a7,
        _ | ⟨a8, q9⟩⟩⟩⟩⟩⟩⟩⟩⟩
      all_goals simp only [List.nil_append, List.cons_append, List.cons.injEq] at hs
      · obtain ⟨rfl, -⟩ := hs; simp [inClass] at hd
      · obtain ⟨-, rfl, -⟩ := hs; simp [inClass] at hd
      · obtain ⟨-, -, rfl, -⟩ := hs; simp [inClass] at hd
      · obtain ⟨-, -, -, rfl, -⟩ := hs; simp [inClass] at hd
      · obtain ⟨-, -, -, -, rfl, -⟩ := hs; simp [inClass] at hd
      · exact absurd hs.2.2.2.2.2.2.1 h0
      · exact absurd hs.2.2.2.2.2.2.2.2.1 h1
      · exact absurd hs.2.2.2.2.2.2.2.2.1 h0'
      · obtain ⟨-, -, -, -, -, -, -, -, rfl, -⟩ := hs; simp [inClass] at hd
      · obtain ⟨-, -, -, -, -, -, -, -, -, rfl⟩ := hs
        obtain ⟨q', hq1, hq2⟩ := classRun_delim q9 d (r0 :: r1 :: rest) hd
        exact ⟨q', hq1, by simp; omega⟩
  obtain ⟨q', hq1, hq2⟩ := key
  refine ⟨q', hq1, ?_⟩
  rw [hq1] at hlen
  simp only [List.length_append, List.length_cons] at hlen
  omega

/-- scanning up to a non-class character `d`: the scanner reaches exactly the text after `d` -/
theorem findAll_pre (isDigit : Char → Bool) (d r0 r1 : Char) (rest : Str)
    (hd : inClass d = false) (h0 : r0 ≠ '.') (h0' : r0 ≠ '/') (h1 : r1 ≠ '/') :
    ∀ n (q : Str), q.length ≤ n →
      ∃ ms, findAll isDigit (q ++ d :: r0 :: r1 :: rest).length (q ++ d :: r0 :: r1 :: rest) =
        ms ++ findAll isDigit (r0 :: r1 :: rest).length (r0 :: r1 :: rest) := by
  intro n
  induction n with
  | zero =>
    intro q hq
    have : q = [] := List.eq_nil_of_length_eq_zero (by omega)
    subst this
    rw [List.nil_append, List.length_cons, findAll_cons]
    split
    · rename_i m r hmh
      obtain ⟨q', -, hq'⟩ := matchHere_pre [] d r0 r1 rest m r hd h0 h0' h1 hmh
      simp at hq'
    · exact ⟨[], rfl⟩
  | succ n ih =>
    intro q hq
    cases q with
    | nil => exact ih [] (Nat.zero_le _)
    | cons c cs =>
      rw [List.cons_append, List.length_cons, findAll_cons]
      split
      · rename_i m r hmh
        obtain ⟨q', rfl, hq'⟩ := matchHere_pre (c :: cs) d r0 r1 rest m r hd h0 h0' h1 hmh
        simp only [List.length_cons] at hq' hq
        obtain ⟨ms, hms⟩ := ih q' (by omega)
        refine ⟨m :: ms, ?_⟩
        rw [List.cons_append, ← hms]
        congr 1
        apply findAll_fuel
        · simp only [List.length_append, List.length_cons]; omega
        · exact Nat.le_refl _
      · simp only [List.length_cons] at hq
        exact ih cs (by omega)

/-- `findall` on a text in which a string `v` occurs that (i) is delimited on the left by a
    non-class character or the beginning, (ii) does not start in a way that completes the optional
    prefix, (iii) is matched exactly when the scanner stands at its beginning: `v` is one of the matches -/
theorem findAll_delimited (isDigit : Char → Bool) (pre post : Str) (r0 r1 : Char) (v' : Str)
    (hl : ∀ c, pre.getLast? = some c → inClass c = false)
    (h0 : r0 ≠ '.') (h0' : r0 ≠ '/') (h1 : r1 ≠ '/')
    (hm : matchHere isDigit (r0 :: r1 :: v' ++ post) = some (r0 :: r1 :: v', post)) :
    ∃ ms ms', findAll isDigit (pre ++ (r0 :: r1 :: v') ++ post).length (pre ++ (r0 :: r1 :: v') ++ post) =
      ms ++ (r0 :: r1 :: v') :: ms' := by
  have hv : findAll isDigit (r0 :: r1 :: (v' ++ post)).length (r0 :: r1 :: (v' ++ post)) =
      (r0 :: r1 :: v') :: findAll isDigit (v' ++ post).length post := by
    rw [List.length_cons, findAll_cons]
    simp only [List.cons_append] at hm
    rw [hm]
    dsimp only
    congr 1
    apply findAll_fuel
    · simp; omega
    · simp
  rcases List.eq_nil_or_concat pre with rfl | ⟨q, d, rfl⟩
  · refine ⟨[], findAll isDigit (v' ++ post).length post, ?_⟩
    simp only [List.nil_append, List.cons_append]
    exact hv
  · have hd : inClass d = false := hl d (by simp)
    obtain ⟨ms, hms⟩ := findAll_pre isDigit d r0 r1 (v' ++ post) hd h0 h0' h1 q.length q (Nat.le_refl _)
    refine ⟨ms, findAll isDigit (v' ++ post).length post, ?_⟩
    have e : q.concat d ++ (r0 :: r1 :: v') ++ post = q ++ d :: r0 :: r1 :: (v' ++ post) := by simp
    rw [e, hms, hv]

/-- the loop over a list of matches containing `v`, whose construction succeeds with `o`, returns an
    object equal to `o` -/
theorem collect_complete (ms ms' : List Str) (v : Str) (o : AnyObj) (os : List AnyObj)
    (hres : resultOf v = .ok o) (h : collect [] (ms ++ v :: ms') = some os) :
    ∃ o' ∈ os, o'.eq o = true := by
  obtain ⟨acc', -, h2⟩ := collect_append ms (v :: ms') [] os h
  rw [collect_cons, hres] at h2
  obtain ⟨o', ho', he⟩ := exists_eq_addDedup acc' o
  refine ⟨o', ?_, he⟩
  exact collect_invariant (fun acc => o' ∈ acc) ms'
    (fun _ _ x _ _ hacc => mem_addDedup_of_mem x hacc) _ os ho' h2

/-- at the beginning of a delimited run of at least 26 class characters the pattern matches the run -/
theorem matchHere_plain (isDigit : Char → Bool) (v post : Str) (hv : v.all inClass = true)
    (hlen : 26 ≤ v.length) (hr : ∀ c, post.head? = some c → inClass c = false) :
    matchHere isDigit (v ++ post) = some (v, post) := by
  have hp : matchPrefix isDigit (v ++ post) = none := by
    cases hp : matchPrefix isDigit (v ++ post) with
    | none => rfl
    | some rest0 =>
      exfalso
      obtain ⟨x, hs, -⟩ := matchPrefix_some hp
      have h5 : (v ++ post)[5]? = some '3' := by rw [hs]; rfl
      rw [List.getElem?_append_left (by omega)] at h5
      have hmem := List.mem_of_getElem? h5
      have := List.all_eq_true.1 hv _ hmem
      simp [inClass] at this
  unfold matchHere
  simp only [hp, classRun_all v post hv hr]
  simp [hlen]

/-- at the beginning of `CVSS:3.<digit>/` followed by a delimited run of at least 26 class characters
    the pattern matches prefix and run -/
theorem matchHere_prefixed (isDigit : Char → Bool) (x : Char) (body post : Str)
    (hx : isDigit x = true) (hv : body.all inClass = true) (hlen : 26 ≤ body.length)
    (hr : ∀ c, post.head? = some c → inClass c = false) :
    matchHere isDigit ('C' :: 'V' :: 'S' :: 'S' :: ':' :: '3' :: '.' :: x :: '/' :: body ++ post) =
      some ('C' :: 'V' :: 'S' :: 'S' :: ':' :: '3' :: '.' :: x :: '/' :: body, post) := by
  unfold matchHere
  simp only [List.cons_append, matchPrefix, hx, if_true, classRun_all body post hv hr]
  simp [hlen]

end Cvss.Model.Extract
