/-
  Frame lemmas for the specification functions: the v4.0 score depends on the assignment only through the
  effective values of fifteen metrics; the v2 equations only through the weights `wa`.
-/
import Cvss.Spec.V2
import Cvss.Spec.V3
import Cvss.Spec.V4
namespace Cvss.Lemmas.Frame
open Cvss

/-! ### v4 -/
section V4
open Cvss.Spec.V4

/-- the metrics whose effective value the v4 algorithm reads -/
def eff4 : List Str :=
  [c!"AV", c!"AC", c!"AT", c!"PR", c!"UI", c!"VC", c!"VI", c!"VA", c!"SC", c!"SI", c!"SA", c!"E", c!"CR", c!"IR", c!"AR"]

theorem dominates_congr (a a' : Assignment) (mx : List (Str × Str))
    (h : ∀ p ∈ mx, eff a p.1 = eff a' p.1) : dominates a mx = dominates a' mx := by
  unfold dominates
  induction mx with
  | nil => rfl
  | cons p t ih =>
    obtain ⟨m, v⟩ := p
    have h1 : eff a m = eff a' m := h (m, v) (by simp)
    simp only [List.all_cons, h1, ih (fun p hp => h p (List.mem_cons_of_mem _ hp))]

theorem distFrom_congr (a a' : Assignment) (mx : List (Str × Str))
    (h : ∀ p ∈ mx, eff a p.1 = eff a' p.1) : distFrom a mx = distFrom a' mx := by
  unfold distFrom
  induction mx with
  | nil => rfl
  | cons p t ih =>
    obtain ⟨m, v⟩ := p
    have h1 : eff a m = eff a' m := h (m, v) (by simp)
    simp only [List.map_cons, List.sum_cons, h1, ih (fun p hp => h p (List.mem_cons_of_mem _ hp))]

theorem find?_congr' {α : Type} {p q : α → Bool} (l : List α) (h : ∀ x ∈ l, p x = q x) :
    l.find? p = l.find? q := by
  induction l with
  | nil => rfl
  | cons x t ih =>
    simp only [List.find?_cons, h x (by simp), ih (fun y hy => h y (List.mem_cons_of_mem _ hy))]

theorem distance_congr (a a' : Assignment) (maxes : List (List (Str × Str)))
    (h : ∀ mx ∈ maxes, ∀ p ∈ mx, eff a p.1 = eff a' p.1) : distance a maxes = distance a' maxes := by
  unfold distance
  have hf : maxes.find? (dominates a) = maxes.find? (dominates a') :=
    find?_congr' maxes (fun mx hmx => dominates_congr a a' mx (h mx hmx))
  rw [← hf]
  cases hfm : maxes.find? (dominates a) with
  | none => rfl
  | some mx => exact distFrom_congr a a' mx (h mx (List.mem_of_find?_eq_some hfm))

theorem max1_keys (e : Nat) : ∀ mx ∈ max1 e, ∀ p ∈ mx, p.1 ∈ eff4 := by
  match e with
  | 0 => decide
  | 1 => decide
  | n + 2 => simp only [max1]; decide

theorem max2_keys (e : Nat) : ∀ mx ∈ max2 e, ∀ p ∈ mx, p.1 ∈ eff4 := by
  match e with
  | 0 => decide
  | n + 1 => simp only [max2]; decide

theorem max4_keys (e : Nat) : ∀ mx ∈ max4 e, ∀ p ∈ mx, p.1 ∈ eff4 := by
  match e with
  | 0 => decide
  | 1 => decide
  | n + 2 => simp only [max4]; decide

theorem max36_keys (e f : Nat) : ∀ mx ∈ max36 e f, ∀ p ∈ mx, p.1 ∈ eff4 := by
  match e, f with
  | 0, 0 => decide
  | 0, n + 1 => simp only [max36]; decide
  | 1, 0 => decide
  | 1, n + 1 => simp only [max36]; decide
  | n + 2, f => simp only [max36]; decide

/-- the v4 score depends on the assignment only through the fifteen effective values -/
theorem score_congr (a a' : Assignment) (h : ∀ m ∈ eff4, eff a m = eff a' m) : score a = score a' := by
  have hd : ∀ maxes : List (List (Str × Str)), (∀ mx ∈ maxes, ∀ p ∈ mx, p.1 ∈ eff4) →
      distance a maxes = distance a' maxes :=
    fun maxes hk => distance_congr a a' maxes (fun mx hmx p hp => h _ (hk mx hmx p hp))
  have hmv : macroVector a = macroVector a' := by
    simp only [macroVector, h c!"AV" (by decide), h c!"AC" (by decide), h c!"AT" (by decide),
      h c!"PR" (by decide), h c!"UI" (by decide), h c!"VC" (by decide), h c!"VI" (by decide),
      h c!"VA" (by decide), h c!"SC" (by decide), h c!"SI" (by decide), h c!"SA" (by decide),
      h c!"E" (by decide), h c!"CR" (by decide), h c!"IR" (by decide), h c!"AR" (by decide)]
  have hni : noImpact a = noImpact a' := by
    simp only [noImpact, List.all_cons, List.all_nil, h c!"VC" (by decide), h c!"VI" (by decide),
      h c!"VA" (by decide), h c!"SC" (by decide), h c!"SI" (by decide), h c!"SA" (by decide)]
  have hraw : rawScore a = rawScore a' := by
    simp only [rawScore, hmv, hd _ (max1_keys _), hd _ (max2_keys _), hd _ (max4_keys _),
      hd _ (max36_keys _ _)]
  simp only [score, hni, hraw]

end V4

end Cvss.Lemmas.Frame
