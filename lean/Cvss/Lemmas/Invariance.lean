/-
  Lemmas shared by C05 (independence of field order / Not-Defined spelling) and C15 (sub-vectors):
  `join` of an append, look-up in an append, assignments of permuted / extended maps, the observables
  as functions of the assignment, the v3 sub-vectors, and re-parsing a full listing of the table.
-/
import Cvss.Lemmas.Construct
namespace Cvss.Lemmas.Invariance
open Cvss Cvss.Model Cvss.Props Cvss.Spec.Grammar Cvss.Lemmas.Construct

/-! ### `join` -/

theorem join_append (sep : Char) (l₁ l₂ : List Str) (h₁ : l₁ ≠ []) (h₂ : l₂ ≠ []) :
    join sep (l₁ ++ l₂) = join sep l₁ ++ sep :: join sep l₂ := by
  induction l₁ with
  | nil => exact absurd rfl h₁
  | cons f rest ih =>
    cases rest with
    | nil =>
      cases l₂ with
      | nil => exact absurd rfl h₂
      | cons g gs => rfl
    | cons g gs =>
      have := ih (by simp)
      rw [List.cons_append, List.cons_append, join_cons_cons', join_cons_cons', ← List.cons_append,
        this]
      simp

theorem render_append (m : MMap) (kv : Str × Str) (hne : m ≠ []) :
    join '/' ((m ++ [kv]).map fieldOf) = join '/' (m.map fieldOf) ++ '/' :: fieldOf kv := by
  rw [List.map_append, join_append _ _ _ (by simpa using hne) (by simp)]
  rfl

/-! ### look-up -/

theorem lookup_append_of_some {α β : Type} [DecidableEq α] (k : α) (l₁ l₂ : List (α × β)) (v : β)
    (h : lookup k l₁ = some v) : lookup k (l₁ ++ l₂) = some v := by
  induction l₁ with
  | nil => simp [lookup] at h
  | cons p r ih =>
    obtain ⟨a, b⟩ := p
    by_cases hk : k = a
    · subst hk; simpa [lookup] using h
    · simp only [lookup, if_neg hk, List.cons_append] at h ⊢
      exact ih h

theorem lookup_append_of_none {α β : Type} [DecidableEq α] (k : α) (l₁ l₂ : List (α × β))
    (h : lookup k l₁ = none) : lookup k (l₁ ++ l₂) = lookup k l₂ := by
  induction l₁ with
  | nil => rfl
  | cons p r ih =>
    obtain ⟨a, b⟩ := p
    by_cases hk : k = a
    · subst hk; simp [lookup] at h
    · simp only [lookup, if_neg hk, List.cons_append] at h ⊢
      exact ih h

theorem lookup_tabulate_of_mem (f : Str → Str) (l : List Str) (k : Str) (h : k ∈ l) :
    lookup k (l.map (fun k => (k, f k))) = some (f k) := by
  induction l with
  | nil => simp at h
  | cons a r ih =>
    by_cases hk : k = a
    · subst hk; simp [lookup]
    · have : k ∈ r := by simpa [hk] using h
      simp only [List.map_cons, lookup, if_neg hk]
      exact ih this

theorem keys_tabulate (f : Str → Str) (l : List Str) : keys (l.map (fun k => (k, f k))) = l := by
  induction l with
  | nil => rfl
  | cons a r ih => simp only [keys, List.map_cons] at ih ⊢; rw [ih]

/-! ### assignments -/

theorem assignment_perm (nd : Str) {m m' : MMap} (hp : m.Perm m') (hn : (keys m).Nodup) (k : Str) :
    assignment nd m k = assignment nd m' k := by
  unfold assignment; rw [lookup_perm m m' hp hn k]

theorem assignment_append_nd (nd : Str) (m : MMap) (k : Str) (j : Str) :
    assignment nd m j = assignment nd (m ++ [(k, nd)]) j := by
  unfold assignment
  cases h : lookup j m with
  | some v => rw [lookup_append_of_some _ _ _ _ h]
  | none =>
    rw [lookup_append_of_none _ _ _ h]
    by_cases hj : j = k <;> simp [lookup, hj]

/-- two maps whose keys all lie in `ks` and whose assignments agree on `ks` have the same assignment -/
theorem assignment_ext (nd : Str) (ks : List Str) {m m' : MMap} (hm : ∀ k ∈ keys m, k ∈ ks)
    (hm' : ∀ k ∈ keys m', k ∈ ks) (he : ∀ k ∈ ks, assignment nd m k = assignment nd m' k) :
    assignment nd m = assignment nd m' := by
  funext k
  by_cases hk : k ∈ ks
  · exact he k hk
  · have h1 : lookup k m = none := (lookup_eq_none_iff _ _).2 (fun h => hk (hm k h))
    have h2 : lookup k m' = none := (lookup_eq_none_iff _ _).2 (fun h => hk (hm' k h))
    simp [assignment, h1, h2]

theorem assignment_tabulate (nd : Str) (f : Str → Str) (l : List Str) (hf : ∀ k, k ∉ l → f k = nd) :
    assignment nd (l.map (fun k => (k, f k))) = f := by
  funext k
  unfold assignment
  by_cases hk : k ∈ l
  · rw [lookup_tabulate_of_mem f l k hk]; rfl
  · have : lookup k (l.map (fun k => (k, f k))) = none :=
      (lookup_eq_none_iff _ _).2 (by rw [keys_tabulate]; exact hk)
    rw [this, hf k hk]; rfl

/-- the assignment of the map tabulating `f` over any re-ordering `L` of a list `l`: `f` itself, provided
    `f` is Not Defined off `l` (membership, hence the assignment, does not depend on the order) -/
theorem assignment_tabulate_perm (nd : Str) (f : Str → Str) {L l : List Str} (hperm : L.Perm l)
    (hf : ∀ k, k ∉ l → f k = nd) : assignment nd (L.map (fun k => (k, f k))) = f :=
  assignment_tabulate nd f L (fun k hk => hf k (fun hmem => hk (hperm.mem_iff.2 hmem)))

theorem keys_subset_of_legal {T : Tables} {m : MMap} (hl : ∀ kv ∈ m, LegalPair T kv) :
    ∀ k ∈ keys m, k ∈ T.abbrs := by
  intro k hk
  obtain ⟨kv, hkv, rfl⟩ := List.mem_map.1 hk
  exact (hl kv hkv).1

/-! ### transformations of an accepted map -/

theorem perm_facts {T : Tables} {m m' : MMap} (hp : m.Perm m') (hne : m ≠ [])
    (hl : ∀ kv ∈ m, LegalPair T kv) (hn : (keys m).Nodup) (hm : ∀ k ∈ T.mandatory, k ∈ keys m) :
    m' ≠ [] ∧ (∀ kv ∈ m', LegalPair T kv) ∧ (keys m').Nodup ∧ ∀ k ∈ T.mandatory, k ∈ keys m' := by
  have hk : (keys m).Perm (keys m') := List.Perm.map (fun p : Str × Str => p.1) hp
  refine ⟨?_, ?_, hk.nodup_iff.1 hn, ?_⟩
  · rintro rfl
    exact hne (List.Perm.eq_nil hp)
  · intro kv hkv; exact hl kv (hp.mem_iff.2 hkv)
  · intro k hk'; exact hk.mem_iff.1 (hm k hk')

theorem append_facts {T : Tables} {m : MMap} {kv : Str × Str}
    (hl : ∀ kv ∈ m, LegalPair T kv) (hn : (keys m).Nodup) (hm : ∀ k ∈ T.mandatory, k ∈ keys m)
    (hkv : LegalPair T kv) (habs : lookup kv.1 m = none) :
    m ++ [kv] ≠ [] ∧ (∀ x ∈ m ++ [kv], LegalPair T x) ∧ (keys (m ++ [kv])).Nodup ∧
      ∀ k ∈ T.mandatory, k ∈ keys (m ++ [kv]) := by
  refine ⟨by simp, ?_, ?_, ?_⟩
  · intro x hx
    rcases List.mem_append.1 hx with h | h
    · exact hl x h
    · simp only [List.mem_singleton] at h; subst h; exact hkv
  · rw [keys_append]
    have hk : kv.1 ∉ keys m := (lookup_eq_none_iff _ _).1 habs
    simp only [keys, List.map_cons, List.map_nil]
    rw [List.nodup_append]
    refine ⟨hn, by simp, ?_⟩
    intro a ha b hb
    simp only [List.mem_singleton] at hb
    subst hb
    rintro rfl
    exact hk ha
  · intro k hk
    rw [keys_append]
    exact List.mem_append_left _ (hm k hk)

/-! ### legal pairs from the tables -/

/-- a value listed for a metric of the table makes a legal pair (tokens are ':'-free) -/
theorem legalPair_of_mem {T : Tables} {g : G} (hp : C04.Pinned T g) {k v : Str} {ws : List Str}
    (hk : k ∈ T.abbrs) (hl : lookup k T.legal = some ws) (hv : v ∈ ws) : LegalPair T (k, v) := by
  have hk' : k ∈ keys g.vocab := (C04.pinned_abbrs hp.pinned k).1 hk
  obtain ⟨vs, hvs⟩ := Option.isSome_iff_exists.1 ((lookup_isSome_iff_mem_keys _ _).2 hk')
  obtain ⟨ws', hws', hiff⟩ := C04.pinned_legal hp.pinned hvs
  rw [hl] at hws'
  cases hws'
  obtain ⟨-, hc, hall⟩ := C04.clean_tokens hp.clean (mem_of_lookup_eq_some _ _ _ hvs)
  exact ⟨hk, ⟨ws, hl, hv⟩, hc, (hall v ((hiff v).2 hv)).2⟩

/-- every non-mandatory metric of the table admits the Not Defined token -/
def ndOk (T : Tables) (nd : Str) : Bool :=
  T.abbrs.all (fun m => decide (m ∈ T.mandatory) ||
    match lookup m T.legal with
    | some vs => decide (nd ∈ vs)
    | none => false)

theorem nd_ok : ndOk V2.tables V2.ND = true ∧ ndOk V3.tables V3.X = true ∧ ndOk V4.tables V4.X = true := by
  decide +kernel

theorem nd_legalPair {T : Tables} {g : G} (hp : C04.Pinned T g) {nd : Str} (h : ndOk T nd = true)
    {k : Str} (hk : k ∈ T.abbrs) (hopt : k ∉ T.mandatory) : LegalPair T (k, nd) := by
  have := List.all_eq_true.1 h k hk
  simp only [Bool.or_eq_true, decide_eq_true_eq, hopt, false_or] at this
  split at this
  · rename_i vs hvs
    exact legalPair_of_mem hp hk hvs (of_decide_eq_true this)
  · cases this

/-- the pair a metric contributes to the full listing of an accepted map: stated value or Not Defined -/
theorem assignment_legalPair {T : Tables} {g : G} (hp : C04.Pinned T g) {nd : Str} (h : ndOk T nd = true)
    {m : MMap} (hl : ∀ kv ∈ m, LegalPair T kv) (hm : ∀ k ∈ T.mandatory, k ∈ keys m)
    {k : Str} (hk : k ∈ T.abbrs) : LegalPair T (k, assignment nd m k) := by
  unfold assignment
  cases hlk : lookup k m with
  | some v => exact hl (k, v) (mem_of_lookup_eq_some _ _ _ hlk)
  | none =>
    have : k ∉ T.mandatory := fun hmem => (lookup_eq_none_iff _ _).1 hlk (hm k hmem)
    exact nd_legalPair hp h hk this

/-! ### the clean vector as a function of the assignment -/

theorem v2_cleanOf_congr {m m' : MMap} (h : assignment V2.ND m = assignment V2.ND m') :
    V2.cleanOf m = V2.cleanOf m' := by
  unfold V2.cleanOf
  congr 1
  apply List.filterMap_congr
  intro k _
  have := congrFun h k
  unfold assignment at this
  cases h1 : lookup k m <;> cases h2 : lookup k m' <;> simp_all

theorem v3_cleanOf_congr (minor : Nat) (b : Bool) {m m' : MMap}
    (h : assignment V3.X m = assignment V3.X m') : V3.cleanOf minor m b = V3.cleanOf minor m' b := by
  unfold V3.cleanOf
  congr 2
  apply List.filterMap_congr
  intro k _
  have := congrFun h k
  unfold assignment at this
  cases h1 : lookup k m <;> cases h2 : lookup k m' <;> simp_all

theorem v4_cleanOf_congr (b : Bool) {m m' : MMap}
    (h : assignment V4.X m = assignment V4.X m') : V4.cleanOf m b = V4.cleanOf m' b := by
  unfold V4.cleanOf
  congr 2
  apply List.filterMap_congr
  intro k _
  have := congrFun h k
  unfold assignment at this
  cases h1 : lookup k m <;> cases h2 : lookup k m' <;> simp_all

/-! ### what a successful constructor call means -/

theorem v2_construct_spec {s : Str} {o : V2.Obj} (h : V2.construct s = .ok o) :
    V2.parse s = .ok o.metrics ∧ o.vector = s ∧
      o.base = Spec.V2.baseScore (assignment V2.ND o.metrics) ∧
      o.temporal = Spec.V2.temporalScore (assignment V2.ND o.metrics) ∧
      o.env = Spec.V2.environmentalScore (assignment V2.ND o.metrics) := by
  obtain ⟨m, hp, rfl⟩ := (v2_construct_ok_iff s o).1 h
  exact ⟨hp, rfl, rfl, rfl, rfl⟩

/-- the value v3 shows for a metric after `add_missing_optional` -/
def shownV3 (a : Str → Str) (k : Str) : Str :=
  if k ∈ V3.modifiedMetrics ∧ a k = V3.X then a (k.drop 1) else a k

theorem v3_construct_spec {s : Str} {o : V3.Obj} (h : V3.construct s = .ok o) :
    V3.parse s = .ok (o.minor, o.orig) ∧ o.vector = s ∧
      o.base = Spec.V3.baseScore (assignment V3.X o.orig) ∧
      o.temporal = Spec.V3.temporalScore (assignment V3.X o.orig) ∧
      o.env = Spec.V3.environmentalScore o.minor (assignment V3.X o.orig) ∧
      ∀ k, (lookup k o.metrics).getD V3.X = shownV3 (assignment V3.X o.orig) k := by
  obtain ⟨i, m, hp, hb⟩ := (v3_construct_ok_iff s o).1 h
  obtain ⟨o', ho', h1, h2, h3, h4, h5, h6, h7⟩ := C01.v3_build_eq_spec s i m (validMap3_of_parse hp)
  rw [hb] at ho'
  cases ho'
  refine ⟨by rw [h2, h3]; exact hp, h1, by rw [h4, h3], by rw [h5, h3], by rw [h6, h2, h3], ?_⟩
  intro k
  rw [h7 k, h3]
  unfold shownV3
  split <;> rfl

theorem v3_construct_of_parse {s : Str} {i : Nat} {m : MMap} (hp : V3.parse s = .ok (i, m)) :
    ∃ o, V3.construct s = .ok o ∧ o.minor = i ∧ o.orig = m := by
  obtain ⟨o, ho, -, h2, h3, -⟩ := C01.v3_build_eq_spec s i m (validMap3_of_parse hp)
  exact ⟨o, (v3_construct_ok_iff s o).2 ⟨i, m, hp, ho⟩, h2, h3⟩

theorem v2_construct_of_parse {s : Str} {m : MMap} (hp : V2.parse s = .ok m) :
    ∃ o, V2.construct s = .ok o ∧ o.metrics = m :=
  ⟨_, (v2_construct_ok_iff s _).2 ⟨m, hp, rfl⟩, rfl⟩

/-- the accepted v3 prefixes are the prefixes `clean_vector` writes for the minor versions 0 and 1 -/
theorem v3_prefix_eq {i : Nat} {p : Str} (h : V3.prefixes[i]? = some p) : p = V3.versionPrefix i := by
  rcases i with _ | _ | i
  · simp [V3.prefixes] at h; subst h; decide
  · simp [V3.prefixes] at h; subst h; decide
  · simp [V3.prefixes] at h

/-! ### sub-vectors -/

theorem v2_subvectors (o : V2.Obj) :
    o.temporalVector = join '/' (Gen.V2.temporal.map (fun k => fieldOf (k, assignment V2.ND o.metrics k))) ∧
    o.environmentalVector = join '/' (Gen.V2.environmental.map (fun k => fieldOf (k, assignment V2.ND o.metrics k))) :=
  ⟨rfl, rfl⟩

theorem v3_subvectors {s : Str} {o : V3.Obj} (h : V3.construct s = .ok o) :
    o.temporalVector = join '/' (Gen.V3.temporal.map (fun k => fieldOf (k, shownV3 (assignment V3.X o.orig) k))) ∧
    o.environmentalVector =
      join '/' (Gen.V3.environmental.map (fun k => fieldOf (k, shownV3 (assignment V3.X o.orig) k))) := by
  obtain ⟨-, -, -, -, -, hk⟩ := v3_construct_spec h
  unfold V3.Obj.temporalVector V3.Obj.environmentalVector
  simp only [hk]
  exact ⟨rfl, rfl⟩

/-! ### the full listing of the table: one field per metric -/

theorem join3 (sep : Char) (a b c : List Str) (ha : a ≠ []) (hb : b ≠ []) (hc : c ≠ []) :
    join sep a ++ sep :: join sep b ++ sep :: join sep c = join sep (a ++ b ++ c) := by
  rw [join_append sep (a ++ b) c (by simp [ha]) hc, join_append sep a b ha hb]

/-- the table has distinct metrics -/
theorem abbrs_nodup {T : Tables} {g : G} (hp : C04.Pinned T g) : T.abbrs.Nodup :=
  C04.pinned_nodup hp.pinned

/-- listing every metric of a re-ordering `L` of the table (any list with `L.Perm T.abbrs`), each with a
    legal value, gives a non-empty, legal, '/'-free, key-distinct map covering the mandatory metrics, so it
    parses back (`vN_parse_render` accepts the pairs in any order) -/
theorem tabulate_facts_perm {T : Tables} {g : G} (hp : C04.Pinned T g) (f : Str → Str) {L : List Str}
    (hperm : L.Perm T.abbrs) (hne : T.abbrs ≠ [])
    (hsub : ∀ k ∈ T.mandatory, k ∈ T.abbrs) (hleg : ∀ k ∈ T.abbrs, LegalPair T (k, f k)) :
    L.map (fun k => (k, f k)) ≠ [] ∧
      (∀ kv ∈ L.map (fun k => (k, f k)), LegalPair T kv) ∧
      (∀ kv ∈ L.map (fun k => (k, f k)), '/' ∉ kv.1 ∧ '/' ∉ kv.2) ∧
      (keys (L.map (fun k => (k, f k)))).Nodup ∧
      ∀ k ∈ T.mandatory, k ∈ keys (L.map (fun k => (k, f k))) := by
  have hl : ∀ kv ∈ L.map (fun k => (k, f k)), LegalPair T kv := by
    intro kv hkv
    obtain ⟨k, hk, rfl⟩ := List.mem_map.1 hkv
    exact hleg k (hperm.mem_iff.1 hk)
  refine ⟨?_, hl, fun kv hkv => hp.slashFree (hl kv hkv), ?_, ?_⟩
  · intro h
    have hL : L = [] := by simpa using h
    subst hL
    exact hne hperm.symm.eq_nil
  · rw [keys_tabulate]; exact hperm.nodup_iff.2 (abbrs_nodup hp)
  · rw [keys_tabulate]; exact fun k hk => hperm.mem_iff.2 (hsub k hk)

/-- listing every metric of the table, in table order, with a legal value gives a map that parses back -/
theorem tabulate_facts {T : Tables} {g : G} (hp : C04.Pinned T g) (f : Str → Str) (hne : T.abbrs ≠ [])
    (hsub : ∀ k ∈ T.mandatory, k ∈ T.abbrs) (hleg : ∀ k ∈ T.abbrs, LegalPair T (k, f k)) :
    T.abbrs.map (fun k => (k, f k)) ≠ [] ∧
      (∀ kv ∈ T.abbrs.map (fun k => (k, f k)), LegalPair T kv) ∧
      (∀ kv ∈ T.abbrs.map (fun k => (k, f k)), '/' ∉ kv.1 ∧ '/' ∉ kv.2) ∧
      (keys (T.abbrs.map (fun k => (k, f k)))).Nodup ∧
      ∀ k ∈ T.mandatory, k ∈ keys (T.abbrs.map (fun k => (k, f k))) :=
  tabulate_facts_perm hp f (List.Perm.refl _) hne hsub hleg

theorem map_fieldOf_tabulate (f : Str → Str) (l : List Str) :
    (l.map (fun k => (k, f k))).map fieldOf = l.map (fun k => fieldOf (k, f k)) := by
  rw [List.map_map]; rfl

/-! ### v3: showing a Modified metric with its base value does not change the scores -/

theorem shownV3_plain (a : Str → Str) {k : Str} (h : k ∉ V3.modifiedMetrics) : shownV3 a k = a k := by
  unfold shownV3; rw [if_neg (fun hh => h hh.1)]

theorem eff_shownV3 (a : Str → Str) {k b : Str} (hk : k ∈ V3.modifiedMetrics) (hb : k.drop 1 = b)
    (hb' : b ∉ V3.modifiedMetrics) : Spec.V3.eff (shownV3 a) k b = Spec.V3.eff a k b := by
  unfold Spec.V3.eff
  rw [shownV3_plain a hb', C01.X_eq]
  have hs : shownV3 a k = if a k = V3.X then a b else a k := by
    unfold shownV3
    by_cases h : a k = V3.X
    · rw [if_pos ⟨hk, h⟩, if_pos h, hb]
    · rw [if_neg (fun hh => h hh.2), if_neg h]
  rw [hs]
  by_cases h : a k = V3.X
  · rw [if_pos h]; split <;> rfl
  · rw [if_neg h, if_neg h]

theorem spec_base_shownV3 (a : Str → Str) : Spec.V3.baseScore (shownV3 a) = Spec.V3.baseScore a := by
  unfold Spec.V3.baseScore
  simp only [shownV3_plain a (k := c!"C") (by decide), shownV3_plain a (k := c!"I") (by decide),
    shownV3_plain a (k := c!"A") (by decide), shownV3_plain a (k := c!"S") (by decide),
    shownV3_plain a (k := c!"AV") (by decide), shownV3_plain a (k := c!"AC") (by decide),
    shownV3_plain a (k := c!"PR") (by decide), shownV3_plain a (k := c!"UI") (by decide)]

theorem spec_tf_shownV3 (a : Str → Str) : Spec.V3.temporalFactor (shownV3 a) = Spec.V3.temporalFactor a := by
  unfold Spec.V3.temporalFactor
  simp only [shownV3_plain a (k := c!"E") (by decide), shownV3_plain a (k := c!"RL") (by decide),
    shownV3_plain a (k := c!"RC") (by decide)]

theorem spec_temporal_shownV3 (a : Str → Str) :
    Spec.V3.temporalScore (shownV3 a) = Spec.V3.temporalScore a := by
  unfold Spec.V3.temporalScore
  rw [spec_base_shownV3, spec_tf_shownV3]

theorem spec_env_shownV3 (minor : Nat) (a : Str → Str) :
    Spec.V3.environmentalScore minor (shownV3 a) = Spec.V3.environmentalScore minor a := by
  unfold Spec.V3.environmentalScore
  simp only [spec_tf_shownV3,
    eff_shownV3 a (k := c!"MC") (b := c!"C") (by decide) (by decide) (by decide),
    eff_shownV3 a (k := c!"MI") (b := c!"I") (by decide) (by decide) (by decide),
    eff_shownV3 a (k := c!"MA") (b := c!"A") (by decide) (by decide) (by decide),
    eff_shownV3 a (k := c!"MS") (b := c!"S") (by decide) (by decide) (by decide),
    eff_shownV3 a (k := c!"MAV") (b := c!"AV") (by decide) (by decide) (by decide),
    eff_shownV3 a (k := c!"MAC") (b := c!"AC") (by decide) (by decide) (by decide),
    eff_shownV3 a (k := c!"MPR") (b := c!"PR") (by decide) (by decide) (by decide),
    eff_shownV3 a (k := c!"MUI") (b := c!"UI") (by decide) (by decide) (by decide),
    shownV3_plain a (k := c!"CR") (by decide), shownV3_plain a (k := c!"IR") (by decide),
    shownV3_plain a (k := c!"AR") (by decide)]

/-- the value shown for a table metric of an accepted v3 map is a legal value of that metric -/
theorem shownV3_legalPair {m : MMap} (hl : ∀ kv ∈ m, LegalPair V3.tables kv)
    (hm : ∀ k ∈ V3.tables.mandatory, k ∈ keys m) {k : Str} (hk : k ∈ V3.tables.abbrs) :
    LegalPair V3.tables (k, shownV3 (assignment V3.X m) k) := by
  unfold shownV3
  split
  · rename_i h
    have hb := C01.modified_base_mandatory k h.1
    obtain ⟨v, hv⟩ := Option.isSome_iff_exists.1 ((lookup_isSome_iff_mem_keys _ _).2 (hm _ hb))
    obtain ⟨-, ⟨vs, hvs, hmem⟩, -, -⟩ := hl _ (mem_of_lookup_eq_some _ _ _ hv)
    have hfact := (C01.mod_legal_fact k h.1 v (by simp only at hvs; rw [hvs]; exact hmem)).1
    unfold C01.legalTok at hfact
    have e : assignment V3.X m (k.drop 1) = v := by
      show (lookup (k.drop 1) m).getD V3.X = v
      rw [hv]; rfl
    rw [e]
    cases hlk : lookup k V3.tables.legal with
    | none => rw [hlk] at hfact; simp at hfact
    | some ws =>
      rw [hlk] at hfact
      exact legalPair_of_mem C04.pinned3 hk hlk hfact
  · exact assignment_legalPair C04.pinned3 nd_ok.2.1 hl hm hk

end Cvss.Lemmas.Invariance
