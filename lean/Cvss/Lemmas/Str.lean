/-
  Lemmas about the string vocabulary of `Cvss/Basic.lean`.
-/
import Cvss.Basic
namespace Cvss

/-! ### `splitOn` / `join` -/

theorem splitOn_nil (sep : Char) : splitOn sep [] = [[]] := rfl

theorem splitOn_cons_sep (sep : Char) (cs : Str) : splitOn sep (sep :: cs) = [] :: splitOn sep cs := by
  simp [splitOn, splitAux]

theorem splitOn_cons_ne (sep c : Char) (cs : Str) (h : c ≠ sep) :
    splitOn sep (c :: cs) = (c :: (splitAux sep cs).1) :: (splitAux sep cs).2 := by
  simp [splitOn, splitAux, h]

theorem splitOn_ne_nil (sep : Char) (s : Str) : splitOn sep s ≠ [] := by
  simp [splitOn]

theorem splitAux_not_mem (sep : Char) (s : Str) :
    sep ∉ (splitAux sep s).1 ∧ ∀ f ∈ (splitAux sep s).2, sep ∉ f := by
  induction s with
  | nil => simp [splitAux]
  | cons c cs ih =>
    obtain ⟨ih1, ih2⟩ := ih
    by_cases hc : c = sep
    · subst hc
      simp only [splitAux, if_true]
      refine ⟨by simp, ?_⟩
      intro f hf
      rcases List.mem_cons.1 hf with rfl | hf
      · exact ih1
      · exact ih2 f hf
    · simp only [splitAux, if_neg hc]
      refine ⟨?_, ih2⟩
      intro hmem
      rcases List.mem_cons.1 hmem with h | h
      · exact hc h.symm
      · exact ih1 h

/-- no field produced by `split` contains the separator -/
theorem not_mem_of_mem_splitOn (sep : Char) (s : Str) : ∀ f ∈ splitOn sep s, sep ∉ f := by
  intro f hf
  have h := splitAux_not_mem sep s
  rcases List.mem_cons.1 hf with rfl | hf
  · exact h.1
  · exact h.2 f hf

theorem join_cons_cons (sep c : Char) (a : Str) (rest : List Str) :
    join sep ((c :: a) :: rest) = c :: join sep (a :: rest) := by
  cases rest <;> simp [join]

theorem join_cons_cons' (sep : Char) (f g : Str) (fs : List Str) :
    join sep (f :: g :: fs) = f ++ sep :: join sep (g :: fs) := rfl

theorem join_singleton (sep : Char) (f : Str) : join sep [f] = f := rfl

theorem join_splitOn (sep : Char) (s : Str) : join sep (splitOn sep s) = s := by
  induction s with
  | nil => rfl
  | cons c cs ih =>
    by_cases hc : c = sep
    · subst hc
      rw [splitOn_cons_sep]
      unfold splitOn at ih ⊢
      rw [join_cons_cons', ih]; rfl
    · rw [splitOn_cons_ne _ _ _ hc, join_cons_cons]
      unfold splitOn at ih
      rw [ih]

/-- a separator-free string is a single field -/
theorem splitOn_of_not_mem (sep : Char) (a : Str) (h : sep ∉ a) : splitOn sep a = [a] := by
  induction a with
  | nil => rfl
  | cons c cs ih =>
    have hc : c ≠ sep := fun e => h (by simp [e])
    have hcs : sep ∉ cs := fun e => h (List.mem_cons_of_mem _ e)
    have := ih hcs
    rw [splitOn_cons_ne _ _ _ hc]
    unfold splitOn at this
    simp only [List.cons.injEq] at this
    rw [this.1, this.2]

/-- splitting after a separator-free head -/
theorem splitOn_append_sep (sep : Char) (a rest : Str) (h : sep ∉ a) :
    splitOn sep (a ++ sep :: rest) = a :: splitOn sep rest := by
  induction a with
  | nil => exact splitOn_cons_sep sep rest
  | cons c cs ih =>
    have hc : c ≠ sep := fun e => h (by simp [e])
    have hcs : sep ∉ cs := fun e => h (List.mem_cons_of_mem _ e)
    have := ih hcs
    rw [List.cons_append, splitOn_cons_ne _ _ _ hc]
    unfold splitOn at this
    simp only [List.cons.injEq] at this
    rw [this.1, this.2]; rfl

theorem splitOn_join (sep : Char) (fs : List Str) (hne : fs ≠ []) (h : ∀ f ∈ fs, sep ∉ f) :
    splitOn sep (join sep fs) = fs := by
  induction fs with
  | nil => exact absurd rfl hne
  | cons f rest ih =>
    cases rest with
    | nil => exact splitOn_of_not_mem sep f (h f (by simp))
    | cons g gs =>
      rw [join_cons_cons', splitOn_append_sep sep f _ (h f (by simp)),
        ih (by simp) (fun x hx => h x (List.mem_cons_of_mem _ hx))]

/-! ### association lists -/

theorem lookup_insert {α β : Type} [DecidableEq α] (k a : α) (v : β) (l : List (α × β)) :
    lookup k (insert a v l) = if k = a then some v else lookup k l := by
  induction l with
  | nil => simp [insert, lookup]
  | cons p r ih =>
    obtain ⟨a', b'⟩ := p
    by_cases h : a = a'
    · subst h
      simp only [insert, if_true, lookup]
      by_cases hk : k = a <;> simp [hk]
    · simp only [insert, if_neg h, lookup, ih]
      by_cases hk : k = a
      · subst hk; simp [h]
      · simp [hk]

theorem mem_of_lookup_eq_some {α β : Type} [DecidableEq α] (l : List (α × β)) (k : α) (v : β)
    (h : lookup k l = some v) : (k, v) ∈ l := by
  induction l with
  | nil => simp [lookup] at h
  | cons p r ih =>
    obtain ⟨a, b⟩ := p
    by_cases hk : k = a
    · subst hk
      simp [lookup] at h
      subst h; simp
    · simp only [lookup, if_neg hk] at h
      exact List.mem_cons_of_mem _ (ih h)

theorem mem_keys_of_mem {α β : Type} {l : List (α × β)} {k : α} {v : β} (h : (k, v) ∈ l) :
    k ∈ keys l := List.mem_map.2 ⟨(k, v), h, rfl⟩

theorem lookup_eq_some_of_mem {α β : Type} [DecidableEq α] (l : List (α × β)) (hn : (keys l).Nodup)
    (k : α) (v : β) (h : (k, v) ∈ l) : lookup k l = some v := by
  induction l with
  | nil => simp at h
  | cons p r ih =>
    obtain ⟨a, b⟩ := p
    simp only [keys, List.map_cons, List.nodup_cons] at hn
    rcases List.mem_cons.1 h with heq | hmem
    · cases heq; simp [lookup]
    · have hk : k ≠ a := by
        intro e; subst e
        exact hn.1 (mem_keys_of_mem hmem)
      simp only [lookup, if_neg hk]
      exact ih hn.2 hmem

theorem lookup_eq_some_iff {α β : Type} [DecidableEq α] (l : List (α × β)) (hn : (keys l).Nodup)
    (k : α) (v : β) : lookup k l = some v ↔ (k, v) ∈ l :=
  ⟨mem_of_lookup_eq_some l k v, lookup_eq_some_of_mem l hn k v⟩

/-- look-up in an association list with distinct keys is invariant under permutation -/
theorem lookup_perm {α β : Type} [DecidableEq α] (l₁ l₂ : List (α × β)) (hp : l₁.Perm l₂)
    (hn : (keys l₁).Nodup) (k : α) : lookup k l₁ = lookup k l₂ := by
  have hn₂ : (keys l₂).Nodup := (List.Perm.map (fun p : α × β => p.1) hp).nodup_iff.1 hn
  apply Option.ext
  intro v
  rw [lookup_eq_some_iff l₁ hn, lookup_eq_some_iff l₂ hn₂]
  exact hp.mem_iff

/-! ### more look-up facts -/

theorem lookup_isSome_iff_mem_keys {α β : Type} [DecidableEq α] (l : List (α × β)) (k : α) :
    (lookup k l).isSome = true ↔ k ∈ keys l := by
  induction l with
  | nil => simp [lookup, keys]
  | cons p r ih =>
    obtain ⟨a, b⟩ := p
    by_cases hk : k = a
    · subst hk; simp [lookup, keys]
    · have : k ∈ keys ((a, b) :: r) ↔ k ∈ keys r := by simp [keys, hk]
      rw [this, ← ih]; simp [lookup, hk]

theorem hasKey_iff_mem_keys {α β : Type} [DecidableEq α] (l : List (α × β)) (k : α) :
    hasKey k l = true ↔ k ∈ keys l := lookup_isSome_iff_mem_keys l k

theorem lookup_eq_none_iff {α β : Type} [DecidableEq α] (l : List (α × β)) (k : α) :
    lookup k l = none ↔ k ∉ keys l := by
  rw [← lookup_isSome_iff_mem_keys]
  cases lookup k l <;> simp

theorem keys_append {α β : Type} (l₁ l₂ : List (α × β)) : keys (l₁ ++ l₂) = keys l₁ ++ keys l₂ := by
  simp [keys]


/-! ### further facts on `splitOn`, `endsWithChar`, `startsWith` -/

theorem splitOn_eq_pair_iff (sep : Char) (f m v : Str) :
    splitOn sep f = [m, v] ↔ f = m ++ sep :: v ∧ sep ∉ m ∧ sep ∉ v := by
  constructor
  · intro h
    have hj := join_splitOn sep f
    have hn := not_mem_of_mem_splitOn sep f
    rw [h] at hj hn
    refine ⟨hj.symm, hn m (by simp), hn v (by simp)⟩
  · rintro ⟨rfl, hm, hv⟩
    rw [splitOn_append_sep sep m v hm, splitOn_of_not_mem sep v hv]

theorem splitOn_append_singleton (sep : Char) (a : Str) :
    splitOn sep (a ++ [sep]) = splitOn sep a ++ [[]] := by
  induction a with
  | nil => simp [splitOn, splitAux]
  | cons c cs ih =>
    by_cases hc : c = sep
    · subst hc
      rw [List.cons_append, splitOn_cons_sep, splitOn_cons_sep, ih]; rfl
    · rw [List.cons_append, splitOn_cons_ne _ _ _ hc, splitOn_cons_ne _ _ _ hc]
      unfold splitOn at ih
      simp only [List.cons_append, List.cons.injEq] at ih
      rw [ih.1, ih.2]; rfl

theorem endsWithChar_iff (c : Char) (s : Str) : endsWithChar c s = true ↔ ∃ s', s = s' ++ [c] := by
  unfold endsWithChar
  constructor
  · intro h
    split at h
    · rename_i d hd
      have hd' : d = c := by simpa using h
      subst hd'
      rcases List.getLast?_eq_some_iff.1 hd with ⟨ys, rfl⟩
      exact ⟨ys, rfl⟩
    · cases h
  · rintro ⟨s', rfl⟩
    simp

theorem join_ne_nil (sep : Char) (fs : List Str) (h : ∃ f ∈ fs, f ≠ []) : join sep fs ≠ [] := by
  induction fs with
  | nil => obtain ⟨f, hf, _⟩ := h; simp at hf
  | cons f rest ih =>
    cases rest with
    | nil =>
      obtain ⟨f', hf', hne⟩ := h
      simp at hf'; subst hf'; exact hne
    | cons g gs => rw [join_cons_cons']; simp

/-- joining separator-free, non-empty fields never ends in the separator -/
theorem endsWithChar_join (sep : Char) (fs : List Str) (hne : fs ≠ []) (h : ∀ f ∈ fs, sep ∉ f)
    (he : ∀ f ∈ fs, f ≠ []) : endsWithChar sep (join sep fs) = false := by
  cases hb : endsWithChar sep (join sep fs) with
  | false => rfl
  | true =>
    exfalso
    obtain ⟨s', hs'⟩ := (endsWithChar_iff _ _).1 hb
    have := splitOn_join sep fs hne h
    rw [hs', splitOn_append_singleton] at this
    exact he [] (by rw [← this]; simp) rfl

theorem endsWithChar_append (c : Char) (p s : Str) (hs : s ≠ []) :
    endsWithChar c (p ++ s) = endsWithChar c s := by
  unfold endsWithChar
  rw [List.getLast?_append]
  cases h : s.getLast? with
  | none => simp at h; exact absurd h hs
  | some d => simp

theorem startsWith_iff (p s : Str) : startsWith p s = true ↔ ∃ r, s = p ++ r := by
  unfold startsWith
  rw [List.isPrefixOf_iff_prefix]
  constructor
  · rintro ⟨r, rfl⟩; exact ⟨r, rfl⟩
  · rintro ⟨r, rfl⟩; exact ⟨r, rfl⟩

end Cvss
