/-
  Injectivity of the rendering `m ↦ join '/' (m.map fieldOf)` on separator-free pairs (used by C07).
-/
import Cvss.Lemmas.Parse
namespace Cvss.Model
open Cvss

/-- neither part of any pair contains ':' -/
def ColonFree (m : MMap) : Prop := ∀ kv ∈ m, ':' ∉ kv.1 ∧ ':' ∉ kv.2

theorem fieldOf_inj {a b : Str × Str} (ha : ':' ∉ a.1 ∧ ':' ∉ a.2) (hb : ':' ∉ b.1 ∧ ':' ∉ b.2)
    (h : fieldOf a = fieldOf b) : a = b := by
  obtain ⟨a1, a2⟩ := a
  obtain ⟨b1, b2⟩ := b
  have h1 : splitOn ':' (fieldOf (a1, a2)) = [a1, a2] :=
    (splitOn_eq_pair_iff _ _ _ _).2 ⟨rfl, ha.1, ha.2⟩
  have h2 : splitOn ':' (fieldOf (b1, b2)) = [b1, b2] :=
    (splitOn_eq_pair_iff _ _ _ _).2 ⟨rfl, hb.1, hb.2⟩
  rw [h, h2] at h1
  simp only [List.cons.injEq, and_true] at h1
  rw [h1.1, h1.2]

theorem map_fieldOf_inj (l₁ l₂ : MMap) (c1 : ColonFree l₁) (c2 : ColonFree l₂)
    (h : l₁.map fieldOf = l₂.map fieldOf) : l₁ = l₂ := by
  induction l₁ generalizing l₂ with
  | nil =>
    cases l₂ with
    | nil => rfl
    | cons b r => simp at h
  | cons a r ih =>
    cases l₂ with
    | nil => simp at h
    | cons b r' =>
      simp only [List.map_cons, List.cons.injEq] at h
      have hab : a = b := fieldOf_inj (c1 a (by simp)) (c2 b (by simp)) h.1
      have hr : r = r' := ih r' (fun kv hkv => c1 kv (List.mem_cons_of_mem _ hkv))
        (fun kv hkv => c2 kv (List.mem_cons_of_mem _ hkv)) h.2
      rw [hab, hr]

/-- the rendering of a non-empty list of separator-free pairs determines the list -/
theorem render_inj (l₁ l₂ : MMap) (h1 : l₁ ≠ []) (h2 : l₂ ≠ []) (s1 : SlashFree l₁) (s2 : SlashFree l₂)
    (c1 : ColonFree l₁) (c2 : ColonFree l₂)
    (h : join '/' (l₁.map fieldOf) = join '/' (l₂.map fieldOf)) : l₁ = l₂ := by
  obtain ⟨a1, a2, -⟩ := render_facts l₁ h1 s1
  obtain ⟨b1, b2, -⟩ := render_facts l₂ h2 s2
  have := congrArg (splitOn '/') h
  rw [splitOn_join _ _ a1 a2, splitOn_join _ _ b1 b2] at this
  exact map_fieldOf_inj l₁ l₂ c1 c2 this

end Cvss.Model
