/-
  Lemmas about the JSON model (`Cvss/Model/Json.lean`): the order `strLt`, insertion sort,
  repeated dict assignment and `addMetrics`.
-/
import Cvss.Model.Json
import Cvss.Lemmas.Str
namespace Cvss.Model
open Cvss

/-! ### `strLt` is a strict order -/

theorem strLt_cons_cons (a b : Char) (as bs : Str) :
    strLt (a :: as) (b :: bs) = true ↔ a.toNat < b.toNat ∨ (a.toNat = b.toNat ∧ strLt as bs = true) := by
  simp only [strLt]
  by_cases h1 : a.toNat < b.toNat
  · simp [h1]
  · by_cases h2 : b.toNat < a.toNat
    · simp only [if_neg h1, if_pos h2]
      constructor
      · intro h; cases h
      · rintro (h | ⟨h, _⟩) <;> omega
    · simp only [if_neg h1, if_neg h2]
      constructor
      · intro h; exact Or.inr ⟨by omega, h⟩
      · rintro (h | ⟨_, h⟩)
        · omega
        · exact h

theorem strLt_irrefl (a : Str) : strLt a a = false := by
  induction a with
  | nil => rfl
  | cons c cs ih => simp [strLt, ih]

theorem strLt_trans : ∀ (a b c : Str), strLt a b = true → strLt b c = true → strLt a c = true
  | [], [], _, h, _ => by simp [strLt] at h
  | [], _ :: _, [], _, h => by simp [strLt] at h
  | [], _ :: _, _ :: _, _, _ => by simp [strLt]
  | _ :: _, [], _, h, _ => by simp [strLt] at h
  | _ :: _, _ :: _, [], _, h => by simp [strLt] at h
  | a :: as, b :: bs, c :: cs, h1, h2 => by
    rw [strLt_cons_cons] at h1 h2 ⊢
    rcases h1 with h1 | ⟨h1, h1'⟩ <;> rcases h2 with h2 | ⟨h2, h2'⟩
    · left; omega
    · left; omega
    · left; omega
    · right; exact ⟨by omega, strLt_trans as bs cs h1' h2'⟩

theorem strLt_asymm (a b : Str) (h : strLt a b = true) : strLt b a = false := by
  cases hb : strLt b a with
  | false => rfl
  | true =>
    have := strLt_trans a b a h hb
    rw [strLt_irrefl] at this
    cases this

/-! ### insertion sort -/

theorem insertSorted_perm (kv : Str × JVal) (l : JObj) : (insertSorted kv l).Perm (kv :: l) := by
  induction l with
  | nil => simp [insertSorted]
  | cons x xs ih =>
    simp only [insertSorted]
    split
    · exact List.Perm.refl _
    · exact (List.Perm.cons x ih).trans (List.Perm.swap kv x xs)

theorem foldl_insertSorted_perm (o acc : JObj) :
    (o.foldl (fun acc kv => insertSorted kv acc) acc).Perm (acc ++ o) := by
  induction o generalizing acc with
  | nil => simp
  | cons x xs ih =>
    simp only [List.foldl_cons]
    refine (ih _).trans ?_
    refine ((insertSorted_perm x acc).append_right xs).trans ?_
    simp only [List.cons_append]
    exact List.perm_middle.symm

theorem insertSorted_sorted (kv : Str × JVal) (l : JObj)
    (h : l.Pairwise (fun a b => strLt b.1 a.1 = false)) :
    (insertSorted kv l).Pairwise (fun a b => strLt b.1 a.1 = false) := by
  induction l with
  | nil => simp [insertSorted]
  | cons x xs ih =>
    rw [List.pairwise_cons] at h
    simp only [insertSorted]
    split
    · rename_i hlt
      rw [List.pairwise_cons]
      refine ⟨?_, List.pairwise_cons.2 h⟩
      intro y hy
      rcases List.mem_cons.1 hy with rfl | hy
      · exact strLt_asymm _ _ hlt
      · cases hyk : strLt y.1 kv.1 with
        | false => rfl
        | true =>
          have := strLt_trans _ _ _ hyk hlt
          rw [h.1 y hy] at this
          cases this
    · rename_i hlt
      rw [List.pairwise_cons]
      refine ⟨?_, ih h.2⟩
      intro y hy
      rcases List.mem_cons.1 ((insertSorted_perm kv xs).mem_iff.1 hy) with rfl | hy
      · simpa using hlt
      · exact h.1 y hy

theorem foldl_insertSorted_sorted (o acc : JObj)
    (h : acc.Pairwise (fun a b => strLt b.1 a.1 = false)) :
    (o.foldl (fun acc kv => insertSorted kv acc) acc).Pairwise (fun a b => strLt b.1 a.1 = false) := by
  induction o generalizing acc with
  | nil => simpa using h
  | cons x xs ih =>
    simp only [List.foldl_cons]
    exact ih _ (insertSorted_sorted x acc h)

/-! ### repeated dict assignment -/

/-- `for (k, v) in L: d[k] = v` -/
def insertMany (d L : JObj) : JObj := L.foldl (fun acc kv => insert kv.1 kv.2 acc) d

theorem insertMany_nil (d : JObj) : insertMany d [] = d := rfl

theorem insertMany_cons (d : JObj) (kv : Str × JVal) (L : JObj) :
    insertMany d (kv :: L) = insertMany (insert kv.1 kv.2 d) L := rfl

theorem insertMany_append (d L₁ L₂ : JObj) :
    insertMany d (L₁ ++ L₂) = insertMany (insertMany d L₁) L₂ := by
  simp [insertMany, List.foldl_append]

theorem insert_eq_insertMany (k : Str) (v : JVal) (d : JObj) : insert k v d = insertMany d [(k, v)] := rfl

theorem insert_of_not_mem {α β : Type} [DecidableEq α] (k : α) (v : β) (l : List (α × β))
    (h : k ∉ keys l) : insert k v l = l ++ [(k, v)] := by
  induction l with
  | nil => rfl
  | cons p r ih =>
    obtain ⟨a, b⟩ := p
    simp only [keys, List.map_cons, List.mem_cons, not_or] at h
    simp only [insert, if_neg h.1, List.cons_append]
    rw [ih h.2]

/-- all assigned keys fresh and distinct: the assignments just append -/
theorem insertMany_of_nodup (d L : JObj) (h : (keys (d ++ L)).Nodup) : insertMany d L = d ++ L := by
  induction L generalizing d with
  | nil => simp [insertMany]
  | cons kv L ih =>
    obtain ⟨k, v⟩ := kv
    have hk : k ∉ keys d := by
      intro hm
      rw [keys_append, List.nodup_append] at h
      exact h.2.2 k hm k (by simp [keys]) rfl
    rw [insertMany_cons, insert_of_not_mem k v d hk, ih]
    · simp
    · simpa using h

/-! ### `addMetrics` -/

/-- the items `addMetrics` assigns, in order -/
def entries (jk : List (Str × Str)) (descr : Str → Option Str) (usf : Str → Str) (ms : List Str) : JObj :=
  ms.filterMap (fun m =>
    match lookup m jk, descr m with
    | some k, some d => some (k, JVal.str (usf d))
    | _, _ => none)

theorem addMetrics_some (jk : List (Str × Str)) (descr : Str → Option Str) (usf : Str → Str)
    (data data' : JObj) (ms : List Str) (h : addMetrics jk descr usf data ms = some data') :
    data' = insertMany data (entries jk descr usf ms) ∧
    ∀ m ∈ ms, ∃ k d, lookup m jk = some k ∧ descr m = some d ∧
      (k, JVal.str (usf d)) ∈ entries jk descr usf ms := by
  induction ms generalizing data with
  | nil =>
    simp only [addMetrics, Option.some.injEq] at h
    subst h
    simp [entries, insertMany]
  | cons m rest ih =>
    unfold addMetrics at h
    cases hk : lookup m jk with
    | none => simp [hk] at h
    | some k =>
      cases hd : descr m with
      | none => simp [hk, hd] at h
      | some d =>
        simp only [hk, hd] at h
        obtain ⟨h1, h2⟩ := ih _ h
        have he : entries jk descr usf (m :: rest) = (k, JVal.str (usf d)) :: entries jk descr usf rest := by
          simp [entries, hk, hd]
        refine ⟨?_, ?_⟩
        · rw [he, insertMany_cons]; exact h1
        · intro m' hm'
          rcases List.mem_cons.1 hm' with rfl | hm'
          · exact ⟨k, d, hk, hd, by rw [he]; simp⟩
          · obtain ⟨k', d', a, b, c⟩ := h2 m' hm'
            exact ⟨k', d', a, b, by rw [he]; exact List.mem_cons_of_mem _ c⟩

theorem keys_entries_sublist (jk : List (Str × Str)) (descr : Str → Option Str) (usf : Str → Str)
    (ms : List Str) :
    (keys (entries jk descr usf ms)).Sublist (ms.filterMap (fun m => lookup m jk)) := by
  induction ms with
  | nil => simp [entries, keys]
  | cons m rest ih =>
    simp only [entries, keys, List.filterMap_cons] at ih ⊢
    cases hk : lookup m jk with
    | none => simpa using ih
    | some k =>
      cases hd : descr m with
      | none => simp only; exact ih.cons _
      | some d => simp only [List.map_cons]; exact ih.cons_cons _

theorem keys_entries_eq (jk : List (Str × Str)) (descr : Str → Option Str) (usf : Str → Str)
    (ms : List Str) (h : ∀ m ∈ ms, ∃ k d, lookup m jk = some k ∧ descr m = some d) :
    keys (entries jk descr usf ms) = ms.filterMap (fun m => lookup m jk) := by
  induction ms with
  | nil => simp [entries, keys]
  | cons m rest ih =>
    obtain ⟨k, d, hk, hd⟩ := h m (by simp)
    have ih := ih (fun m' hm' => h m' (List.mem_cons_of_mem _ hm'))
    simp only [entries, keys, List.filterMap_cons] at ih ⊢
    simp only [hk, hd, List.map_cons, ih]

/-! ### blocks: `if cond: (add the metrics of a group; assign some extra items)` -/

abbrev Block := Bool × List Str × JObj

def runBlock (jk : List (Str × Str)) (descr : Str → Option Str) (usf : Str → Str) (b : Block) (d : JObj) :
    Option JObj :=
  if b.1 then (addMetrics jk descr usf d b.2.1).bind fun d' => some (insertMany d' b.2.2) else some d

def runBlocks (jk : List (Str × Str)) (descr : Str → Option Str) (usf : Str → Str) :
    List Block → JObj → Option JObj
  | [], d => some d
  | b :: bs, d => (runBlock jk descr usf b d).bind (runBlocks jk descr usf bs)

def blockItems (jk : List (Str × Str)) (descr : Str → Option Str) (usf : Str → Str) (b : Block) : JObj :=
  if b.1 then entries jk descr usf b.2.1 ++ b.2.2 else []

def blockKeys (jk : List (Str × Str)) (b : Block) : List Str :=
  b.2.1.filterMap (fun m => lookup m jk) ++ keys b.2.2

/-- every metric of the group has a JSON key and a description, and the item is emitted -/
def GroupDefined (jk : List (Str × Str)) (descr : Str → Option Str) (usf : Str → Str) (g : List Str) : Prop :=
  ∀ m ∈ g, ∃ k d, lookup m jk = some k ∧ descr m = some d ∧ (k, JVal.str (usf d)) ∈ entries jk descr usf g

theorem runBlock_some (jk : List (Str × Str)) (descr : Str → Option Str) (usf : Str → Str) (b : Block)
    (d d' : JObj) (h : runBlock jk descr usf b d = some d') :
    d' = insertMany d (blockItems jk descr usf b) ∧ (b.1 = true → GroupDefined jk descr usf b.2.1) := by
  obtain ⟨c, g, extra⟩ := b
  cases c with
  | false =>
    simp only [runBlock, Bool.false_eq_true, if_false, Option.some.injEq] at h
    subst h
    simp [blockItems, insertMany]
  | true =>
    simp only [runBlock, if_true, Option.bind_eq_some_iff, Option.some.injEq] at h
    obtain ⟨d1, h1, rfl⟩ := h
    obtain ⟨e1, e2⟩ := addMetrics_some jk descr usf d d1 g h1
    refine ⟨?_, fun _ => e2⟩
    simp only [blockItems, if_true, insertMany_append, ← e1]

theorem runBlocks_some (jk : List (Str × Str)) (descr : Str → Option Str) (usf : Str → Str)
    (bs : List Block) (d d' : JObj) (h : runBlocks jk descr usf bs d = some d') :
    d' = insertMany d (bs.flatMap (blockItems jk descr usf)) ∧
    ∀ b ∈ bs, b.1 = true → GroupDefined jk descr usf b.2.1 := by
  induction bs generalizing d with
  | nil =>
    simp only [runBlocks, Option.some.injEq] at h
    subst h
    simp [insertMany]
  | cons b bs ih =>
    simp only [runBlocks, Option.bind_eq_some_iff] at h
    obtain ⟨d1, h1, h2⟩ := h
    obtain ⟨e1, e2⟩ := runBlock_some jk descr usf b d d1 h1
    obtain ⟨e3, e4⟩ := ih d1 h2
    refine ⟨?_, ?_⟩
    · rw [List.flatMap_cons, insertMany_append, ← e1, ← e3]
    · intro b' hb'
      rcases List.mem_cons.1 hb' with rfl | hb'
      · exact e2
      · exact e4 b' hb'

theorem keys_blockItems_sublist (jk : List (Str × Str)) (descr : Str → Option Str) (usf : Str → Str)
    (b : Block) : (keys (blockItems jk descr usf b)).Sublist (blockKeys jk b) := by
  obtain ⟨c, g, extra⟩ := b
  cases c with
  | false => simp [blockItems, keys]
  | true =>
    simp only [blockItems, if_true, keys_append, blockKeys]
    exact (keys_entries_sublist jk descr usf g).append (List.Sublist.refl _)

theorem keys_blockItems_eq (jk : List (Str × Str)) (descr : Str → Option Str) (usf : Str → Str)
    (b : Block) (h : b.1 = true → GroupDefined jk descr usf b.2.1) :
    keys (blockItems jk descr usf b) = if b.1 then blockKeys jk b else [] := by
  obtain ⟨c, g, extra⟩ := b
  cases c with
  | false => simp [blockItems, keys]
  | true =>
    simp only [blockItems, if_true, keys_append, blockKeys]
    rw [keys_entries_eq jk descr usf g]
    intro m hm
    obtain ⟨k, d, a, b, _⟩ := h rfl m hm
    exact ⟨k, d, a, b⟩

theorem blockItems_mono (jk : List (Str × Str)) (descr : Str → Option Str) (usf : Str → Str)
    (c : Bool) (g : List Str) (e : JObj) (x : Str × JVal) (h : x ∈ blockItems jk descr usf (c, g, e)) :
    x ∈ blockItems jk descr usf (true, g, e) := by
  cases c with
  | false => simp [blockItems] at h
  | true => exact h

/-- the keys assigned by the blocks that are switched on -/
def activeKeys (jk : List (Str × Str)) (bs : List Block) : List Str :=
  bs.flatMap (fun b => if b.1 then blockKeys jk b else [])

theorem keys_flatMap_blockItems_eq (jk : List (Str × Str)) (descr : Str → Option Str) (usf : Str → Str)
    (bs : List Block) (h : ∀ b ∈ bs, b.1 = true → GroupDefined jk descr usf b.2.1) :
    keys (bs.flatMap (blockItems jk descr usf)) = activeKeys jk bs := by
  induction bs with
  | nil => simp [keys, activeKeys]
  | cons b bs ih =>
    have ih := ih (fun b' hb' => h b' (List.mem_cons_of_mem _ hb'))
    simp only [activeKeys] at ih
    simp only [activeKeys, List.flatMap_cons, keys_append, ih,
      keys_blockItems_eq jk descr usf b (h b (by simp))]

theorem keys_flatMap_blockItems_sublist (jk : List (Str × Str)) (descr : Str → Option Str) (usf : Str → Str)
    (bs : List Block) :
    (keys (bs.flatMap (blockItems jk descr usf))).Sublist (bs.flatMap (blockKeys jk)) := by
  induction bs with
  | nil => simp [keys]
  | cons b bs ih =>
    simp only [List.flatMap_cons, keys_append]
    exact (keys_blockItems_sublist jk descr usf b).append ih

/-- with all potentially assigned keys distinct and fresh, a run of blocks appends its items -/
theorem runBlocks_struct (jk : List (Str × Str)) (descr : Str → Option Str) (usf : Str → Str)
    (bs : List Block) (d d' : JObj) (hn : (keys d ++ bs.flatMap (blockKeys jk)).Nodup)
    (h : runBlocks jk descr usf bs d = some d') :
    d' = d ++ bs.flatMap (blockItems jk descr usf) ∧ (keys d').Nodup ∧
    keys d' = keys d ++ activeKeys jk bs ∧
    ∀ b ∈ bs, b.1 = true → GroupDefined jk descr usf b.2.1 := by
  obtain ⟨e1, e2⟩ := runBlocks_some jk descr usf bs d d' h
  have hn' : (keys (d ++ bs.flatMap (blockItems jk descr usf))).Nodup := by
    rw [keys_append]
    exact ((List.Sublist.refl _).append (keys_flatMap_blockItems_sublist jk descr usf bs)).nodup hn
  have e : d' = d ++ bs.flatMap (blockItems jk descr usf) := by
    rw [e1, insertMany_of_nodup _ _ hn']
  refine ⟨e, e ▸ hn', ?_, e2⟩
  rw [e, keys_append, keys_flatMap_blockItems_eq jk descr usf bs e2]

/-- the final `if sort: data = OrderedDict(sorted(data.items()))` -/
def finish (sort : Bool) (d : JObj) : JObj := if sort then sortObj d else d

theorem sortObj_perm' (o : JObj) : (sortObj o).Perm o := by
  simpa [sortObj] using foldl_insertSorted_perm o []

theorem sortObj_sorted' (o : JObj) : (sortObj o).Pairwise (fun a b => strLt b.1 a.1 = false) :=
  foldl_insertSorted_sorted o [] List.Pairwise.nil

theorem finish_perm (sort : Bool) (d : JObj) : (finish sort d).Perm d := by
  cases sort
  · exact List.Perm.refl _
  · exact sortObj_perm' d

theorem keys_finish_nodup (sort : Bool) (d : JObj) (h : (keys d).Nodup) : (keys (finish sort d)).Nodup :=
  (List.Perm.map (fun p : Str × JVal => p.1) (finish_perm sort d)).nodup_iff.2 h

theorem lookup_finish (sort : Bool) (d : JObj) (h : (keys d).Nodup) (k : Str) :
    lookup k (finish sort d) = lookup k d :=
  lookup_perm _ _ (finish_perm sort d) (keys_finish_nodup sort d h) k

theorem mem_keys_finish (sort : Bool) (d : JObj) (k : Str) : k ∈ keys (finish sort d) ↔ k ∈ keys d :=
  (List.Perm.map (fun p : Str × JVal => p.1) (finish_perm sort d)).mem_iff

/-! ### the three `as_json` as runs of blocks -/

theorem asJson2_eq (o : V2.Obj) (sort minimal : Bool) :
    asJson2 o sort minimal =
      (runBlocks Gen.V2.jsonKeys (V2.getDescription o.metrics) us2
        [(true, Gen.V2.mandatory, []),
         (!minimal || o.temporal.isSome, Gen.V2.temporal,
            [(c!"temporalScore", .num (if truthy o.temporal then o.temporal.getD 0 else 0))]),
         (!minimal || o.env.isSome, Gen.V2.environmental,
            [(c!"environmentalScore", .num (if truthy o.env then o.env.getD 0 else 0))])]
        [(c!"version", .str c!"2.0"), (c!"vectorString", .str o.vector), (c!"baseScore", .num o.base)]).bind
      (fun d => some (finish sort d)) := by
  simp only [asJson2, runBlocks, runBlock, insertMany, finish, Option.bind_eq_bind, Option.pure_def]
  generalize (!minimal || o.temporal.isSome) = c1
  generalize (!minimal || o.env.isSome) = c2
  cases c1 <;> cases c2 <;> simp [Option.bind_assoc]

theorem asJson3_eq (o : V3.Obj) (sort minimal : Bool) :
    asJson3 o sort minimal =
      (runBlocks Gen.V3.jsonKeys (V3.getDescription o.metrics) us3
        [(true, Gen.V3.mandatory,
            [(c!"baseScore", .num o.base), (c!"baseSeverity", .str (us3 (V3.sevOf o.base)))]),
         (!minimal || Gen.V3.temporal.any (fun k => hasKey k o.orig), Gen.V3.temporal,
            [(c!"temporalScore", .num o.temporal), (c!"temporalSeverity", .str (us3 (V3.sevOf o.temporal)))]),
         (!minimal || Gen.V3.environmental.any (fun k => hasKey k o.orig), Gen.V3.environmental,
            [(c!"environmentalScore", .num o.env), (c!"environmentalSeverity", .str (us3 (V3.sevOf o.env)))])]
        [(c!"version", .str (c!"3." ++ natToStr o.minor)), (c!"vectorString", .str o.vector)]).bind
      (fun d => some (finish sort d)) := by
  simp only [asJson3, runBlocks, runBlock, insertMany, finish, Option.bind_eq_bind, Option.pure_def]
  generalize (!minimal || Gen.V3.temporal.any (fun k => hasKey k o.orig)) = c1
  generalize (!minimal || Gen.V3.environmental.any (fun k => hasKey k o.orig)) = c2
  cases c1 <;> cases c2 <;> simp [Option.bind_assoc]

theorem asJson4_eq (o : V4.Obj) (sort minimal : Bool) :
    asJson4 o sort minimal =
      (runBlocks Gen.V4.jsonKeys (V4.getDescription o.metrics) us3
        [(true, Gen.V4.metricsOrder,
            [(c!"baseScore", .num o.base), (c!"baseSeverity", .str o.severity)])]
        [(c!"version", .str c!"4"), (c!"vectorString", .str o.vector)]).bind
      (fun d => some (finish sort d)) := by
  simp only [asJson4, runBlocks, runBlock, insertMany, finish, Option.bind_eq_bind, Option.pure_def]
  simp [Option.bind_assoc]

end Cvss.Model

