/-
  Lemmas for C14 (monotonicity of the v2 / v3 specification equations):
  monotone rounding, a generic "every single step over every legal token tuple" Boolean check and
  its lifting to assignments, monotone functions along a sorted list; the v2 / v3 scores as
  functions of token tuples; the v3 environmental score decomposed (inner Roundup × temporal
  factor), the Boolean checks evaluated by the kernel in `Props/C14Tables*.lean` and what they
  mean; the environmental score as a function of the effective assignment and its single steps.
-/
import Mathlib.Tactic.Linarith
import Mathlib.Tactic.NormNum
import Mathlib.Tactic.Positivity
import Mathlib.Tactic.Ring
import Mathlib.Algebra.Order.Floor.Ring
import Mathlib.Data.Rat.Floor
import Cvss.Basic
import Cvss.Spec.V2
import Cvss.Spec.V3
import Cvss.Lemmas.Num
import Cvss.Lemmas.Num3
import Cvss.Lemmas.V2
namespace Cvss.Lemmas.Mono
open Cvss

/-! ### rounding is monotone -/

theorem roundup_mono {x y : ℚ} (h : x ≤ y) : Spec.V3.roundup x ≤ Spec.V3.roundup y := by
  unfold Spec.V3.roundup
  have h1 : (x * 10).ceil ≤ (y * 10).ceil := by
    rw [Rat.ceil_le_iff]
    exact le_trans (by linarith) Rat.le_ceil
  have h2 : ((x * 10).ceil : ℚ) ≤ ((y * 10).ceil : ℚ) := by exact_mod_cast h1
  linarith

theorem roundup_zero : Spec.V3.roundup 0 = 0 := by
  unfold Spec.V3.roundup
  have : ((0 : ℚ) * 10).ceil = 0 := by decide +kernel
  rw [this]; norm_num

theorem roundup_nonneg {x : ℚ} (h : 0 ≤ x) : 0 ≤ Spec.V3.roundup x := by
  have := roundup_mono h
  rwa [roundup_zero] at this

theorem round1_mono {x y : ℚ} (h : x ≤ y) : Spec.V2.round1 x ≤ Spec.V2.round1 y := by
  unfold Spec.V2.round1
  simp only [Num.rat_floor_eq]
  by_cases hx : 0 ≤ x
  · have hy : 0 ≤ y := le_trans hx h
    rw [if_pos hx, if_pos hy]
    have h1 : ⌊x * 10 + 1 / 2⌋ ≤ ⌊y * 10 + 1 / 2⌋ := Int.floor_mono (by linarith)
    have h2 : ((⌊x * 10 + 1 / 2⌋ : ℤ) : ℚ) ≤ ((⌊y * 10 + 1 / 2⌋ : ℤ) : ℚ) := by exact_mod_cast h1
    linarith
  · rw [if_neg hx]
    have hx' : x < 0 := not_le.mp hx
    by_cases hy : 0 ≤ y
    · rw [if_pos hy]
      have h1 : (0 : ℤ) ≤ ⌊-x * 10 + 1 / 2⌋ := Int.floor_nonneg.mpr (by linarith)
      have h2 : (0 : ℤ) ≤ ⌊y * 10 + 1 / 2⌋ := Int.floor_nonneg.mpr (by linarith)
      have h3 : (0 : ℚ) ≤ ((⌊-x * 10 + 1 / 2⌋ : ℤ) : ℚ) := by exact_mod_cast h1
      have h4 : (0 : ℚ) ≤ ((⌊y * 10 + 1 / 2⌋ : ℤ) : ℚ) := by exact_mod_cast h2
      linarith
    · rw [if_neg hy]
      have h1 : ⌊-y * 10 + 1 / 2⌋ ≤ ⌊-x * 10 + 1 / 2⌋ := Int.floor_mono (by linarith)
      have h2 : ((⌊-y * 10 + 1 / 2⌋ : ℤ) : ℚ) ≤ ((⌊-x * 10 + 1 / 2⌋ : ℤ) : ℚ) := by exact_mod_cast h1
      linarith

/-! ### the assignment with one metric changed -/

/-- the assignment `a` with metric `k` set to `v` (the same function as `Props.C14.upd`) -/
def upd (a : Str → Str) (k v : Str) : Str → Str := fun j => if j = k then v else a j

theorem upd_self (a : Str → Str) (k v : Str) : upd a k v k = v := by simp [upd]

theorem upd_ne (a : Str → Str) {k j : Str} (v : Str) (h : j ≠ k) : upd a k v j = a j := by
  simp [upd, h]

/-! ### a function monotone along consecutive elements of a strictly increasing list -/

/-- `l` is strictly increasing and `f` does not decrease between consecutive elements -/
def monoOn (f : ℚ → ℚ) : List ℚ → Bool
  | [] => true
  | [_] => true
  | x :: y :: r => decide (x < y) && decide (f x ≤ f y) && monoOn f (y :: r)

theorem monoOn_tail {f : ℚ → ℚ} {x : ℚ} {l : List ℚ} (h : monoOn f (x :: l) = true) :
    monoOn f l = true := by
  cases l with
  | nil => rfl
  | cons y r =>
    simp only [monoOn, Bool.and_eq_true] at h
    exact h.2

theorem monoOn_head {f : ℚ → ℚ} {l : List ℚ} : ∀ {x : ℚ}, monoOn f (x :: l) = true →
    ∀ y ∈ l, x < y ∧ f x ≤ f y := by
  induction l with
  | nil => intro x _ y hy; simp at hy
  | cons z r ih =>
    intro x h y hy
    simp only [monoOn, Bool.and_eq_true, decide_eq_true_eq] at h
    obtain ⟨⟨h1, h2⟩, h3⟩ := h
    rcases List.mem_cons.mp hy with rfl | hy
    · exact ⟨h1, h2⟩
    · obtain ⟨h4, h5⟩ := ih h3 y hy
      exact ⟨lt_trans h1 h4, le_trans h2 h5⟩

theorem monoOn_spec {f : ℚ → ℚ} {l : List ℚ} (h : monoOn f l = true) :
    ∀ x ∈ l, ∀ y ∈ l, x ≤ y → f x ≤ f y := by
  induction l with
  | nil => intro x hx; simp at hx
  | cons z r ih =>
    intro x hx y hy hxy
    rcases List.mem_cons.mp hx with hxz | hxr
    · rcases List.mem_cons.mp hy with hyz | hyr
      · rw [hxz, hyz]
      · rw [hxz]; exact (monoOn_head h y hyr).2
    · rcases List.mem_cons.mp hy with hyz | hyr
      · have := (monoOn_head h x hxr).1
        rw [hyz] at hxy
        exact absurd hxy (not_le.mpr this)
      · exact ih (monoOn_tail h) x hxr y hyr hxy

/-! ### all single steps over all legal token tuples -/

/-- all tuples with one token from each row -/
def prodL : List (List Str) → List (List Str)
  | [] => [[]]
  | row :: rest => row.flatMap fun t => (prodL rest).map fun r => t :: r

theorem mem_prodL {t : List Str} {rows : List (List Str)}
    (h : List.Forall₂ (fun x row => x ∈ row) t rows) : t ∈ prodL rows := by
  induction h with
  | nil => simp [prodL]
  | cons h1 _ ih =>
    simp only [prodL, List.mem_flatMap, List.mem_map]
    exact ⟨_, h1, _, ih, rfl⟩

/-- position of a metric in a list of metric names -/
def idx (k : Str) : List Str → Nat
  | [] => 0
  | k' :: ks => if k' = k then 0 else idx k ks + 1

/-- the row of metric `k` -/
def rowOf (k : Str) : List Str → List (List Str) → List Str
  | k' :: ks, row :: rest => if k' = k then row else rowOf k ks rest
  | _, _ => []

/-- the rows with metric `k`'s row restricted to (its own copies of) the token `lo` -/
def restrictRows (k lo : Str) : List Str → List (List Str) → List (List Str)
  | k' :: ks, row :: rest =>
    if k' = k then row.filter (fun x => decide (x = lo)) :: rest
    else row :: restrictRows k lo ks rest
  | _, rows => rows

/-- for every step `(k, lo, hi)` and every tuple of legal tokens carrying `lo` at `k`'s position:
    the score does not decrease when `lo` is replaced by `hi`.  (Tokens are always taken from the
    literal rows, so that the kernel sees syntactically equal score terms and evaluates each once.) -/
def stepChk (score : List Str → ℚ) (keys : List Str) (rows : List (List Str))
    (steps : List (Str × Str × Str)) : Bool :=
  steps.all fun s =>
    (rowOf s.1 keys rows).any (fun x => decide (x = s.2.2)) &&
    ((rowOf s.1 keys rows).filter (fun x => decide (x = s.2.2))).all fun hi =>
      (prodL (restrictRows s.1 s.2.1 keys rows)).all fun t =>
        decide (score t ≤ score (t.set (idx s.1 keys) hi))

theorem map_upd_of_not_mem (a : Str → Str) {k : Str} (v : Str) {ks : List Str} (h : k ∉ ks) :
    ks.map (upd a k v) = ks.map a := by
  apply List.map_congr_left
  intro j hj
  exact upd_ne a v (fun e => h (e ▸ hj))

theorem set_idx_map (a : Str → Str) (k v : Str) {keys : List Str} (hnd : keys.Nodup) (hk : k ∈ keys) :
    (keys.map a).set (idx k keys) v = keys.map (upd a k v) := by
  induction keys with
  | nil => simp at hk
  | cons k' ks ih =>
    obtain ⟨hnot, hnd'⟩ := List.nodup_cons.mp hnd
    by_cases hkk : k' = k
    · subst hkk
      simp only [idx, if_pos, List.map_cons, List.set_cons_zero, upd_self]
      rw [map_upd_of_not_mem a v hnot]
    · have hk' : k ∈ ks := by
        rcases List.mem_cons.mp hk with h | h
        · exact absurd h.symm hkk
        · exact h
      simp only [idx, if_neg hkk, List.map_cons, List.set_cons_succ, upd_ne a v hkk, ih hnd' hk']

theorem forall₂_restrictRows (a : Str → Str) (k : Str) {keys : List Str} {rows : List (List Str)}
    (h : List.Forall₂ (fun x row => x ∈ row) (keys.map a) rows) :
    List.Forall₂ (fun x row => x ∈ row) (keys.map a) (restrictRows k (a k) keys rows) := by
  induction keys generalizing rows with
  | nil => simpa [restrictRows] using h
  | cons k' ks ih =>
    cases rows with
    | nil => simp at h
    | cons row rest =>
      simp only [List.map_cons, List.forall₂_cons] at h
      by_cases hkk : k' = k
      · subst hkk
        simp only [restrictRows, if_pos, List.map_cons, List.forall₂_cons]
        exact ⟨List.mem_filter.mpr ⟨h.1, by simp⟩, h.2⟩
      · simp only [restrictRows, if_neg hkk, List.map_cons, List.forall₂_cons]
        exact ⟨h.1, ih h.2⟩

/-- lifting `stepChk` to assignments: `score` of the tuple read off a legal assignment -/
theorem stepChk_spec {score : List Str → ℚ} {keys : List Str} {rows : List (List Str)}
    {steps : List (Str × Str × Str)} (h : stepChk score keys rows steps = true)
    (hnd : keys.Nodup) (a : Str → Str)
    (hleg : List.Forall₂ (fun x row => x ∈ row) (keys.map a) rows)
    {k lo hi : Str} (hs : (k, lo, hi) ∈ steps) (hkeys : k ∈ keys) (hk : a k = lo) :
    score (keys.map a) ≤ score (keys.map (upd a k hi)) := by
  unfold stepChk at h
  have h1 := List.all_eq_true.mp h _ hs
  simp only [Bool.and_eq_true, List.any_eq_true, decide_eq_true_eq] at h1
  obtain ⟨⟨x, hx, rfl⟩, h1⟩ := h1
  have h2 := List.all_eq_true.mp h1 x (List.mem_filter.mpr ⟨hx, by simp⟩)
  have hmem : keys.map a ∈ prodL (restrictRows k lo keys rows) := by
    apply mem_prodL
    rw [← hk]
    exact forall₂_restrictRows a k hleg
  have h3 := List.all_eq_true.mp h2 _ hmem
  rw [decide_eq_true_eq, set_idx_map a k x hnd hkeys] at h3
  exact h3

theorem stepChk_append {score : List Str → ℚ} {keys : List Str} {rows : List (List Str)}
    {s1 s2 : List (Str × Str × Str)} (h1 : stepChk score keys rows s1 = true)
    (h2 : stepChk score keys rows s2 = true) : stepChk score keys rows (s1 ++ s2) = true := by
  unfold stepChk at *
  rw [List.all_append, h1, h2]; rfl

/-! ### legality: every metric carries a token of its row -/

theorem lookup_isSome_mem_keys {β : Type} {t : Str} {row : List (Str × β)}
    (h : (lookup t row).isSome) : t ∈ Cvss.keys row := by
  induction row with
  | nil => simp [lookup] at h
  | cons p r ih =>
    obtain ⟨x, y⟩ := p
    simp only [lookup] at h
    simp only [Cvss.keys, List.map_cons, List.mem_cons]
    split at h
    · next hx => exact Or.inl hx
    · exact Or.inr (ih h)

theorem legal_mem {W : List (Str × List (Str × ℚ))} {a : Str → Str}
    (ha : ∀ p ∈ W, (lookup (a p.1) p.2).isSome) (m : Str) (toks : List Str)
    (h : (lookup m W).map Cvss.keys = some toks) : a m ∈ toks := by
  cases hrow : lookup m W with
  | none => rw [hrow] at h; simp at h
  | some row =>
    rw [hrow] at h
    simp only [Option.map_some, Option.some.injEq] at h
    rw [← h]
    exact lookup_isSome_mem_keys (ha _ (Cvss.Lemmas.V2.lookup_mem hrow))

/-! ### CVSS v2 -/
namespace V2
open Spec.V2

def keys : List Str := [c!"AV", c!"AC", c!"Au", c!"C", c!"I", c!"A"]

def rows : List (List Str) :=
  [[c!"L", c!"A", c!"N"], [c!"H", c!"M", c!"L"], [c!"M", c!"S", c!"N"],
   [c!"N", c!"P", c!"C"], [c!"N", c!"P", c!"C"], [c!"N", c!"P", c!"C"]]

/-- the base score as a function of the six base tokens -/
def baseT (av ac au c i a : Str) : ℚ :=
  max 0 (round1 (((r 6 10 * (r 1041 100 * (1 - (1 - w c!"C" c) * (1 - w c!"I" i) * (1 - w c!"A" a))))
      + (r 4 10 * (20 * w c!"AV" av * w c!"AC" ac * w c!"Au" au)) - r 15 10)
    * f (r 1041 100 * (1 - (1 - w c!"C" c) * (1 - w c!"I" i) * (1 - w c!"A" a)))))

def baseL : List Str → ℚ
  | [av, ac, au, c, i, a] => baseT av ac au c i a
  | _ => 0

theorem baseScore_eq (a : Str → Str) : baseScore a = baseL (keys.map a) := rfl

theorem legal_rows {a : Str → Str} (ha : Cvss.Lemmas.V2.Legal a) :
    List.Forall₂ (fun x row => x ∈ row) (keys.map a) rows := by
  refine .cons (legal_mem ha c!"AV" _ rfl) (.cons (legal_mem ha c!"AC" _ rfl)
    (.cons (legal_mem ha c!"Au" _ rfl) (.cons (legal_mem ha c!"C" _ rfl)
    (.cons (legal_mem ha c!"I" _ rfl) (.cons (legal_mem ha c!"A" _ rfl) .nil)))))

theorem baseScore_nonneg (a : Str → Str) : 0 ≤ baseScore a := le_max_left _ _

/-- the base score only reads the six base metrics -/
theorem baseScore_upd_of_not_mem (a : Str → Str) {k : Str} (v : Str) (h : k ∉ keys) :
    baseScore (upd a k v) = baseScore a := by
  rw [baseScore_eq, baseScore_eq, map_upd_of_not_mem a v h]

/-- the temporal score is monotone in `base × factor` -/
theorem temporal_le_of {a a' : Str → Str}
    (h : baseScore a * temporalFactor a ≤ baseScore a' * temporalFactor a') (u v : ℚ)
    (hu : temporalScore a = some u) (hv : temporalScore a' = some v) : u ≤ v := by
  unfold temporalScore at hu hv
  split at hu
  · split at hv
    · cases hu; cases hv
      exact max_le_max (le_refl _) (round1_mono h)
    · cases hv
  · cases hu

end V2

/-! ### CVSS v3 -/
namespace V3
open Spec.V3

theorem r_eq (n : Int) (d : Nat) : r n d = (n : ℚ) / (d : ℚ) := Rat.mkRat_eq_div n d

def keys : List Str := [c!"AV", c!"AC", c!"PR", c!"UI", c!"S", c!"C", c!"I", c!"A"]

def rows : List (List Str) :=
  [[c!"N", c!"A", c!"L", c!"P"], [c!"L", c!"H"], [c!"N", c!"L", c!"H"], [c!"N", c!"R"],
   [c!"U", c!"C"], [c!"H", c!"L", c!"N"], [c!"H", c!"L", c!"N"], [c!"H", c!"L", c!"N"]]

/-- the base score as a function of the eight base tokens -/
def baseT (av ac pr ui s c i a : Str) : ℚ :=
  let iss := 1 - (1 - w c!"C" c) * (1 - w c!"I" i) * (1 - w c!"A" a)
  let changed := s = c!"C"
  let imp := impact changed iss
  let expl := r 822 100 * w c!"AV" av * w c!"AC" ac * prWeight changed pr * w c!"UI" ui
  if imp ≤ 0 then 0
  else if changed then roundup (min (r 108 100 * (imp + expl)) 10)
  else roundup (min (imp + expl) 10)

def baseL : List Str → ℚ
  | [av, ac, pr, ui, s, c, i, a] => baseT av ac pr ui s c i a
  | _ => 0

theorem baseScore_eq (a : Str → Str) : baseScore a = baseL (keys.map a) := rfl

/-- the base score only reads the eight base metrics -/
theorem baseScore_upd_of_not_mem (a : Str → Str) {k : Str} (v : Str) (h : k ∉ keys) :
    baseScore (upd a k v) = baseScore a := by
  rw [baseScore_eq, baseScore_eq, map_upd_of_not_mem a v h]

/-! #### weights -/

theorem w_nonneg (m v : Str) : 0 ≤ w m v := by
  unfold w
  cases hrow : lookup m weights with
  | none => exact le_refl _
  | some row =>
    simp only
    cases hv : lookup v row with
    | none => simp
    | some x =>
      simp only [Option.getD_some]
      have h : weights.all (fun p => p.2.all (fun q => decide (0 ≤ q.2))) = true := by
        decide +kernel
      have h1 := List.all_eq_true.mp h _ (Cvss.Lemmas.V2.lookup_mem hrow)
      have h2 := List.all_eq_true.mp h1 _ (Cvss.Lemmas.V2.lookup_mem hv)
      simpa using h2

theorem w_le {m : Str} {hi : ℚ} (h0 : 0 ≤ hi)
    (h : ((lookup m weights).getD []).all (fun q => decide (q.2 ≤ hi)) = true) (v : Str) :
    w m v ≤ hi := by
  unfold w
  cases hrow : lookup m weights with
  | none => exact h0
  | some row =>
    rw [hrow] at h
    simp only [Option.getD_some] at h ⊢
    cases hv : lookup v row with
    | none => simpa using h0
    | some x =>
      have h2 := List.all_eq_true.mp h _ (Cvss.Lemmas.V2.lookup_mem hv)
      simpa using h2

theorem wC_le (v : Str) : w c!"C" v ≤ 56 / 100 := w_le (by norm_num) (by decide +kernel) v
theorem wI_le (v : Str) : w c!"I" v ≤ 56 / 100 := w_le (by norm_num) (by decide +kernel) v
theorem wA_le (v : Str) : w c!"A" v ≤ 56 / 100 := w_le (by norm_num) (by decide +kernel) v
theorem wCR_le (v : Str) : w c!"CR" v ≤ 3 / 2 := w_le (by norm_num) (by decide +kernel) v
theorem wIR_le (v : Str) : w c!"IR" v ≤ 3 / 2 := w_le (by norm_num) (by decide +kernel) v
theorem wAR_le (v : Str) : w c!"AR" v ≤ 3 / 2 := w_le (by norm_num) (by decide +kernel) v

theorem prWeight_nonneg (ch : Bool) (v : Str) : 0 ≤ prWeight ch v := by
  unfold prWeight
  split_ifs <;> norm_num [r_eq]

theorem prWeight_false_le_true (v : Str) : prWeight false v ≤ prWeight true v := by
  simp only [prWeight, Bool.false_eq_true, if_false, if_true]
  split_ifs <;> norm_num [r_eq]

theorem temporalFactor_nonneg (a : Str → Str) : 0 ≤ temporalFactor a :=
  mul_nonneg (mul_nonneg (w_nonneg _ _) (w_nonneg _ _)) (w_nonneg _ _)

/-! #### the environmental score, decomposed -/

/-- Modified Impact Sub-Score from the three products weight × requirement -/
def missOf (pc pi pa : ℚ) : ℚ := min (1 - (1 - pc) * (1 - pi) * (1 - pa)) (r 915 1000)

/-- Modified Exploitability from the four effective tokens -/
def explOf (ch : Bool) (av ac pr ui : Str) : ℚ :=
  r 822 100 * w c!"AV" av * w c!"AC" ac * prWeight ch pr * w c!"UI" ui

/-- the inner (first) Roundup of the environmental equation, 0 when the modified impact is ≤ 0 -/
def innerB (minor : Nat) (ch : Bool) (miss e : ℚ) : ℚ :=
  if modifiedImpact minor ch miss ≤ 0 then 0
  else if ch then roundup (min (r 108 100 * (modifiedImpact minor ch miss + e)) 10)
  else roundup (min (modifiedImpact minor ch miss + e) 10)

def innerT (minor : Nat) (s av ac pr ui : Str) (pc pi pa : ℚ) : ℚ :=
  innerB minor (decide (s = c!"C")) (missOf pc pi pa) (explOf (decide (s = c!"C")) av ac pr ui)

theorem env_eq' (minor : Nat) (a : Str → Str) :
    environmentalScore minor a =
      roundup (innerT minor (eff a c!"MS" c!"S") (eff a c!"MAV" c!"AV") (eff a c!"MAC" c!"AC")
        (eff a c!"MPR" c!"PR") (eff a c!"MUI" c!"UI")
        (w c!"C" (eff a c!"MC" c!"C") * w c!"CR" (a c!"CR"))
        (w c!"I" (eff a c!"MI" c!"I") * w c!"IR" (a c!"IR"))
        (w c!"A" (eff a c!"MA" c!"A") * w c!"AR" (a c!"AR")) * temporalFactor a) := by
  unfold environmentalScore innerT innerB missOf explOf
  simp only [decide_eq_true_eq]
  split_ifs
  · rw [zero_mul, roundup_zero]
  · rfl
  · rfl

theorem explOf_nonneg (ch : Bool) (av ac pr ui : Str) : 0 ≤ explOf ch av ac pr ui := by
  unfold explOf
  have h : (0 : ℚ) ≤ r 822 100 := by norm_num [r_eq]
  exact mul_nonneg (mul_nonneg (mul_nonneg (mul_nonneg h (w_nonneg _ _)) (w_nonneg _ _))
    (prWeight_nonneg _ _)) (w_nonneg _ _)

theorem explOf_le {ch : Bool} {av ac pr ui av' ac' pr' ui' : Str}
    (h1 : w c!"AV" av ≤ w c!"AV" av') (h2 : w c!"AC" ac ≤ w c!"AC" ac')
    (h3 : prWeight ch pr ≤ prWeight ch pr') (h4 : w c!"UI" ui ≤ w c!"UI" ui') :
    explOf ch av ac pr ui ≤ explOf ch av' ac' pr' ui' := by
  unfold explOf
  have h : (0 : ℚ) ≤ r 822 100 := by norm_num [r_eq]
  have n1 := w_nonneg c!"AV" av
  have n2 := w_nonneg c!"AC" ac
  have n3 := prWeight_nonneg ch pr
  have n4 := w_nonneg c!"UI" ui
  have n1' := w_nonneg c!"AV" av'
  have n2' := w_nonneg c!"AC" ac'
  have n3' := prWeight_nonneg ch pr'
  apply mul_le_mul _ h4 n4 (by positivity)
  apply mul_le_mul _ h3 n3 (by positivity)
  apply mul_le_mul _ h2 n2 (by positivity)
  exact mul_le_mul_of_nonneg_left h1 h

theorem modifiedImpact_false (minor : Nat) (v : ℚ) : modifiedImpact minor false v = r 642 100 * v := by
  simp [modifiedImpact]

theorem innerB_nonneg {minor : Nat} {ch : Bool} {v e : ℚ} (he : 0 ≤ e) : 0 ≤ innerB minor ch v e := by
  unfold innerB
  split_ifs with h1 h2
  · exact le_refl _
  · apply roundup_nonneg
    apply le_min _ (by norm_num)
    exact mul_nonneg (by norm_num [r_eq]) (by linarith [not_le.mp h1])
  · apply roundup_nonneg
    apply le_min _ (by norm_num)
    linarith [not_le.mp h1]

theorem innerB_mono_e {minor : Nat} {ch : Bool} {v e e' : ℚ} (h : e ≤ e') :
    innerB minor ch v e ≤ innerB minor ch v e' := by
  unfold innerB
  split_ifs with h1 h2
  · exact le_refl _
  · apply roundup_mono
    apply min_le_min _ le_rfl
    exact mul_le_mul_of_nonneg_left (by linarith) (by norm_num [r_eq])
  · apply roundup_mono
    apply min_le_min _ le_rfl
    linarith

theorem innerB_mono_miss_false {minor : Nat} {v v' e : ℚ} (he : 0 ≤ e) (h : v ≤ v') :
    innerB minor false v e ≤ innerB minor false v' e := by
  unfold innerB
  simp only [modifiedImpact_false, Bool.false_eq_true, if_false]
  have h642 : (0 : ℚ) ≤ r 642 100 := by norm_num [r_eq]
  have hm := mul_le_mul_of_nonneg_left h h642
  split_ifs with h1 h2 h2
  · exact le_refl _
  · apply roundup_nonneg
    apply le_min _ (by norm_num)
    linarith [not_le.mp h2]
  · linarith [not_le.mp h1]
  · apply roundup_mono
    apply min_le_min _ le_rfl
    linarith

theorem innerB_minor {minor : Nat} (hm : minor ≠ 0) (ch : Bool) (v e : ℚ) :
    innerB minor ch v e = innerB 1 ch v e := by
  unfold innerB modifiedImpact
  simp [hm]

theorem missOf_mono {pc pi pa pc' pi' pa' : ℚ} (hc : pc ≤ pc') (hc1 : pc' ≤ 1) (hi : pi ≤ pi')
    (hi1 : pi' ≤ 1) (ha : pa ≤ pa') (ha1 : pa' ≤ 1) : missOf pc pi pa ≤ missOf pc' pi' pa' := by
  unfold missOf
  apply min_le_min _ le_rfl
  have h1 : (1 - pc') * (1 - pi') ≤ (1 - pc) * (1 - pi) :=
    mul_le_mul (by linarith) (by linarith) (by linarith) (by linarith)
  have h2 : (1 - pc') * (1 - pi') * (1 - pa') ≤ (1 - pc) * (1 - pi) * (1 - pa) :=
    mul_le_mul h1 (by linarith) (by linarith) (mul_nonneg (by linarith) (by linarith))
  linarith

theorem prodC_le (c q : Str) : w c!"C" c * w c!"CR" q ≤ 1 := by
  have := mul_le_mul (wC_le c) (wCR_le q) (w_nonneg _ _) (by norm_num)
  linarith
theorem prodI_le (c q : Str) : w c!"I" c * w c!"IR" q ≤ 1 := by
  have := mul_le_mul (wI_le c) (wIR_le q) (w_nonneg _ _) (by norm_num)
  linarith
theorem prodA_le (c q : Str) : w c!"A" c * w c!"AR" q ≤ 1 := by
  have := mul_le_mul (wA_le c) (wAR_le q) (w_nonneg _ _) (by norm_num)
  linarith

/-! #### finite checks (evaluated by the kernel in `Props/C14Tables3*.lean`) and their meaning -/

def avs : List Str := [c!"N", c!"A", c!"L", c!"P"]
def acs : List Str := [c!"L", c!"H"]
def prs : List Str := [c!"N", c!"L", c!"H"]
def uis : List Str := [c!"N", c!"R"]
def scs : List Str := [c!"U", c!"C"]
def cias : List Str := [c!"H", c!"L", c!"N"]
def reqs : List Str := [c!"X", c!"H", c!"M", c!"L"]

/-- the values of impact weight × requirement weight -/
def prods : List ℚ := [0, r 11 100, r 22 100, r 28 100, r 33 100, r 56 100, r 84 100]

/-- the 68 reachable values of the Modified Impact Sub-Score, ascending -/
def missList : List ℚ :=
  ([0, 110000, 207900, 220000, 280000, 295031, 305800, 330000, 359200, 382162, 391600, 403700,
    429688, 438400, 458524, 469293, 477400, 481600, 500176, 517600, 525448, 534886, 538624, 551100,
    560000, 561952, 570664, 592372, 595648, 600479, 608400, 623728, 626752, 649858, 651476, 652672,
    656800, 676792, 683200, 694552, 699237, 705200, 718048, 732304, 737628, 752896, 770056, 771904,
    787744, 802484, 806400, 827696, 840000, 848992, 857600, 860608, 870288, 873264, 875200, 884800,
    888928, 892800, 897472, 902656, 904592, 910144, 914816, 915000] : List Int).map
    fun n => r n 1000000

def prodChk : Bool :=
  cias.all fun c => reqs.all fun q =>
    prods.any (fun y => decide (w c!"C" c * w c!"CR" q = y)) &&
    prods.any (fun y => decide (w c!"I" c * w c!"IR" q = y)) &&
    prods.any (fun y => decide (w c!"A" c * w c!"AR" q = y))

def missChk : Bool :=
  prods.all fun pc => prods.all fun pi => prods.all fun pa =>
    missList.any fun y => decide (missOf pc pi pa = y)

/-- v3.1, Changed: the inner Roundup is monotone along the reachable sub-scores, for every
    exploitability -/
def impactChk : Bool :=
  avs.all fun av => acs.all fun ac => prs.all fun pr => uis.all fun ui =>
    monoOn (fun v => innerB 1 true v (explOf true av ac pr ui)) missList

/-- Unchanged → Changed never lowers the inner Roundup -/
def scopeChk (minor : Nat) : Bool :=
  missList.all fun v => avs.all fun av => acs.all fun ac => prs.all fun pr => uis.all fun ui =>
    decide (innerB minor false v (explOf false av ac pr ui)
              ≤ innerB minor true v (explOf true av ac pr ui))

theorem miss_mem (h1 : prodChk = true) (h2 : missChk = true) {c cr i ir a ar : Str}
    (hc : c ∈ cias) (hcr : cr ∈ reqs) (hi : i ∈ cias) (hir : ir ∈ reqs) (ha : a ∈ cias)
    (har : ar ∈ reqs) :
    missOf (w c!"C" c * w c!"CR" cr) (w c!"I" i * w c!"IR" ir) (w c!"A" a * w c!"AR" ar)
      ∈ missList := by
  have hp : ∀ c ∈ cias, ∀ q ∈ reqs, w c!"C" c * w c!"CR" q ∈ prods ∧
      w c!"I" c * w c!"IR" q ∈ prods ∧ w c!"A" c * w c!"AR" q ∈ prods := by
    intro c hc q hq
    have := List.all_eq_true.mp (List.all_eq_true.mp h1 c hc) q hq
    simp only [Bool.and_eq_true, List.any_eq_true, decide_eq_true_eq] at this
    obtain ⟨⟨⟨y1, hy1, e1⟩, ⟨y2, hy2, e2⟩⟩, ⟨y3, hy3, e3⟩⟩ := this
    exact ⟨e1 ▸ hy1, e2 ▸ hy2, e3 ▸ hy3⟩
  have := List.all_eq_true.mp (List.all_eq_true.mp (List.all_eq_true.mp h2 _ (hp c hc cr hcr).1)
    _ (hp i hi ir hir).2.1) _ (hp a ha ar har).2.2
  simp only [List.any_eq_true, decide_eq_true_eq] at this
  obtain ⟨y, hy, e⟩ := this
  exact e ▸ hy

theorem impactChk_spec (h : impactChk = true) {av ac pr ui : Str} (hav : av ∈ avs) (hac : ac ∈ acs)
    (hpr : pr ∈ prs) (hui : ui ∈ uis) {v v' : ℚ} (hv : v ∈ missList) (hv' : v' ∈ missList)
    (hle : v ≤ v') :
    innerB 1 true v (explOf true av ac pr ui) ≤ innerB 1 true v' (explOf true av ac pr ui) := by
  have := List.all_eq_true.mp (List.all_eq_true.mp (List.all_eq_true.mp
    (List.all_eq_true.mp h av hav) ac hac) pr hpr) ui hui
  exact monoOn_spec this v hv v' hv' hle

theorem scopeChk_spec {minor : Nat} (h : scopeChk minor = true) {av ac pr ui : Str} (hav : av ∈ avs)
    (hac : ac ∈ acs) (hpr : pr ∈ prs) (hui : ui ∈ uis) {v : ℚ} (hv : v ∈ missList) :
    innerB minor false v (explOf false av ac pr ui) ≤ innerB minor true v (explOf true av ac pr ui) := by
  have := List.all_eq_true.mp (List.all_eq_true.mp (List.all_eq_true.mp (List.all_eq_true.mp
    (List.all_eq_true.mp h v hv) av hav) ac hac) pr hpr) ui hui
  simpa using this

theorem scopeChk_minor {minor : Nat} (hm : minor ≠ 0) (h : scopeChk 1 = true) :
    scopeChk minor = true := by
  unfold scopeChk at *
  simpa only [innerB_minor hm] using h

/-! #### steps at the level of tokens -/

theorem innerT_expl {minor : Nat} {s av ac pr ui av' ac' pr' ui' : Str} {pc pi pa : ℚ}
    (h1 : w c!"AV" av ≤ w c!"AV" av') (h2 : w c!"AC" ac ≤ w c!"AC" ac')
    (h3 : ∀ ch, prWeight ch pr ≤ prWeight ch pr') (h4 : w c!"UI" ui ≤ w c!"UI" ui') :
    innerT minor s av ac pr ui pc pi pa ≤ innerT minor s av' ac' pr' ui' pc pi pa :=
  innerB_mono_e (explOf_le h1 h2 (h3 _) h4)

theorem innerT_scope {minor : Nat} (h : scopeChk minor = true) {av ac pr ui : Str} (hav : av ∈ avs)
    (hac : ac ∈ acs) (hpr : pr ∈ prs) (hui : ui ∈ uis) {pc pi pa : ℚ}
    (hv : missOf pc pi pa ∈ missList) :
    innerT minor c!"U" av ac pr ui pc pi pa ≤ innerT minor c!"C" av ac pr ui pc pi pa := by
  unfold innerT
  have e1 : decide (c!"U" = c!"C") = false := by decide
  have e2 : decide (c!"C" = c!"C") = true := by decide
  rw [e1, e2]
  exact scopeChk_spec h hav hac hpr hui hv

theorem innerT_impact {minor : Nat} (hm : minor ≠ 0) (h : impactChk = true) {s av ac pr ui : Str}
    (hav : av ∈ avs) (hac : ac ∈ acs) (hpr : pr ∈ prs) (hui : ui ∈ uis) {pc pi pa pc' pi' pa' : ℚ}
    (hv : missOf pc pi pa ∈ missList) (hv' : missOf pc' pi' pa' ∈ missList)
    (hle : missOf pc pi pa ≤ missOf pc' pi' pa') :
    innerT minor s av ac pr ui pc pi pa ≤ innerT minor s av ac pr ui pc' pi' pa' := by
  unfold innerT
  cases hs : decide (s = c!"C") with
  | false => exact innerB_mono_miss_false (explOf_nonneg _ _ _ _ _) hle
  | true =>
    rw [innerB_minor hm, innerB_minor hm]
    exact impactChk_spec h hav hac hpr hui hv hv' hle

theorem innerT_nonneg (minor : Nat) (s av ac pr ui : Str) (pc pi pa : ℚ) :
    0 ≤ innerT minor s av ac pr ui pc pi pa :=
  innerB_nonneg (explOf_nonneg _ _ _ _ _)

/-! #### the environmental score as a function of the EFFECTIVE assignment (an undefined Modified
    metric counts as its base metric), and single steps of that assignment -/

/-- legal v3 assignment (the same proposition as `Props.C14.Legal3`) -/
def Legal (a : Str → Str) : Prop :=
  (∀ p ∈ Spec.V3.weights, (lookup (a p.1) p.2).isSome) ∧
  (a c!"PR" = c!"N" ∨ a c!"PR" = c!"L" ∨ a c!"PR" = c!"H") ∧ (a c!"S" = c!"U" ∨ a c!"S" = c!"C") ∧
  (∀ M ∈ [c!"MAV", c!"MAC", c!"MUI", c!"MC", c!"MI", c!"MA"],
      a M = c!"X" ∨ (lookup (a M) ((lookup (M.drop 1) Spec.V3.weights).getD [])).isSome) ∧
  (a c!"MPR" = c!"X" ∨ a c!"MPR" = c!"N" ∨ a c!"MPR" = c!"L" ∨ a c!"MPR" = c!"H") ∧
  (a c!"MS" = c!"X" ∨ a c!"MS" = c!"U" ∨ a c!"MS" = c!"C")

/-- the metrics read directly (requirements and temporal metrics) -/
def otherKeys : List Str := [c!"CR", c!"IR", c!"AR", c!"E", c!"RL", c!"RC"]

/-- the effective assignment: base metric names carry the effective Modified value -/
def E (a : Str → Str) : Str → Str := fun j =>
  if j ∈ keys then eff a ('M' :: j) j else if j ∈ otherKeys then a j else []

/-- the environmental score as a function of the effective assignment -/
def envE (minor : Nat) (b : Str → Str) : ℚ :=
  roundup (innerT minor (b c!"S") (b c!"AV") (b c!"AC") (b c!"PR") (b c!"UI")
    (w c!"C" (b c!"C") * w c!"CR" (b c!"CR")) (w c!"I" (b c!"I") * w c!"IR" (b c!"IR"))
    (w c!"A" (b c!"A") * w c!"AR" (b c!"AR")) * temporalFactor b)

theorem env_eq (minor : Nat) (a : Str → Str) : environmentalScore minor a = envE minor (E a) := by
  rw [env_eq']; rfl

/-! ### legality of the effective assignment -/

structure LegalE (b : Str → Str) : Prop where
  av : b c!"AV" ∈ avs
  ac : b c!"AC" ∈ acs
  pr : b c!"PR" ∈ prs
  ui : b c!"UI" ∈ uis
  s : b c!"S" ∈ scs
  c : b c!"C" ∈ cias
  i : b c!"I" ∈ cias
  a : b c!"A" ∈ cias
  cr : b c!"CR" ∈ reqs
  ir : b c!"IR" ∈ reqs
  ar : b c!"AR" ∈ reqs

theorem eff_mem {a : Str → Str} {M B : Str} {toks : List Str} (hB : a B ∈ toks)
    (hM : a M = X ∨ a M ∈ toks) : eff a M B ∈ toks := by
  unfold eff
  split_ifs with h
  · exact hB
  · rcases hM with hM | hM
    · exact absurd hM h
    · exact hM

theorem legalE_of_legal {a : Str → Str} (ha : Legal a) : LegalE (E a) := by
  obtain ⟨hw, hpr, hs, hmod, hmpr, hms⟩ := ha
  have modmem : ∀ M ∈ [c!"MAV", c!"MAC", c!"MUI", c!"MC", c!"MI", c!"MA"],
      a M = X ∨ a M ∈ Cvss.keys ((lookup (M.drop 1) Spec.V3.weights).getD []) := by
    intro M hM
    rcases hmod M hM with h | h
    · exact Or.inl h
    · exact Or.inr (lookup_isSome_mem_keys h)
  refine ⟨?_, ?_, ?_, ?_, ?_, ?_, ?_, ?_, ?_, ?_, ?_⟩
  · exact eff_mem (legal_mem hw c!"AV" _ rfl) (modmem c!"MAV" (by decide))
  · exact eff_mem (legal_mem hw c!"AC" _ rfl) (modmem c!"MAC" (by decide))
  · apply eff_mem (M := c!"MPR") (B := c!"PR")
    · rcases hpr with h | h | h <;> rw [h] <;> decide
    · rcases hmpr with h | h | h | h
      · exact Or.inl h
      all_goals right; rw [h]; decide
  · exact eff_mem (legal_mem hw c!"UI" _ rfl) (modmem c!"MUI" (by decide))
  · apply eff_mem (M := c!"MS") (B := c!"S")
    · rcases hs with h | h <;> rw [h] <;> decide
    · rcases hms with h | h | h
      · exact Or.inl h
      all_goals right; rw [h]; decide
  · exact eff_mem (legal_mem hw c!"C" _ rfl) (modmem c!"MC" (by decide))
  · exact eff_mem (legal_mem hw c!"I" _ rfl) (modmem c!"MI" (by decide))
  · exact eff_mem (legal_mem hw c!"A" _ rfl) (modmem c!"MA" (by decide))
  · exact legal_mem hw c!"CR" _ rfl
  · exact legal_mem hw c!"IR" _ rfl
  · exact legal_mem hw c!"AR" _ rfl

/-! ### a step of the stated assignment, seen on the effective assignment -/

theorem mod_ne_base : ∀ j ∈ keys, ∀ k ∈ keys, 'M' :: j ≠ k := by decide
theorem other_ne_base : ∀ j ∈ otherKeys, ∀ k ∈ keys, j ≠ k ∧ j ≠ 'M' :: k := by decide
theorem mod_not_mem_keys : ∀ k ∈ keys, 'M' :: k ∉ keys ∧ 'M' :: k ∉ otherKeys := by decide

/-- base step, Modified metric undefined: the effective value makes the same step -/
theorem E_upd_base_X {a : Str → Str} {k : Str} (v : Str) (hk : k ∈ keys) (hX : a ('M' :: k) = X) :
    E (upd a k v) = upd (E a) k v := by
  funext j
  unfold E
  by_cases hj : j ∈ keys
  · rw [if_pos hj]
    unfold eff
    rw [upd_ne a v (mod_ne_base j hj k hk)]
    by_cases hjk : j = k
    · subst hjk
      rw [if_pos hX, upd_self, upd_self]
    · rw [upd_ne a v hjk, upd_ne _ v hjk, if_pos hj]
  · have hjk : j ≠ k := fun e => hj (e ▸ hk)
    rw [if_neg hj, upd_ne _ v hjk, upd_ne _ v hjk, if_neg hj]

/-- base step, Modified metric defined: nothing changes -/
theorem E_upd_base_nX {a : Str → Str} {k : Str} (v : Str) (hk : k ∈ keys) (hX : a ('M' :: k) ≠ X) :
    E (upd a k v) = E a := by
  funext j
  unfold E
  by_cases hj : j ∈ keys
  · rw [if_pos hj, if_pos hj]
    unfold eff
    rw [upd_ne a v (mod_ne_base j hj k hk)]
    by_cases hjk : j = k
    · subst hjk
      rw [if_neg hX, if_neg hX]
    · rw [upd_ne a v hjk]
  · have hjk : j ≠ k := fun e => hj (e ▸ hk)
    rw [if_neg hj, if_neg hj, upd_ne _ v hjk]

/-- step of a Modified metric to a defined value: the effective value is the new value -/
theorem E_upd_mod {a : Str → Str} {k : Str} {v : Str} (hk : k ∈ keys) (hv : v ≠ X) :
    E (upd a ('M' :: k) v) = upd (E a) k v := by
  funext j
  unfold E
  by_cases hj : j ∈ keys
  · rw [if_pos hj]
    unfold eff
    have hjM : j ≠ 'M' :: k := fun e => (mod_ne_base k hk j hj) e.symm
    rw [upd_ne a v hjM]
    by_cases hjk : j = k
    · subst hjk
      rw [upd_self, if_neg hv, upd_self]
    · have hMM : 'M' :: j ≠ 'M' :: k := fun e => hjk (List.cons.inj e).2
      rw [upd_ne a v hMM, upd_ne _ v hjk, if_pos hj]
  · have hjk : j ≠ k := fun e => hj (e ▸ hk)
    rw [if_neg hj, upd_ne _ v hjk, if_neg hj]
    by_cases hjo : j ∈ otherKeys
    · rw [if_pos hjo, if_pos hjo, upd_ne a v (other_ne_base j hjo k hk).2]
    · rw [if_neg hjo, if_neg hjo]

/-- step of a requirement or temporal metric -/
theorem E_upd_other {a : Str → Str} {k : Str} (v : Str) (hk : k ∈ otherKeys) :
    E (upd a k v) = upd (E a) k v := by
  funext j
  unfold E
  by_cases hj : j ∈ keys
  · have h1 := other_ne_base k hk j hj
    rw [if_pos hj, upd_ne _ v (Ne.symm h1.1), if_pos hj]
    unfold eff
    rw [upd_ne a v (Ne.symm h1.2), upd_ne a v (Ne.symm h1.1)]
  · rw [if_neg hj]
    by_cases hjk : j = k
    · subst hjk
      rw [if_pos hk, upd_self, upd_self]
    · rw [upd_ne _ v hjk, upd_ne _ v hjk, if_neg hj]

theorem E_base {a : Str → Str} {k : Str} (hk : k ∈ keys) : E a k = eff a ('M' :: k) k := by
  unfold E; rw [if_pos hk]

theorem E_other {a : Str → Str} {k : Str} (hk : k ∈ otherKeys) : E a k = a k := by
  unfold E
  have : k ∉ keys := fun h => (other_ne_base k hk k h).1 rfl
  rw [if_neg this, if_pos hk]

/-! ### single steps of the effective assignment -/

/-- exploitability steps (the first seven of `C14.steps3base`) -/
def stepsExpl : List (Str × Str × Str) :=
  [(c!"AV", c!"P", c!"L"), (c!"AV", c!"L", c!"A"), (c!"AV", c!"A", c!"N"), (c!"AC", c!"H", c!"L"),
   (c!"PR", c!"H", c!"L"), (c!"PR", c!"L", c!"N"), (c!"UI", c!"R", c!"N")]

/-- impact steps (the last six of `C14.steps3base`) and requirement steps (`C14.steps3req`) -/
def stepsImpact : List (Str × Str × Str) :=
  [(c!"C", c!"N", c!"L"), (c!"C", c!"L", c!"H"), (c!"I", c!"N", c!"L"), (c!"I", c!"L", c!"H"),
   (c!"A", c!"N", c!"L"), (c!"A", c!"L", c!"H"),
   (c!"CR", c!"L", c!"M"), (c!"CR", c!"M", c!"H"), (c!"CR", c!"L", c!"X"), (c!"CR", c!"X", c!"H"),
   (c!"IR", c!"L", c!"M"), (c!"IR", c!"M", c!"H"), (c!"IR", c!"L", c!"X"), (c!"IR", c!"X", c!"H"),
   (c!"AR", c!"L", c!"M"), (c!"AR", c!"M", c!"H"), (c!"AR", c!"L", c!"X"), (c!"AR", c!"X", c!"H")]

/-- the same list as `C14.steps3temporal` -/
def stepsTemporal : List (Str × Str × Str) :=
  [(c!"E", c!"U", c!"P"), (c!"E", c!"P", c!"F"), (c!"E", c!"F", c!"H"), (c!"E", c!"F", c!"X"),
   (c!"RL", c!"O", c!"T"), (c!"RL", c!"T", c!"W"), (c!"RL", c!"W", c!"U"), (c!"RL", c!"W", c!"X"),
   (c!"RC", c!"U", c!"R"), (c!"RC", c!"R", c!"C"), (c!"RC", c!"R", c!"X")]

theorem prWeight_step (ch : Bool) :
    prWeight ch c!"H" ≤ prWeight ch c!"L" ∧ prWeight ch c!"L" ≤ prWeight ch c!"N" := by
  cases ch <;> constructor <;> decide +kernel

theorem tf_nonneg' (x y z : Str) : 0 ≤ w c!"E" x * w c!"RL" y * w c!"RC" z :=
  mul_nonneg (mul_nonneg (w_nonneg _ _) (w_nonneg _ _)) (w_nonneg _ _)

theorem envE_step_expl (minor : Nat) (b : Str → Str) {k lo hi : Str}
    (hs : (k, lo, hi) ∈ stepsExpl) (hk : b k = lo) : envE minor b ≤ envE minor (upd b k hi) := by
  simp only [stepsExpl, List.mem_cons, Prod.mk.injEq, List.mem_nil_iff, or_false] at hs
  rcases hs with ⟨rfl, rfl, rfl⟩ | ⟨rfl, rfl, rfl⟩ | ⟨rfl, rfl, rfl⟩ | ⟨rfl, rfl, rfl⟩ |
    ⟨rfl, rfl, rfl⟩ | ⟨rfl, rfl, rfl⟩ | ⟨rfl, rfl, rfl⟩
  all_goals
    unfold envE temporalFactor
    simp (disch := decide) only [upd_ne, upd_self]
    apply roundup_mono
    apply mul_le_mul_of_nonneg_right _ (tf_nonneg' _ _ _)
    rw [hk]
    apply innerT_expl <;>
      first
      | exact le_refl _
      | exact fun _ => le_refl _
      | exact fun ch => (prWeight_step ch).1
      | exact fun ch => (prWeight_step ch).2
      | decide +kernel

theorem tf_step {a : Str → Str} {k lo hi : Str} (hs : (k, lo, hi) ∈ stepsTemporal) (hk : a k = lo) :
    temporalFactor a ≤ temporalFactor (upd a k hi) := by
  simp only [stepsTemporal, List.mem_cons, Prod.mk.injEq, List.mem_nil_iff, or_false] at hs
  rcases hs with ⟨rfl, rfl, rfl⟩ | ⟨rfl, rfl, rfl⟩ | ⟨rfl, rfl, rfl⟩ | ⟨rfl, rfl, rfl⟩ |
    ⟨rfl, rfl, rfl⟩ | ⟨rfl, rfl, rfl⟩ | ⟨rfl, rfl, rfl⟩ | ⟨rfl, rfl, rfl⟩ |
    ⟨rfl, rfl, rfl⟩ | ⟨rfl, rfl, rfl⟩ | ⟨rfl, rfl, rfl⟩
  all_goals
    unfold temporalFactor
    simp (disch := decide) only [upd_ne, upd_self]
    rw [hk]
    first
    | exact mul_le_mul_of_nonneg_right (mul_le_mul_of_nonneg_right (by decide +kernel)
        (w_nonneg _ _)) (w_nonneg _ _)
    | exact mul_le_mul_of_nonneg_right (mul_le_mul_of_nonneg_left (by decide +kernel)
        (w_nonneg _ _)) (w_nonneg _ _)
    | exact mul_le_mul_of_nonneg_left (by decide +kernel) (mul_nonneg (w_nonneg _ _) (w_nonneg _ _))

theorem stepsTemporal_key {k lo hi : Str} (hs : (k, lo, hi) ∈ stepsTemporal) :
    k ∈ otherKeys ∧ k ∉ keys :=
  (List.all_eq_true.mp (by decide : stepsTemporal.all
    (fun s => decide (s.1 ∈ otherKeys ∧ s.1 ∉ keys)) = true) _ hs |> of_decide_eq_true)

theorem envE_step_temporal (minor : Nat) (b : Str → Str) {k lo hi : Str}
    (hs : (k, lo, hi) ∈ stepsTemporal) (hk : b k = lo) :
    envE minor b ≤ envE minor (upd b k hi) := by
  have htf := tf_step hs hk
  have hkeys : k ∉ keys ∧ k ∉ [c!"CR", c!"IR", c!"AR"] :=
    (List.all_eq_true.mp (by decide : stepsTemporal.all
      (fun s => decide (s.1 ∉ keys ∧ s.1 ∉ [c!"CR", c!"IR", c!"AR"])) = true) _ hs
      |> of_decide_eq_true)
  have hne : ∀ j ∈ keys ++ [c!"CR", c!"IR", c!"AR"], upd b k hi j = b j := by
    intro j hj
    apply upd_ne
    rintro rfl
    rcases List.mem_append.mp hj with h | h
    · exact hkeys.1 h
    · exact hkeys.2 h
  unfold envE
  rw [hne c!"S" (by decide), hne c!"AV" (by decide), hne c!"AC" (by decide), hne c!"PR" (by decide),
    hne c!"UI" (by decide), hne c!"C" (by decide), hne c!"I" (by decide), hne c!"A" (by decide),
    hne c!"CR" (by decide), hne c!"IR" (by decide), hne c!"AR" (by decide)]
  apply roundup_mono
  exact mul_le_mul_of_nonneg_left htf (innerT_nonneg _ _ _ _ _ _ _ _ _)

theorem envE_step_scope {minor : Nat} (h1 : prodChk = true) (h2 : missChk = true)
    (h : scopeChk minor = true) {b : Str → Str} (hb : LegalE b) (hk : b c!"S" = c!"U") :
    envE minor b ≤ envE minor (upd b c!"S" c!"C") := by
  unfold envE temporalFactor
  simp (disch := decide) only [upd_ne, upd_self]
  apply roundup_mono
  apply mul_le_mul_of_nonneg_right _ (tf_nonneg' _ _ _)
  rw [hk]
  exact innerT_scope h hb.av hb.ac hb.pr hb.ui (miss_mem h1 h2 hb.c hb.cr hb.i hb.ir hb.a hb.ar)

theorem envE_step_impact {minor : Nat} (hm : minor ≠ 0) (h1 : prodChk = true) (h2 : missChk = true)
    (h3 : impactChk = true) {b : Str → Str} (hb : LegalE b) {k lo hi : Str}
    (hs : (k, lo, hi) ∈ stepsImpact) (hk : b k = lo) :
    envE minor b ≤ envE minor (upd b k hi) := by
  simp only [stepsImpact, List.mem_cons, Prod.mk.injEq, List.mem_nil_iff, or_false] at hs
  rcases hs with ⟨rfl, rfl, rfl⟩ | ⟨rfl, rfl, rfl⟩ | ⟨rfl, rfl, rfl⟩ | ⟨rfl, rfl, rfl⟩ |
    ⟨rfl, rfl, rfl⟩ | ⟨rfl, rfl, rfl⟩ | ⟨rfl, rfl, rfl⟩ | ⟨rfl, rfl, rfl⟩ |
    ⟨rfl, rfl, rfl⟩ | ⟨rfl, rfl, rfl⟩ | ⟨rfl, rfl, rfl⟩ | ⟨rfl, rfl, rfl⟩ |
    ⟨rfl, rfl, rfl⟩ | ⟨rfl, rfl, rfl⟩ | ⟨rfl, rfl, rfl⟩ | ⟨rfl, rfl, rfl⟩ |
    ⟨rfl, rfl, rfl⟩ | ⟨rfl, rfl, rfl⟩
  all_goals
    unfold envE temporalFactor
    simp (disch := decide) only [upd_ne, upd_self]
    apply roundup_mono
    apply mul_le_mul_of_nonneg_right _ (tf_nonneg' _ _ _)
    rw [hk]
    refine innerT_impact hm h3 hb.av hb.ac hb.pr hb.ui ?_ ?_ ?_
    · apply miss_mem h1 h2 <;>
        first
        | exact hb.c | exact hb.i | exact hb.a | exact hb.cr | exact hb.ir | exact hb.ar | decide
    · apply miss_mem h1 h2 <;>
        first
        | exact hb.c | exact hb.i | exact hb.a | exact hb.cr | exact hb.ir | exact hb.ar | decide
    · apply missOf_mono <;>
        first
        | exact le_refl _
        | exact prodC_le _ _
        | exact prodI_le _ _
        | exact prodA_le _ _
        | exact mul_le_mul_of_nonneg_right (by decide +kernel) (w_nonneg _ _)
        | exact mul_le_mul_of_nonneg_left (by decide +kernel) (w_nonneg _ _)

/-- the same list as `C14.steps3base` -/
def stepsBase : List (Str × Str × Str) :=
  [(c!"AV", c!"P", c!"L"), (c!"AV", c!"L", c!"A"), (c!"AV", c!"A", c!"N"), (c!"AC", c!"H", c!"L"),
   (c!"PR", c!"H", c!"L"), (c!"PR", c!"L", c!"N"), (c!"UI", c!"R", c!"N"), (c!"S", c!"U", c!"C"),
   (c!"C", c!"N", c!"L"), (c!"C", c!"L", c!"H"), (c!"I", c!"N", c!"L"), (c!"I", c!"L", c!"H"),
   (c!"A", c!"N", c!"L"), (c!"A", c!"L", c!"H")]

/-- the same list as `C14.steps3req` -/
def stepsReq : List (Str × Str × Str) :=
  [(c!"CR", c!"L", c!"M"), (c!"CR", c!"M", c!"H"), (c!"CR", c!"L", c!"X"), (c!"CR", c!"X", c!"H"),
   (c!"IR", c!"L", c!"M"), (c!"IR", c!"M", c!"H"), (c!"IR", c!"L", c!"X"), (c!"IR", c!"X", c!"H"),
   (c!"AR", c!"L", c!"M"), (c!"AR", c!"M", c!"H"), (c!"AR", c!"L", c!"X"), (c!"AR", c!"X", c!"H")]

/-- v3.1: every base or requirement step of the effective assignment -/
theorem envE_step31 {minor : Nat} (hm : minor ≠ 0) (h1 : prodChk = true) (h2 : missChk = true)
    (h3 : impactChk = true) (h4 : scopeChk 1 = true) {b : Str → Str} (hb : LegalE b) {k lo hi : Str}
    (hs : (k, lo, hi) ∈ stepsBase ++ stepsReq) (hk : b k = lo) :
    envE minor b ≤ envE minor (upd b k hi) := by
  have e : stepsBase ++ stepsReq = stepsExpl ++ (c!"S", c!"U", c!"C") :: stepsImpact := by decide
  rw [e] at hs
  rcases List.mem_append.mp hs with h | h
  · exact envE_step_expl minor b h hk
  · rcases List.mem_cons.mp h with h | h
    · simp only [Prod.mk.injEq] at h
      obtain ⟨rfl, rfl, rfl⟩ := h
      exact envE_step_scope h1 h2 (scopeChk_minor hm h4) hb hk
    · exact envE_step_impact hm h1 h2 h3 hb h hk

/-- v3.0: every exploitability or scope step of the effective assignment -/
theorem envE_step30 (h1 : prodChk = true) (h2 : missChk = true) (h4 : scopeChk 0 = true)
    {b : Str → Str} (hb : LegalE b) {k lo hi : Str}
    (hs : (k, lo, hi) ∈ stepsBase.take 8) (hk : b k = lo) :
    envE 0 b ≤ envE 0 (upd b k hi) := by
  have e : stepsBase.take 8 = stepsExpl ++ [(c!"S", c!"U", c!"C")] := by decide
  rw [e] at hs
  rcases List.mem_append.mp hs with h | h
  · exact envE_step_expl 0 b h hk
  · simp only [List.mem_singleton, Prod.mk.injEq] at h
    obtain ⟨rfl, rfl, rfl⟩ := h
    exact envE_step_scope h1 h2 h4 hb hk

/-! ### base and temporal score -/

theorem legal_rows {a : Str → Str} (ha : Legal a) :
    List.Forall₂ (fun x row => x ∈ row) (keys.map a) rows := by
  obtain ⟨hw, hpr, hs, -, -, -⟩ := ha
  refine .cons (legal_mem hw c!"AV" _ rfl) (.cons (legal_mem hw c!"AC" _ rfl) (.cons ?_
    (.cons (legal_mem hw c!"UI" _ rfl) (.cons ?_ (.cons (legal_mem hw c!"C" _ rfl)
    (.cons (legal_mem hw c!"I" _ rfl) (.cons (legal_mem hw c!"A" _ rfl) .nil)))))))
  · rcases hpr with h | h | h <;> rw [h] <;> decide
  · rcases hs with h | h <;> rw [h] <;> decide

theorem baseScore_nonneg (a : Str → Str) : 0 ≤ baseScore a := by
  unfold baseScore
  simp only
  have he := explOf_nonneg (decide (a c!"S" = c!"C")) (a c!"AV") (a c!"AC") (a c!"PR") (a c!"UI")
  unfold explOf at he
  split_ifs with h1 h2
  · exact le_refl _
  · apply roundup_nonneg
    apply le_min _ (by norm_num)
    exact mul_nonneg (by norm_num [r_eq]) (by linarith [not_le.mp h1])
  · apply roundup_nonneg
    apply le_min _ (by norm_num)
    linarith [not_le.mp h1]

theorem temporalFactor_upd_of_not_mem (a : Str → Str) {k : Str} (v : Str)
    (h : k ∉ [c!"E", c!"RL", c!"RC"]) : temporalFactor (upd a k v) = temporalFactor a := by
  have h1 : c!"E" ≠ k := fun e => h (e ▸ by decide)
  have h2 : c!"RL" ≠ k := fun e => h (e ▸ by decide)
  have h3 : c!"RC" ≠ k := fun e => h (e ▸ by decide)
  unfold temporalFactor
  rw [upd_ne a v h1, upd_ne a v h2, upd_ne a v h3]

end V3

end Cvss.Lemmas.Mono
