/-
  C14 (v4.0) helpers: an integer-valued, kernel-friendly shadow of `Spec.V4.rawScore`
  (`rawI`, scaled by 504000 = 10 · 60 · 840), its affine structure in the severity distances,
  and the abstract (class, distance) data of the four distance groups.
-/
import Mathlib.Tactic.Ring
import Mathlib.Tactic.Linarith
import Mathlib.Tactic.NormNum
import Mathlib.Tactic.FieldSimp
import Mathlib.Tactic.IntervalCases
import Mathlib.Algebra.Order.Floor.Ring
import Mathlib.Data.Rat.Floor
import Mathlib.Data.Nat.Cast.Field
import Cvss.Lemmas.V4Search
namespace Cvss.Lemmas.V4Mono
open Cvss Cvss.Lemmas.V4Table Cvss.Lemmas.V4Search Cvss.Lemmas.Num

/-! ### bounded quantification by structural recursion (cheap in the kernel) -/

/-- `∀ i < n, p i` -/
def allBelow (n : Nat) (p : Nat → Bool) : Bool :=
  match n with
  | 0 => true
  | k + 1 => p k && allBelow k p

theorem allBelow_iff {n : Nat} {p : Nat → Bool} : allBelow n p = true ↔ ∀ i, i < n → p i = true := by
  induction n with
  | zero => simp [allBelow]
  | succ k ih =>
    simp only [allBelow, Bool.and_eq_true, ih]
    constructor
    · rintro ⟨h1, h2⟩ i hi
      rcases Nat.lt_succ_iff_lt_or_eq.mp hi with h | h
      · exact h2 i h
      · exact h ▸ h1
    · intro h
      exact ⟨h k (Nat.lt_succ_self k), fun i hi => h i (Nat.lt_succ_of_lt hi)⟩

/-! ### positional copy of the look-up table (0 = no row), pinned to `fastLookup` by `tl_chk` -/

def tbl : List (List Nat) := [
    [100, 99, 98, 95, 95, 92, 100, 96, 93, 87, 91, 81, 93, 90, 89, 80, 81, 68],
    [98, 95, 95, 92, 90, 84, 93, 92, 89, 81, 81, 65, 88, 80, 78, 70, 69, 48],
    [0, 92, 0, 82, 0, 72, 0, 79, 0, 69, 0, 50, 0, 69, 0, 55, 0, 27],
    [99, 97, 95, 92, 92, 85, 95, 91, 90, 83, 84, 71, 92, 81, 82, 71, 72, 53],
    [95, 93, 92, 85, 85, 73, 92, 82, 80, 72, 70, 59, 84, 70, 71, 52, 50, 30],
    [0, 86, 0, 75, 0, 52, 0, 71, 0, 52, 0, 29, 0, 63, 0, 29, 0, 17],
    [98, 95, 94, 87, 91, 81, 94, 89, 86, 74, 77, 64, 87, 75, 74, 63, 63, 49],
    [94, 89, 88, 77, 76, 67, 86, 76, 74, 58, 59, 50, 72, 57, 57, 52, 52, 25],
    [0, 83, 0, 70, 0, 54, 0, 65, 0, 58, 0, 26, 0, 53, 0, 21, 0, 13],
    [95, 90, 88, 76, 76, 70, 90, 77, 75, 62, 61, 53, 77, 66, 68, 59, 52, 30],
    [89, 78, 76, 67, 62, 58, 74, 59, 57, 57, 47, 23, 61, 52, 57, 29, 24, 16],
    [0, 71, 0, 59, 0, 30, 0, 58, 0, 26, 0, 15, 0, 23, 0, 13, 0, 6],
    [93, 87, 86, 72, 75, 58, 86, 74, 74, 61, 56, 34, 70, 54, 52, 40, 40, 22],
    [85, 75, 74, 55, 62, 51, 72, 57, 55, 41, 46, 19, 53, 36, 34, 19, 19, 8],
    [0, 64, 0, 51, 0, 20, 0, 47, 0, 21, 0, 11, 0, 24, 0, 9, 0, 4],
    [88, 75, 73, 53, 60, 50, 73, 55, 59, 40, 41, 20, 54, 43, 45, 22, 20, 11],
    [75, 55, 58, 45, 40, 21, 61, 51, 48, 18, 20, 9, 46, 18, 17, 7, 8, 2],
    [0, 53, 0, 24, 0, 14, 0, 24, 0, 12, 0, 5, 0, 10, 0, 3, 0, 1]
  ]

def nth : List Nat → Nat → Nat
  | [], _ => 0
  | x :: _, 0 => x
  | _ :: r, i + 1 => nth r i

/-- table look-up in tenths -/
def tl (e1 e2 e3 e4 e5 e6 : Nat) : Option Nat :=
  if e1 < 3 && e2 < 2 && e3 < 3 && e4 < 3 && e5 < 3 && e6 < 2 then
    match nth (chunkAt tbl ((e1 * 2 + e2) * 3 + e3)) ((e4 * 3 + e5) * 2 + e6) with
    | 0 => none
    | t => some t
  else none

theorem tl_chk : (allBelow 3 fun e1 => allBelow 2 fun e2 => allBelow 3 fun e3 => allBelow 3 fun e4 =>
    allBelow 3 fun e5 => allBelow 2 fun e6 =>
      decide (fastLookup (e1, e2, e3, e4, e5, e6) = tl e1 e2 e3 e4 e5 e6)) = true := by decide +kernel

theorem keys_inRange : (Spec.V4.tableTenths.all fun p =>
    decide (p.1.1 < 3) && decide (p.1.2.1 < 2) && decide (p.1.2.2.1 < 3) && decide (p.1.2.2.2.1 < 3) &&
    decide (p.1.2.2.2.2.1 < 3) && decide (p.1.2.2.2.2.2 < 2)) = true := by decide +kernel

theorem tl_eq (e1 e2 e3 e4 e5 e6 : Nat) : fastLookup (e1, e2, e3, e4, e5, e6) = tl e1 e2 e3 e4 e5 e6 := by
  by_cases hr : e1 < 3 ∧ e2 < 2 ∧ e3 < 3 ∧ e4 < 3 ∧ e5 < 3 ∧ e6 < 2
  · obtain ⟨h1, h2, h3, h4, h5, h6⟩ := hr
    have h := tl_chk
    simp only [allBelow_iff, decide_eq_true_eq] at h
    exact h e1 h1 e2 h2 e3 h3 e4 h4 e5 h5 e6 h6
  · have h2 : tl e1 e2 e3 e4 e5 e6 = none := by
      unfold tl
      rw [if_neg]
      simpa only [Bool.and_eq_true, decide_eq_true_eq, and_assoc] using hr
    rw [h2, ← lookup_table]
    apply Cvss.Lemmas.V4.lookup_none_of_not_mem
    intro hmem
    obtain ⟨p, hp, hpk⟩ := List.mem_map.mp hmem
    have := List.all_eq_true.mp keys_inRange p hp
    simp only [Bool.and_eq_true, decide_eq_true_eq] at this
    rw [hpk] at this
    simp only at this
    exact hr ⟨this.1.1.1.1.1, this.1.1.1.1.2, this.1.1.1.2, this.1.1.2, this.1.2, this.2⟩

/-- tenths → score -/
def t10 (o : Option Nat) : Option ℚ := Option.map (fun t : ℕ => (t : ℚ) / 10) o

theorem score?_tl (e1 e2 e3 e4 e5 e6 : Nat) :
    Spec.V4.score? ⟨e1, e2, e3, e4, e5, e6⟩ = t10 (tl e1 e2 e3 e4 e5 e6) := by
  rw [score?_eq, scoreF, tl_eq]
  show Option.map _ (Option.bind (tl e1 e2 e3 e4 e5 e6) _) = _
  cases tl e1 e2 e3 e4 e5 e6 <;> rfl

theorem cast_max10 (l r : ℕ) : max ((l : ℚ) / 10) ((r : ℚ) / 10) = ((max l r : ℕ) : ℚ) / 10 := by
  rcases le_total l r with h | h
  · rw [max_eq_right h, max_eq_right]
    exact div_le_div_of_nonneg_right (by exact_mod_cast h) (by norm_num)
  · rw [max_eq_left h, max_eq_left]
    exact div_le_div_of_nonneg_right (by exact_mod_cast h) (by norm_num)

/-! ### the integer shadow of the interpolation -/

/-- `Spec.V4.lower36` in tenths -/
def low36 (e1 e2 e3 e4 e5 e6 : Nat) : Option Nat :=
  match e3, e6 with
  | 0, 0 =>
    match tl e1 e2 0 e4 e5 1, tl e1 e2 1 e4 e5 0 with
    | some l, some rr => some (max l rr)
    | some l, none => some l
    | none, some rr => some rr
    | none, none => none
  | 0, 1 => tl e1 e2 1 e4 e5 1
  | 1, 0 => tl e1 e2 1 e4 e5 1
  | 1, 1 => tl e1 e2 2 e4 e5 1
  | _, _ => none

theorem lower36_eq (e1 e2 e3 e4 e5 e6 : Nat) :
    Spec.V4.lower36 ⟨e1, e2, e3, e4, e5, e6⟩ = t10 (low36 e1 e2 e3 e4 e5 e6) := by
  unfold Spec.V4.lower36 low36
  simp only [score?_tl]
  split
  · cases tl e1 e2 0 e4 e5 1 <;> cases tl e1 e2 1 e4 e5 0 <;>
      simp only [t10, Option.map_some, Option.map_none, cast_max10]
  · rfl
  · rfl
  · rfl
  · simp only [t10, Option.map_none]

/-- (is there a next-lower macrovector, gap in tenths) -/
def gapOf (V : Nat) : Option Nat → Nat × Int
  | none => (0, 0)
  | some L => (1, (V : Int) - (L : Int))

theorem gapOf_fst_le (V : Nat) (o : Option Nat) : (gapOf V o).1 ≤ 1 := by
  cases o <;> simp [gapOf]

theorem term_gap (V : Nat) (low : Option Nat) (d D : Nat) :
    Spec.V4.term ((V : ℚ) / 10) (t10 low) d D =
      ((gapOf V low).1, (((gapOf V low).2 : ℤ) : ℚ) / 10 * ((d : ℚ) / (D : ℚ))) := by
  cases low with
  | none => simp [Spec.V4.term, gapOf, t10]
  | some L =>
    simp only [Spec.V4.term, gapOf, t10, Option.map_some]
    congr 1
    push_cast
    ring

/-- the coefficients of the affine form `rawI = base − Σ k_j · d_j` -/
structure Coef where
  base : Int
  k1 : Int
  k2 : Int
  k36 : Int
  k4 : Int

def coefs (e1 e2 e3 e4 e5 e6 : Nat) : Coef :=
  match tl e1 e2 e3 e4 e5 e6 with
  | none => ⟨0, 0, 0, 0, 0⟩
  | some V =>
    let g1 := gapOf V (tl (e1 + 1) e2 e3 e4 e5 e6)
    let g2 := gapOf V (tl e1 (e2 + 1) e3 e4 e5 e6)
    let g36 := gapOf V (low36 e1 e2 e3 e4 e5 e6)
    let g4 := gapOf V (tl e1 e2 e3 (e4 + 1) e5 e6)
    let g5 := gapOf V (tl e1 e2 e3 e4 (e5 + 1) e6)
    let q : Int := ((60 / (g1.1 + g2.1 + g36.1 + g4.1 + g5.1) : Nat) : Int)
    ⟨(V : Int) * 50400,
     g1.2 * ((840 / Spec.V4.depth1 e1 : Nat) : Int) * q,
     g2.2 * ((840 / Spec.V4.depth2 e2 : Nat) : Int) * q,
     g36.2 * ((840 / Spec.V4.depth36 e3 e6 : Nat) : Int) * q,
     g4.2 * ((840 / Spec.V4.depth4 e4 : Nat) : Int) * q⟩

/-- 504000 × the interpolated value, as a function of the macrovector and the four distances -/
def rawI (e1 e2 e3 e4 e5 e6 d1 d2 d36 d4 : Nat) : Int :=
  (coefs e1 e2 e3 e4 e5 e6).base -
    ((coefs e1 e2 e3 e4 e5 e6).k1 * d1 + (coefs e1 e2 e3 e4 e5 e6).k2 * d2 +
     (coefs e1 e2 e3 e4 e5 e6).k36 * d36 + (coefs e1 e2 e3 e4 e5 e6).k4 * d4)

theorem depth1_dvd (e : Nat) : Spec.V4.depth1 e ∣ 840 := by
  unfold Spec.V4.depth1; split <;> decide
theorem depth2_dvd (e : Nat) : Spec.V4.depth2 e ∣ 840 := by
  unfold Spec.V4.depth2; split <;> decide
theorem depth36_dvd (e3 e6 : Nat) : Spec.V4.depth36 e3 e6 ∣ 840 := by
  unfold Spec.V4.depth36; split <;> decide
theorem depth4_dvd (e : Nat) : Spec.V4.depth4 e ∣ 840 := by
  unfold Spec.V4.depth4; split <;> decide

theorem cast_div840 {D : ℕ} (h : D ∣ 840) (h0 : D ≠ 0) : ((840 / D : ℕ) : ℚ) = 840 / (D : ℚ) := by
  rw [Nat.cast_div h (by exact_mod_cast h0)]; norm_num

/-- the arithmetic core of `rawScore_rawI` -/
theorem interp_eq (V : ℕ) (x1 x2 x36 x4 x5 : ℤ) (n d1 d2 d36 d4 D1 D2 D36 D4 : ℕ) (hn : n ≤ 5)
    (h1 : D1 ∣ 840) (h2 : D2 ∣ 840) (h36 : D36 ∣ 840) (h4 : D4 ∣ 840)
    (z1 : D1 ≠ 0) (z2 : D2 ≠ 0) (z36 : D36 ≠ 0) (z4 : D4 ≠ 0) :
    (V : ℚ) / 10 - (if n = 0 then 0 else
      ((x1 : ℚ) / 10 * ((d1 : ℚ) / D1) + (x2 : ℚ) / 10 * ((d2 : ℚ) / D2) + (x36 : ℚ) / 10 * ((d36 : ℚ) / D36) +
        (x4 : ℚ) / 10 * ((d4 : ℚ) / D4) + (x5 : ℚ) / 10 * (((0 : ℕ) : ℚ) / ((1 : ℕ) : ℚ))) / (n : ℚ)) =
    (((V : ℤ) * 50400 -
      (x1 * ((840 / D1 : ℕ) : ℤ) * ((60 / n : ℕ) : ℤ) * d1 + x2 * ((840 / D2 : ℕ) : ℤ) * ((60 / n : ℕ) : ℤ) * d2 +
       x36 * ((840 / D36 : ℕ) : ℤ) * ((60 / n : ℕ) : ℤ) * d36 +
       x4 * ((840 / D4 : ℕ) : ℤ) * ((60 / n : ℕ) : ℤ) * d4) : ℤ) : ℚ) / 504000 := by
  have q1 : (D1 : ℚ) ≠ 0 := by exact_mod_cast z1
  have q2 : (D2 : ℚ) ≠ 0 := by exact_mod_cast z2
  have q36 : (D36 : ℚ) ≠ 0 := by exact_mod_cast z36
  have q4 : (D4 : ℚ) ≠ 0 := by exact_mod_cast z4
  have c1 := cast_div840 h1 z1
  have c2 := cast_div840 h2 z2
  have c36 := cast_div840 h36 z36
  have c4 := cast_div840 h4 z4
  generalize 840 / D1 = Q1 at c1 ⊢
  generalize 840 / D2 = Q2 at c2 ⊢
  generalize 840 / D36 = Q36 at c36 ⊢
  generalize 840 / D4 = Q4 at c4 ⊢
  push_cast
  rw [c1, c2, c36, c4]
  interval_cases n
  · norm_num
    ring
  all_goals
    norm_num
    field_simp
    ring

/-- the specification's interpolated value is `rawI / 504000` -/
theorem rawScore_rawI (a : Str → Str) :
    Spec.V4.rawScore a = some (((rawI (Spec.V4.macroVector a).eq1 (Spec.V4.macroVector a).eq2
      (Spec.V4.macroVector a).eq3 (Spec.V4.macroVector a).eq4 (Spec.V4.macroVector a).eq5
      (Spec.V4.macroVector a).eq6
      (Spec.V4.distance a (Spec.V4.max1 (Spec.V4.macroVector a).eq1))
      (Spec.V4.distance a (Spec.V4.max2 (Spec.V4.macroVector a).eq2))
      (Spec.V4.distance a (Spec.V4.max36 (Spec.V4.macroVector a).eq3 (Spec.V4.macroVector a).eq6))
      (Spec.V4.distance a (Spec.V4.max4 (Spec.V4.macroVector a).eq4)) : ℤ) : ℚ) / 504000) := by
  obtain ⟨value, hvalue⟩ := Option.isSome_iff_exists.mp (lookup_total a)
  unfold Spec.V4.rawScore
  generalize Spec.V4.macroVector a = mv at *
  obtain ⟨e1, e2, e3, e4, e5, e6⟩ := mv
  simp only []
  rw [score?_tl] at hvalue ⊢
  cases hV : tl e1 e2 e3 e4 e5 e6 with
  | none => rw [hV] at hvalue; cases hvalue
  | some V =>
    have hl1 : Spec.V4.lower1 ⟨e1, e2, e3, e4, e5, e6⟩ = t10 (tl (e1 + 1) e2 e3 e4 e5 e6) :=
      score?_tl _ _ _ _ _ _
    have hl2 : Spec.V4.lower2 ⟨e1, e2, e3, e4, e5, e6⟩ = t10 (tl e1 (e2 + 1) e3 e4 e5 e6) :=
      score?_tl _ _ _ _ _ _
    have hl4 : Spec.V4.lower4 ⟨e1, e2, e3, e4, e5, e6⟩ = t10 (tl e1 e2 e3 (e4 + 1) e5 e6) :=
      score?_tl _ _ _ _ _ _
    have hl5 : Spec.V4.lower5 ⟨e1, e2, e3, e4, e5, e6⟩ = t10 (tl e1 e2 e3 e4 (e5 + 1) e6) :=
      score?_tl _ _ _ _ _ _
    simp only [t10, Option.map_some]
    rw [hl1, hl2, hl4, hl5, lower36_eq]
    simp only [term_gap]
    simp only [rawI, coefs, hV]
    congr 1
    exact interp_eq V _ _ _ _ _ _ _ _ _ _ _ _ _ _
      (by
        have := gapOf_fst_le V (tl (e1 + 1) e2 e3 e4 e5 e6)
        have := gapOf_fst_le V (tl e1 (e2 + 1) e3 e4 e5 e6)
        have := gapOf_fst_le V (low36 e1 e2 e3 e4 e5 e6)
        have := gapOf_fst_le V (tl e1 e2 e3 (e4 + 1) e5 e6)
        have := gapOf_fst_le V (tl e1 e2 e3 e4 (e5 + 1) e6)
        omega)
      (depth1_dvd e1) (depth2_dvd e2) (depth36_dvd e3 e6) (depth4_dvd e4)
      (depth1_bounds e1).1 (depth2_bounds e2).1 (depth36_bounds e3 e6).1 (depth4_bounds e4).1

/-! ### an affine function on a box is bounded below by its corner minimum -/

/-- lower bound of `(k − k')·d` over `0 ≤ d ≤ m` -/
def lbO (k k' : Int) (m : Nat) : Int := min 0 ((k - k') * (m : Int))

theorem lbO_le (k k' : Int) {m d : Nat} (h : d ≤ m) : lbO k k' m ≤ k * d - k' * d := by
  unfold lbO
  have hd : (0 : Int) ≤ d := Int.natCast_nonneg d
  have hm : (d : Int) ≤ m := by exact_mod_cast h
  rcases le_total 0 (k - k') with h0 | h0
  · have : 0 ≤ (k - k') * d := mul_nonneg h0 hd
    have := min_le_left 0 ((k - k') * (m : Int))
    linarith
  · have : (k - k') * m ≤ (k - k') * d := mul_le_mul_of_nonpos_left hm h0
    have := min_le_right 0 ((k - k') * (m : Int))
    linarith

/-- the generic comparison of two affine forms -/
theorem affine_le (c c' : Coef) (d1 d1' d2 d2' d36 d36' d4 d4' : Nat) (L1 L2 L36 L4 : Int)
    (h1 : L1 ≤ c.k1 * d1 - c'.k1 * d1') (h2 : L2 ≤ c.k2 * d2 - c'.k2 * d2')
    (h36 : L36 ≤ c.k36 * d36 - c'.k36 * d36') (h4 : L4 ≤ c.k4 * d4 - c'.k4 * d4')
    (h : 0 ≤ c'.base - c.base + L1 + L2 + L36 + L4) :
    c.base - (c.k1 * d1 + c.k2 * d2 + c.k36 * d36 + c.k4 * d4) ≤
      c'.base - (c'.k1 * d1' + c'.k2 * d2' + c'.k36 * d36' + c'.k4 * d4') := by
  linarith

/-! ### largest distances per class, abstract steps -/

def dmax1 : Nat → Nat | 0 => 0 | 1 => 3 | _ => 4
def dmax2 : Nat → Nat | 0 => 0 | _ => 1
def dmax36 : Nat → Nat → Nat
  | 0, 0 => 6 | 0, _ => 5 | 1, _ => 7 | _, _ => 9
def dmax4 : Nat → Nat | 0 => 5 | 1 => 4 | _ => 3

/-- all abstract one-step transitions ((class, distance) → (class, distance)) of the four groups
    (machine-listed; completeness is `steps*_complete` below) -/
def steps1 : List ((Nat × Nat) × (Nat × Nat)) :=
  [((1, 0), (0, 0)), ((1, 1), (1, 0)), ((1, 2), (1, 1)), ((1, 3), (1, 2)), ((2, 0), (1, 1)), ((2, 1), (1, 2)), ((2, 1), (2, 0)), ((2, 2), (1, 3)), ((2, 2), (2, 1)), ((2, 3), (2, 2)), ((2, 4), (2, 3))]
def steps2 : List ((Nat × Nat) × (Nat × Nat)) :=
  [((1, 0), (0, 0)), ((1, 1), (1, 0))]
def steps36 : List ((Nat × Nat × Nat) × (Nat × Nat × Nat)) :=
  [((0, 0, 1), (0, 0, 0)), ((0, 0, 2), (0, 0, 1)), ((0, 0, 3), (0, 0, 2)), ((0, 0, 4), (0, 0, 3)), ((0, 0, 5), (0, 0, 4)), ((0, 0, 6), (0, 0, 5)), ((0, 1, 0), (0, 0, 2)), ((0, 1, 1), (0, 0, 3)), ((0, 1, 1), (0, 1, 0)), ((0, 1, 2), (0, 0, 4)), ((0, 1, 2), (0, 1, 1)), ((0, 1, 3), (0, 0, 5)), ((0, 1, 3), (0, 1, 2)), ((0, 1, 4), (0, 0, 6)), ((0, 1, 4), (0, 1, 3)), ((0, 1, 5), (0, 1, 4)), ((1, 0, 0), (0, 0, 0)), ((1, 0, 1), (0, 0, 1)), ((1, 0, 1), (1, 0, 0)), ((1, 0, 2), (0, 0, 2)), ((1, 0, 2), (1, 0, 1)), ((1, 0, 3), (0, 0, 3)), ((1, 0, 3), (1, 0, 2)), ((1, 0, 4), (0, 0, 4)), ((1, 0, 4), (1, 0, 3)), ((1, 0, 5), (0, 0, 5)), ((1, 0, 5), (1, 0, 4)), ((1, 0, 6), (0, 0, 6)), ((1, 0, 6), (1, 0, 5)), ((1, 0, 7), (1, 0, 6)), ((1, 1, 0), (0, 0, 2)), ((1, 1, 0), (1, 0, 1)), ((1, 1, 1), (0, 0, 3)), ((1, 1, 1), (0, 1, 0)), ((1, 1, 1), (1, 0, 2)), ((1, 1, 1), (1, 1, 0)), ((1, 1, 2), (0, 0, 4)), ((1, 1, 2), (0, 1, 1)), ((1, 1, 2), (1, 0, 3)), ((1, 1, 2), (1, 1, 1)), ((1, 1, 3), (0, 0, 5)), ((1, 1, 3), (0, 1, 2)), ((1, 1, 3), (1, 0, 4)), ((1, 1, 3), (1, 1, 2)), ((1, 1, 4), (0, 0, 6)), ((1, 1, 4), (0, 1, 3)), ((1, 1, 4), (1, 0, 5)), ((1, 1, 4), (1, 1, 3)), ((1, 1, 5), (0, 1, 4)), ((1, 1, 5), (1, 0, 6)), ((1, 1, 5), (1, 1, 4)), ((1, 1, 6), (0, 1, 5)), ((1, 1, 6), (1, 0, 7)), ((1, 1, 6), (1, 1, 5)), ((1, 1, 7), (1, 1, 6)), ((2, 1, 0), (1, 0, 1)), ((2, 1, 1), (1, 0, 2)), ((2, 1, 1), (1, 1, 0)), ((2, 1, 1), (2, 1, 0)), ((2, 1, 2), (1, 0, 3)), ((2, 1, 2), (1, 1, 1)), ((2, 1, 2), (2, 1, 1)), ((2, 1, 3), (1, 0, 4)), ((2, 1, 3), (1, 1, 2)), ((2, 1, 3), (2, 1, 2)), ((2, 1, 4), (1, 0, 5)), ((2, 1, 4), (1, 1, 3)), ((2, 1, 4), (2, 1, 3)), ((2, 1, 5), (1, 0, 6)), ((2, 1, 5), (1, 1, 4)), ((2, 1, 5), (2, 1, 4)), ((2, 1, 6), (1, 0, 7)), ((2, 1, 6), (1, 1, 5)), ((2, 1, 6), (2, 1, 5)), ((2, 1, 7), (1, 1, 6)), ((2, 1, 7), (2, 1, 6)), ((2, 1, 8), (1, 1, 7)), ((2, 1, 8), (2, 1, 7)), ((2, 1, 9), (2, 1, 8))]
def steps4 : List ((Nat × Nat) × (Nat × Nat)) :=
  [((0, 1), (0, 0)), ((0, 2), (0, 1)), ((0, 3), (0, 2)), ((0, 4), (0, 3)), ((0, 5), (0, 4)), ((1, 0), (0, 1)), ((1, 1), (0, 2)), ((1, 1), (1, 0)), ((1, 2), (0, 3)), ((1, 2), (1, 1)), ((1, 3), (0, 4)), ((1, 3), (1, 2)), ((1, 4), (0, 5)), ((1, 4), (1, 3)), ((2, 0), (1, 2)), ((2, 1), (1, 3)), ((2, 1), (2, 0)), ((2, 2), (1, 4)), ((2, 2), (2, 1)), ((2, 3), (2, 2))]

/-- a step of group 1 (AV, PR, UI) in the context of the other classes -/
def ok1 (s : (Nat × Nat) × (Nat × Nat)) (e2 e3 e4 e5 e6 : Nat) : Bool :=
  let c := coefs s.1.1 e2 e3 e4 e5 e6
  let c' := coefs s.2.1 e2 e3 e4 e5 e6
  decide (0 ≤ c'.base - c.base + (c.k1 * (s.1.2 : Int) - c'.k1 * (s.2.2 : Int)) + lbO c.k2 c'.k2 (dmax2 e2) +
    lbO c.k36 c'.k36 (dmax36 e3 e6) + lbO c.k4 c'.k4 (dmax4 e4))

def ok2 (s : (Nat × Nat) × (Nat × Nat)) (e1 e3 e4 e5 e6 : Nat) : Bool :=
  let c := coefs e1 s.1.1 e3 e4 e5 e6
  let c' := coefs e1 s.2.1 e3 e4 e5 e6
  decide (0 ≤ c'.base - c.base + lbO c.k1 c'.k1 (dmax1 e1) + (c.k2 * (s.1.2 : Int) - c'.k2 * (s.2.2 : Int)) +
    lbO c.k36 c'.k36 (dmax36 e3 e6) + lbO c.k4 c'.k4 (dmax4 e4))

def ok36 (s : (Nat × Nat × Nat) × (Nat × Nat × Nat)) (e1 e2 e4 e5 : Nat) : Bool :=
  let c := coefs e1 e2 s.1.1 e4 e5 s.1.2.1
  let c' := coefs e1 e2 s.2.1 e4 e5 s.2.2.1
  decide (0 ≤ c'.base - c.base + lbO c.k1 c'.k1 (dmax1 e1) + lbO c.k2 c'.k2 (dmax2 e2) +
    (c.k36 * (s.1.2.2 : Int) - c'.k36 * (s.2.2.2 : Int)) + lbO c.k4 c'.k4 (dmax4 e4))

def ok4 (s : (Nat × Nat) × (Nat × Nat)) (e1 e2 e3 e5 e6 : Nat) : Bool :=
  let c := coefs e1 e2 e3 s.1.1 e5 e6
  let c' := coefs e1 e2 e3 s.2.1 e5 e6
  decide (0 ≤ c'.base - c.base + lbO c.k1 c'.k1 (dmax1 e1) + lbO c.k2 c'.k2 (dmax2 e2) +
    lbO c.k36 c'.k36 (dmax36 e3 e6) + (c.k4 * (s.1.2 : Int) - c'.k4 * (s.2.2 : Int)))

/-- a step of E (class EQ5, no distance): `e5 + 1 → e5` -/
def ok5 (e5 e1 e2 e3 e4 e6 : Nat) : Bool :=
  let c := coefs e1 e2 e3 e4 (e5 + 1) e6
  let c' := coefs e1 e2 e3 e4 e5 e6
  decide (0 ≤ c'.base - c.base + lbO c.k1 c'.k1 (dmax1 e1) + lbO c.k2 c'.k2 (dmax2 e2) +
    lbO c.k36 c'.k36 (dmax36 e3 e6) + lbO c.k4 c'.k4 (dmax4 e4))

/-! ### soundness of the checkers -/

theorem ok1_sound {s : (Nat × Nat) × (Nat × Nat)} {e2 e3 e4 e5 e6 d2 d36 d4 : Nat}
    (h : ok1 s e2 e3 e4 e5 e6 = true) (h2 : d2 ≤ dmax2 e2) (h36 : d36 ≤ dmax36 e3 e6) (h4 : d4 ≤ dmax4 e4) :
    rawI s.1.1 e2 e3 e4 e5 e6 s.1.2 d2 d36 d4 ≤ rawI s.2.1 e2 e3 e4 e5 e6 s.2.2 d2 d36 d4 := by
  unfold ok1 at h
  simp only [decide_eq_true_eq] at h
  unfold rawI
  exact affine_le _ _ _ _ _ _ _ _ _ _ _ _ _ _ (le_refl _) (lbO_le _ _ h2) (lbO_le _ _ h36) (lbO_le _ _ h4)
    (by linarith)

theorem ok2_sound {s : (Nat × Nat) × (Nat × Nat)} {e1 e3 e4 e5 e6 d1 d36 d4 : Nat}
    (h : ok2 s e1 e3 e4 e5 e6 = true) (h1 : d1 ≤ dmax1 e1) (h36 : d36 ≤ dmax36 e3 e6) (h4 : d4 ≤ dmax4 e4) :
    rawI e1 s.1.1 e3 e4 e5 e6 d1 s.1.2 d36 d4 ≤ rawI e1 s.2.1 e3 e4 e5 e6 d1 s.2.2 d36 d4 := by
  unfold ok2 at h
  simp only [decide_eq_true_eq] at h
  unfold rawI
  exact affine_le _ _ _ _ _ _ _ _ _ _ _ _ _ _ (lbO_le _ _ h1) (le_refl _) (lbO_le _ _ h36) (lbO_le _ _ h4)
    (by linarith)

theorem ok36_sound {s : (Nat × Nat × Nat) × (Nat × Nat × Nat)} {e1 e2 e4 e5 d1 d2 d4 : Nat}
    (h : ok36 s e1 e2 e4 e5 = true) (h1 : d1 ≤ dmax1 e1) (h2 : d2 ≤ dmax2 e2) (h4 : d4 ≤ dmax4 e4) :
    rawI e1 e2 s.1.1 e4 e5 s.1.2.1 d1 d2 s.1.2.2 d4 ≤ rawI e1 e2 s.2.1 e4 e5 s.2.2.1 d1 d2 s.2.2.2 d4 := by
  unfold ok36 at h
  simp only [decide_eq_true_eq] at h
  unfold rawI
  exact affine_le _ _ _ _ _ _ _ _ _ _ _ _ _ _ (lbO_le _ _ h1) (lbO_le _ _ h2) (le_refl _) (lbO_le _ _ h4)
    (by linarith)

theorem ok4_sound {s : (Nat × Nat) × (Nat × Nat)} {e1 e2 e3 e5 e6 d1 d2 d36 : Nat}
    (h : ok4 s e1 e2 e3 e5 e6 = true) (h1 : d1 ≤ dmax1 e1) (h2 : d2 ≤ dmax2 e2) (h36 : d36 ≤ dmax36 e3 e6) :
    rawI e1 e2 e3 s.1.1 e5 e6 d1 d2 d36 s.1.2 ≤ rawI e1 e2 e3 s.2.1 e5 e6 d1 d2 d36 s.2.2 := by
  unfold ok4 at h
  simp only [decide_eq_true_eq] at h
  unfold rawI
  exact affine_le _ _ _ _ _ _ _ _ _ _ _ _ _ _ (lbO_le _ _ h1) (lbO_le _ _ h2) (lbO_le _ _ h36) (le_refl _)
    (by linarith)

theorem ok5_sound {e5 e1 e2 e3 e4 e6 d1 d2 d36 d4 : Nat}
    (h : ok5 e5 e1 e2 e3 e4 e6 = true) (h1 : d1 ≤ dmax1 e1) (h2 : d2 ≤ dmax2 e2) (h36 : d36 ≤ dmax36 e3 e6)
    (h4 : d4 ≤ dmax4 e4) :
    rawI e1 e2 e3 e4 (e5 + 1) e6 d1 d2 d36 d4 ≤ rawI e1 e2 e3 e4 e5 e6 d1 d2 d36 d4 := by
  unfold ok5 at h
  simp only [decide_eq_true_eq] at h
  unfold rawI
  exact affine_le _ _ _ _ _ _ _ _ _ _ _ _ _ _ (lbO_le _ _ h1) (lbO_le _ _ h2) (lbO_le _ _ h36) (lbO_le _ _ h4)
    (by linarith)

/-- the five finite obligations (proved by kernel evaluation in `Props/C14V4Tables*.lean`) -/
def Chk1 : Prop := (steps1.all fun s => allBelow 2 fun e2 => allBelow 3 fun e3 => allBelow 3 fun e4 =>
    allBelow 3 fun e5 => allBelow 2 fun e6 => ok1 s e2 e3 e4 e5 e6) = true
def Chk2 : Prop := (steps2.all fun s => allBelow 3 fun e1 => allBelow 3 fun e3 => allBelow 3 fun e4 =>
    allBelow 3 fun e5 => allBelow 2 fun e6 => ok2 s e1 e3 e4 e5 e6) = true
def Chk36 (e1 : Nat) : Prop := (steps36.all fun s => allBelow 2 fun e2 => allBelow 3 fun e4 =>
    allBelow 3 fun e5 => ok36 s e1 e2 e4 e5) = true
def Chk4 : Prop := (steps4.all fun s => allBelow 3 fun e1 => allBelow 2 fun e2 => allBelow 3 fun e3 =>
    allBelow 3 fun e5 => allBelow 2 fun e6 => ok4 s e1 e2 e3 e5 e6) = true
def Chk5 : Prop := (allBelow 2 fun e5 => allBelow 3 fun e1 => allBelow 2 fun e2 => allBelow 3 fun e3 =>
    allBelow 3 fun e4 => allBelow 2 fun e6 => ok5 e5 e1 e2 e3 e4 e6) = true

/-! ### (class, distance) of a group as a function of its levels; completeness of the step lists -/

def dist1 (av pr ui : Nat) : Nat := distanceN [av, pr, ui] (max1N (eq1N av pr ui))
def dist2 (ac at' : Nat) : Nat := distanceN [ac, at'] (max2N (eq2N ac at'))
def dist36 (vc vi va cr ir ar : Nat) : Nat :=
  distanceN [vc, vi, va, cr, ir, ar] (max36N (eq3N vc vi va) (eq6N vc vi va cr ir ar))
def dist4 (sc si sa : Nat) : Nat := distanceN [sc, si, sa] (max4N (eq4N sc si sa))

def abs1 (av pr ui : Nat) : Nat × Nat := (eq1N av pr ui, dist1 av pr ui)
def abs2 (ac at' : Nat) : Nat × Nat := (eq2N ac at', dist2 ac at')
def abs36 (vc vi va cr ir ar : Nat) : Nat × Nat × Nat :=
  (eq3N vc vi va, eq6N vc vi va cr ir ar, dist36 vc vi va cr ir ar)
def abs4 (sc si sa : Nat) : Nat × Nat := (eq4N sc si sa, dist4 sc si sa)

theorem cmp1 : (allBelow 4 fun av => allBelow 3 fun pr => allBelow 3 fun ui =>
    decide (dist1 av pr ui ≤ dmax1 (eq1N av pr ui)) &&
    (av == 0 || steps1.contains (abs1 av pr ui, abs1 (av - 1) pr ui)) &&
    (pr == 0 || steps1.contains (abs1 av pr ui, abs1 av (pr - 1) ui)) &&
    (ui == 0 || steps1.contains (abs1 av pr ui, abs1 av pr (ui - 1)))) = true := by decide +kernel

theorem cmp2 : (allBelow 2 fun ac => allBelow 2 fun at' =>
    decide (dist2 ac at' ≤ dmax2 (eq2N ac at')) &&
    (ac == 0 || steps2.contains (abs2 ac at', abs2 (ac - 1) at')) &&
    (at' == 0 || steps2.contains (abs2 ac at', abs2 ac (at' - 1)))) = true := by decide +kernel

/-- completeness of `steps36` and the distance bound of group 36 (729 level tuples; proved by kernel
    evaluation in `Props/C14V4Tables0.lean`) -/
def Cmp36 : Prop := (allBelow 3 fun vc => allBelow 3 fun vi => allBelow 3 fun va => allBelow 3 fun cr =>
    allBelow 3 fun ir => allBelow 3 fun ar =>
    decide (dist36 vc vi va cr ir ar ≤ dmax36 (eq3N vc vi va) (eq6N vc vi va cr ir ar)) &&
    (vc == 0 || steps36.contains (abs36 vc vi va cr ir ar, abs36 (vc - 1) vi va cr ir ar)) &&
    (vi == 0 || steps36.contains (abs36 vc vi va cr ir ar, abs36 vc (vi - 1) va cr ir ar)) &&
    (va == 0 || steps36.contains (abs36 vc vi va cr ir ar, abs36 vc vi (va - 1) cr ir ar)) &&
    (cr == 0 || steps36.contains (abs36 vc vi va cr ir ar, abs36 vc vi va (cr - 1) ir ar)) &&
    (ir == 0 || steps36.contains (abs36 vc vi va cr ir ar, abs36 vc vi va cr (ir - 1) ar)) &&
    (ar == 0 || steps36.contains (abs36 vc vi va cr ir ar, abs36 vc vi va cr ir (ar - 1)))) = true

/-- SC has no level 0 -/
theorem cmp4 : (allBelow 4 fun sc => allBelow 4 fun si => allBelow 4 fun sa =>
    sc == 0 ||
    (decide (dist4 sc si sa ≤ dmax4 (eq4N sc si sa)) &&
    (sc == 1 || steps4.contains (abs4 sc si sa, abs4 (sc - 1) si sa)) &&
    (si == 0 || steps4.contains (abs4 sc si sa, abs4 sc (si - 1) sa)) &&
    (sa == 0 || steps4.contains (abs4 sc si sa, abs4 sc si (sa - 1))))) = true := by decide +kernel

/-! ### ranges of the numeric macrovector components -/

theorem eq1N_lt (av pr ui : Nat) : eq1N av pr ui < 3 := by unfold eq1N; split_ifs <;> omega
theorem eq2N_lt (ac at' : Nat) : eq2N ac at' < 2 := by unfold eq2N; split_ifs <;> omega
theorem eq3N_lt (vc vi va : Nat) : eq3N vc vi va < 3 := by unfold eq3N; split_ifs <;> omega
theorem eq4N_lt (sc si sa : Nat) : eq4N sc si sa < 3 := by unfold eq4N; split_ifs <;> omega
theorem eq6N_lt (vc vi va cr ir ar : Nat) : eq6N vc vi va cr ir ar < 2 := by unfold eq6N; split_ifs <;> omega

/-! ### one severity step inside a group -/

def Step2 (x y x' y' : Nat) : Prop := (x' + 1 = x ∧ y' = y) ∨ (x' = x ∧ y' + 1 = y)
def Step3 (x y z x' y' z' : Nat) : Prop :=
  (x' + 1 = x ∧ y' = y ∧ z' = z) ∨ (x' = x ∧ y' + 1 = y ∧ z' = z) ∨ (x' = x ∧ y' = y ∧ z' + 1 = z)
def Step6 (x y z u v w x' y' z' u' v' w' : Nat) : Prop :=
  (x' + 1 = x ∧ y' = y ∧ z' = z ∧ u' = u ∧ v' = v ∧ w' = w) ∨
  (x' = x ∧ y' + 1 = y ∧ z' = z ∧ u' = u ∧ v' = v ∧ w' = w) ∨
  (x' = x ∧ y' = y ∧ z' + 1 = z ∧ u' = u ∧ v' = v ∧ w' = w) ∨
  (x' = x ∧ y' = y ∧ z' = z ∧ u' + 1 = u ∧ v' = v ∧ w' = w) ∨
  (x' = x ∧ y' = y ∧ z' = z ∧ u' = u ∧ v' + 1 = v ∧ w' = w) ∨
  (x' = x ∧ y' = y ∧ z' = z ∧ u' = u ∧ v' = v ∧ w' + 1 = w)

theorem g1_facts {av pr ui : Nat} (h1 : av < 4) (h2 : pr < 3) (h3 : ui < 3) :
    dist1 av pr ui ≤ dmax1 (eq1N av pr ui) ∧
    (av ≠ 0 → (abs1 av pr ui, abs1 (av - 1) pr ui) ∈ steps1) ∧
    (pr ≠ 0 → (abs1 av pr ui, abs1 av (pr - 1) ui) ∈ steps1) ∧
    (ui ≠ 0 → (abs1 av pr ui, abs1 av pr (ui - 1)) ∈ steps1) := by
  have h := cmp1
  simp only [allBelow_iff, Bool.and_eq_true, Bool.or_eq_true, decide_eq_true_eq, beq_iff_eq,
    List.contains_iff_mem] at h
  obtain ⟨⟨⟨a, b⟩, c⟩, d⟩ := h av h1 pr h2 ui h3
  exact ⟨a, fun h => b.resolve_left h, fun h => c.resolve_left h, fun h => d.resolve_left h⟩

theorem step1_mem {av pr ui av' pr' ui' : Nat} (h1 : av < 4) (h2 : pr < 3) (h3 : ui < 3)
    (hs : Step3 av pr ui av' pr' ui') : (abs1 av pr ui, abs1 av' pr' ui') ∈ steps1 := by
  obtain ⟨_, f1, f2, f3⟩ := g1_facts h1 h2 h3
  rcases hs with ⟨h, rfl, rfl⟩ | ⟨rfl, h, rfl⟩ | ⟨rfl, rfl, h⟩
  · obtain rfl : av' = av - 1 := by omega
    exact f1 (by omega)
  · obtain rfl : pr' = pr - 1 := by omega
    exact f2 (by omega)
  · obtain rfl : ui' = ui - 1 := by omega
    exact f3 (by omega)

theorem g2_facts {ac at' : Nat} (h1 : ac < 2) (h2 : at' < 2) :
    dist2 ac at' ≤ dmax2 (eq2N ac at') ∧
    (ac ≠ 0 → (abs2 ac at', abs2 (ac - 1) at') ∈ steps2) ∧
    (at' ≠ 0 → (abs2 ac at', abs2 ac (at' - 1)) ∈ steps2) := by
  have h := cmp2
  simp only [allBelow_iff, Bool.and_eq_true, Bool.or_eq_true, decide_eq_true_eq, beq_iff_eq,
    List.contains_iff_mem] at h
  obtain ⟨⟨a, b⟩, c⟩ := h ac h1 at' h2
  exact ⟨a, fun h => b.resolve_left h, fun h => c.resolve_left h⟩

theorem step2_mem {ac at' ac' at'' : Nat} (h1 : ac < 2) (h2 : at' < 2)
    (hs : Step2 ac at' ac' at'') : (abs2 ac at', abs2 ac' at'') ∈ steps2 := by
  obtain ⟨_, f1, f2⟩ := g2_facts h1 h2
  rcases hs with ⟨h, rfl⟩ | ⟨rfl, h⟩
  · obtain rfl : ac' = ac - 1 := by omega
    exact f1 (by omega)
  · obtain rfl : at'' = at' - 1 := by omega
    exact f2 (by omega)

theorem g36_facts (hc : Cmp36) {vc vi va cr ir ar : Nat} (h1 : vc < 3) (h2 : vi < 3) (h3 : va < 3)
    (h4 : cr < 3) (h5 : ir < 3) (h6 : ar < 3) :
    dist36 vc vi va cr ir ar ≤ dmax36 (eq3N vc vi va) (eq6N vc vi va cr ir ar) ∧
    (vc ≠ 0 → (abs36 vc vi va cr ir ar, abs36 (vc - 1) vi va cr ir ar) ∈ steps36) ∧
    (vi ≠ 0 → (abs36 vc vi va cr ir ar, abs36 vc (vi - 1) va cr ir ar) ∈ steps36) ∧
    (va ≠ 0 → (abs36 vc vi va cr ir ar, abs36 vc vi (va - 1) cr ir ar) ∈ steps36) ∧
    (cr ≠ 0 → (abs36 vc vi va cr ir ar, abs36 vc vi va (cr - 1) ir ar) ∈ steps36) ∧
    (ir ≠ 0 → (abs36 vc vi va cr ir ar, abs36 vc vi va cr (ir - 1) ar) ∈ steps36) ∧
    (ar ≠ 0 → (abs36 vc vi va cr ir ar, abs36 vc vi va cr ir (ar - 1)) ∈ steps36) := by
  have h := hc
  unfold Cmp36 at h
  simp only [allBelow_iff, Bool.and_eq_true, Bool.or_eq_true, decide_eq_true_eq, beq_iff_eq,
    List.contains_iff_mem] at h
  obtain ⟨⟨⟨⟨⟨⟨a, b⟩, c⟩, d⟩, e⟩, f⟩, g⟩ := h vc h1 vi h2 va h3 cr h4 ir h5 ar h6
  exact ⟨a, fun h => b.resolve_left h, fun h => c.resolve_left h, fun h => d.resolve_left h,
    fun h => e.resolve_left h, fun h => f.resolve_left h, fun h => g.resolve_left h⟩

theorem step36_mem (hc : Cmp36) {vc vi va cr ir ar vc' vi' va' cr' ir' ar' : Nat} (h1 : vc < 3) (h2 : vi < 3)
    (h3 : va < 3) (h4 : cr < 3) (h5 : ir < 3) (h6 : ar < 3)
    (hs : Step6 vc vi va cr ir ar vc' vi' va' cr' ir' ar') :
    (abs36 vc vi va cr ir ar, abs36 vc' vi' va' cr' ir' ar') ∈ steps36 := by
  obtain ⟨_, f1, f2, f3, f4, f5, f6⟩ := g36_facts hc h1 h2 h3 h4 h5 h6
  rcases hs with ⟨h, rfl, rfl, rfl, rfl, rfl⟩ | ⟨rfl, h, rfl, rfl, rfl, rfl⟩ | ⟨rfl, rfl, h, rfl, rfl, rfl⟩ |
    ⟨rfl, rfl, rfl, h, rfl, rfl⟩ | ⟨rfl, rfl, rfl, rfl, h, rfl⟩ | ⟨rfl, rfl, rfl, rfl, rfl, h⟩
  · obtain rfl : vc' = vc - 1 := by omega
    exact f1 (by omega)
  · obtain rfl : vi' = vi - 1 := by omega
    exact f2 (by omega)
  · obtain rfl : va' = va - 1 := by omega
    exact f3 (by omega)
  · obtain rfl : cr' = cr - 1 := by omega
    exact f4 (by omega)
  · obtain rfl : ir' = ir - 1 := by omega
    exact f5 (by omega)
  · obtain rfl : ar' = ar - 1 := by omega
    exact f6 (by omega)

theorem g4_facts {sc si sa : Nat} (h0 : 1 ≤ sc) (h1 : sc < 4) (h2 : si < 4) (h3 : sa < 4) :
    dist4 sc si sa ≤ dmax4 (eq4N sc si sa) ∧
    (sc ≠ 1 → (abs4 sc si sa, abs4 (sc - 1) si sa) ∈ steps4) ∧
    (si ≠ 0 → (abs4 sc si sa, abs4 sc (si - 1) sa) ∈ steps4) ∧
    (sa ≠ 0 → (abs4 sc si sa, abs4 sc si (sa - 1)) ∈ steps4) := by
  have h := cmp4
  simp only [allBelow_iff, Bool.and_eq_true, Bool.or_eq_true, decide_eq_true_eq, beq_iff_eq,
    List.contains_iff_mem] at h
  rcases h sc h1 si h2 sa h3 with h | ⟨⟨⟨a, b⟩, c⟩, d⟩
  · omega
  · exact ⟨a, fun h => b.resolve_left h, fun h => c.resolve_left h, fun h => d.resolve_left h⟩

/-- the stepped SC level must itself be a level of SC (≥ 1) -/
theorem step4_mem {sc si sa sc' si' sa' : Nat} (h0 : 1 ≤ sc) (h1 : sc < 4) (h2 : si < 4) (h3 : sa < 4)
    (h0' : 1 ≤ sc') (hs : Step3 sc si sa sc' si' sa') : (abs4 sc si sa, abs4 sc' si' sa') ∈ steps4 := by
  obtain ⟨_, f1, f2, f3⟩ := g4_facts h0 h1 h2 h3
  rcases hs with ⟨h, rfl, rfl⟩ | ⟨rfl, h, rfl⟩ | ⟨rfl, rfl, h⟩
  · obtain rfl : sc' = sc - 1 := by omega
    exact f1 (by omega)
  · obtain rfl : si' = si - 1 := by omega
    exact f2 (by omega)
  · obtain rfl : sa' = sa - 1 := by omega
    exact f3 (by omega)

/-! ### monotonicity of `rawI` along one step of a group, in every admissible context -/

theorem mono_g1 (hc : Chk1) {av pr ui av' pr' ui' : Nat} (h1 : av < 4) (h2 : pr < 3) (h3 : ui < 3)
    (hs : Step3 av pr ui av' pr' ui') {e2 e3 e4 e5 e6 d2 d36 d4 : Nat} (he2 : e2 < 2) (he3 : e3 < 3)
    (he4 : e4 < 3) (he5 : e5 < 3) (he6 : e6 < 2) (hd2 : d2 ≤ dmax2 e2) (hd36 : d36 ≤ dmax36 e3 e6)
    (hd4 : d4 ≤ dmax4 e4) :
    rawI (eq1N av pr ui) e2 e3 e4 e5 e6 (dist1 av pr ui) d2 d36 d4 ≤
      rawI (eq1N av' pr' ui') e2 e3 e4 e5 e6 (dist1 av' pr' ui') d2 d36 d4 := by
  have hok := hc
  unfold Chk1 at hok
  rw [List.all_eq_true] at hok
  have hok := hok _ (step1_mem h1 h2 h3 hs)
  simp only [allBelow_iff] at hok
  exact ok1_sound (s := (abs1 av pr ui, abs1 av' pr' ui')) (hok e2 he2 e3 he3 e4 he4 e5 he5 e6 he6)
    hd2 hd36 hd4

theorem mono_g2 (hc : Chk2) {ac at' ac' at'' : Nat} (h1 : ac < 2) (h2 : at' < 2)
    (hs : Step2 ac at' ac' at'') {e1 e3 e4 e5 e6 d1 d36 d4 : Nat} (he1 : e1 < 3) (he3 : e3 < 3)
    (he4 : e4 < 3) (he5 : e5 < 3) (he6 : e6 < 2) (hd1 : d1 ≤ dmax1 e1) (hd36 : d36 ≤ dmax36 e3 e6)
    (hd4 : d4 ≤ dmax4 e4) :
    rawI e1 (eq2N ac at') e3 e4 e5 e6 d1 (dist2 ac at') d36 d4 ≤
      rawI e1 (eq2N ac' at'') e3 e4 e5 e6 d1 (dist2 ac' at'') d36 d4 := by
  have hok := hc
  unfold Chk2 at hok
  rw [List.all_eq_true] at hok
  have hok := hok _ (step2_mem h1 h2 hs)
  simp only [allBelow_iff] at hok
  exact ok2_sound (s := (abs2 ac at', abs2 ac' at'')) (hok e1 he1 e3 he3 e4 he4 e5 he5 e6 he6)
    hd1 hd36 hd4

theorem mono_g36 (hcmp : Cmp36) (hc : ∀ e1 < 3, Chk36 e1) {vc vi va cr ir ar vc' vi' va' cr' ir' ar' : Nat}
    (h1 : vc < 3) (h2 : vi < 3) (h3 : va < 3) (h4 : cr < 3) (h5 : ir < 3) (h6 : ar < 3)
    (hs : Step6 vc vi va cr ir ar vc' vi' va' cr' ir' ar') {e1 e2 e4 e5 d1 d2 d4 : Nat} (he1 : e1 < 3)
    (he2 : e2 < 2) (he4 : e4 < 3) (he5 : e5 < 3) (hd1 : d1 ≤ dmax1 e1) (hd2 : d2 ≤ dmax2 e2)
    (hd4 : d4 ≤ dmax4 e4) :
    rawI e1 e2 (eq3N vc vi va) e4 e5 (eq6N vc vi va cr ir ar) d1 d2 (dist36 vc vi va cr ir ar) d4 ≤
      rawI e1 e2 (eq3N vc' vi' va') e4 e5 (eq6N vc' vi' va' cr' ir' ar') d1 d2
        (dist36 vc' vi' va' cr' ir' ar') d4 := by
  have hok := hc e1 he1
  unfold Chk36 at hok
  rw [List.all_eq_true] at hok
  have hok := hok _ (step36_mem hcmp h1 h2 h3 h4 h5 h6 hs)
  simp only [allBelow_iff] at hok
  exact ok36_sound (s := (abs36 vc vi va cr ir ar, abs36 vc' vi' va' cr' ir' ar'))
    (hok e2 he2 e4 he4 e5 he5) hd1 hd2 hd4

theorem mono_g4 (hc : Chk4) {sc si sa sc' si' sa' : Nat} (h0 : 1 ≤ sc) (h1 : sc < 4) (h2 : si < 4)
    (h3 : sa < 4) (h0' : 1 ≤ sc') (hs : Step3 sc si sa sc' si' sa') {e1 e2 e3 e5 e6 d1 d2 d36 : Nat}
    (he1 : e1 < 3) (he2 : e2 < 2) (he3 : e3 < 3) (he5 : e5 < 3) (he6 : e6 < 2) (hd1 : d1 ≤ dmax1 e1)
    (hd2 : d2 ≤ dmax2 e2) (hd36 : d36 ≤ dmax36 e3 e6) :
    rawI e1 e2 e3 (eq4N sc si sa) e5 e6 d1 d2 d36 (dist4 sc si sa) ≤
      rawI e1 e2 e3 (eq4N sc' si' sa') e5 e6 d1 d2 d36 (dist4 sc' si' sa') := by
  have hok := hc
  unfold Chk4 at hok
  rw [List.all_eq_true] at hok
  have hok := hok _ (step4_mem h0 h1 h2 h3 h0' hs)
  simp only [allBelow_iff] at hok
  exact ok4_sound (s := (abs4 sc si sa, abs4 sc' si' sa')) (hok e1 he1 e2 he2 e3 he3 e5 he5 e6 he6)
    hd1 hd2 hd36

theorem mono_g5 (hc : Chk5) {e5 e5' : Nat} (hs : e5' + 1 = e5) (h5 : e5 < 3) {e1 e2 e3 e4 e6 d1 d2 d36 d4 : Nat}
    (he1 : e1 < 3) (he2 : e2 < 2) (he3 : e3 < 3) (he4 : e4 < 3) (he6 : e6 < 2) (hd1 : d1 ≤ dmax1 e1)
    (hd2 : d2 ≤ dmax2 e2) (hd36 : d36 ≤ dmax36 e3 e6) (hd4 : d4 ≤ dmax4 e4) :
    rawI e1 e2 e3 e4 e5 e6 d1 d2 d36 d4 ≤ rawI e1 e2 e3 e4 e5' e6 d1 d2 d36 d4 := by
  subst hs
  have hok := hc
  unfold Chk5 at hok
  simp only [allBelow_iff] at hok
  exact ok5_sound (hok e5' (by omega) e1 he1 e2 he2 e3 he3 e4 he4 e6 he6) hd1 hd2 hd36 hd4

/-! ### the interpolated value as a function of the severity levels -/

section levels
variable {a : Str → Str} (hl : LegalEff a)
include hl

theorem distance1_eq : Spec.V4.distance a (Spec.V4.max1 (Spec.V4.macroVector a).eq1) =
    dist1 (lv a c!"AV") (lv a c!"PR") (lv a c!"UI") := by
  obtain ⟨f1, f2⟩ := max1_facts _ (mv_bounds a).1
  rw [distance_eq a K1 _ (wf_keys f2), f1, eq1_eq hl]; rfl

theorem distance2_eq : Spec.V4.distance a (Spec.V4.max2 (Spec.V4.macroVector a).eq2) =
    dist2 (lv a c!"AC") (lv a c!"AT") := by
  obtain ⟨f1, f2⟩ := max2_facts _ (mv_bounds a).2.1
  rw [distance_eq a K2 _ (wf_keys f2), f1, eq2_eq hl]; rfl

theorem distance36_eq :
    Spec.V4.distance a (Spec.V4.max36 (Spec.V4.macroVector a).eq3 (Spec.V4.macroVector a).eq6) =
    dist36 (lv a c!"VC") (lv a c!"VI") (lv a c!"VA") (lv a c!"CR") (lv a c!"IR") (lv a c!"AR") := by
  obtain ⟨f1, f2⟩ := max36_facts _ (mv_bounds a).2.2.1 _ (mv_bounds a).2.2.2.2.2.1
  rw [distance_eq a K36 _ (wf_keys f2), f1, eq3_eq hl, eq6_eq hl]; rfl

theorem distance4_eq : Spec.V4.distance a (Spec.V4.max4 (Spec.V4.macroVector a).eq4) =
    dist4 (lv a c!"SC") (lv a c!"SI") (lv a c!"SA") := by
  obtain ⟨f1, f2⟩ := max4_facts _ (mv_bounds a).2.2.2.1
  rw [distance_eq a K4 _ (wf_keys f2), f1, eq4_eq hl]; rfl

/-- `Spec.V4.rawScore` through the numeric shadow -/
theorem rawScore_levels :
    Spec.V4.rawScore a = some (((rawI
      (eq1N (lv a c!"AV") (lv a c!"PR") (lv a c!"UI")) (eq2N (lv a c!"AC") (lv a c!"AT"))
      (eq3N (lv a c!"VC") (lv a c!"VI") (lv a c!"VA")) (eq4N (lv a c!"SC") (lv a c!"SI") (lv a c!"SA"))
      (Spec.V4.macroVector a).eq5
      (eq6N (lv a c!"VC") (lv a c!"VI") (lv a c!"VA") (lv a c!"CR") (lv a c!"IR") (lv a c!"AR"))
      (dist1 (lv a c!"AV") (lv a c!"PR") (lv a c!"UI")) (dist2 (lv a c!"AC") (lv a c!"AT"))
      (dist36 (lv a c!"VC") (lv a c!"VI") (lv a c!"VA") (lv a c!"CR") (lv a c!"IR") (lv a c!"AR"))
      (dist4 (lv a c!"SC") (lv a c!"SI") (lv a c!"SA")) : ℤ) : ℚ) / 504000) := by
  rw [rawScore_rawI, distance1_eq hl, distance2_eq hl, distance36_eq hl, distance4_eq hl,
    eq1_eq hl, eq2_eq hl, eq3_eq hl, eq4_eq hl, eq6_eq hl]

/-- ranges of the levels -/
theorem lv_ranges :
    lv a c!"AV" < 4 ∧ lv a c!"PR" < 3 ∧ lv a c!"UI" < 3 ∧ lv a c!"AC" < 2 ∧ lv a c!"AT" < 2 ∧
    lv a c!"VC" < 3 ∧ lv a c!"VI" < 3 ∧ lv a c!"VA" < 3 ∧ lv a c!"CR" < 3 ∧ lv a c!"IR" < 3 ∧
    lv a c!"AR" < 3 ∧ 1 ≤ lv a c!"SC" ∧ lv a c!"SC" < 4 ∧ lv a c!"SI" < 4 ∧ lv a c!"SA" < 4 :=
  ⟨(lv_bounds hl (show lvChk c!"AV" 0 4 = true by decide)).2,
   (lv_bounds hl (show lvChk c!"PR" 0 3 = true by decide)).2,
   (lv_bounds hl (show lvChk c!"UI" 0 3 = true by decide)).2,
   (lv_bounds hl (show lvChk c!"AC" 0 2 = true by decide)).2,
   (lv_bounds hl (show lvChk c!"AT" 0 2 = true by decide)).2,
   (lv_bounds hl (show lvChk c!"VC" 0 3 = true by decide)).2,
   (lv_bounds hl (show lvChk c!"VI" 0 3 = true by decide)).2,
   (lv_bounds hl (show lvChk c!"VA" 0 3 = true by decide)).2,
   (lv_bounds hl (show lvChk c!"CR" 0 3 = true by decide)).2,
   (lv_bounds hl (show lvChk c!"IR" 0 3 = true by decide)).2,
   (lv_bounds hl (show lvChk c!"AR" 0 3 = true by decide)).2,
   (lv_bounds hl (show lvChk c!"SC" 1 4 = true by decide)).1,
   (lv_bounds hl (show lvChk c!"SC" 1 4 = true by decide)).2,
   (lv_bounds hl (show lvChk c!"SI" 0 4 = true by decide)).2,
   (lv_bounds hl (show lvChk c!"SA" 0 4 = true by decide)).2⟩

/-- "no impact" in levels -/
theorem noImpact_lv : Spec.V4.noImpact a =
    (lv a c!"VC" == 2 && (lv a c!"VI" == 2 && (lv a c!"VA" == 2 && (lv a c!"SC" == 3 &&
      (lv a c!"SI" == 3 && lv a c!"SA" == 3))))) := by
  unfold Spec.V4.noImpact
  simp only [List.all_cons, List.all_nil, Bool.and_true,
    is_lv hl (show isChk c!"VC" c!"N" 2 = true by decide),
    is_lv hl (show isChk c!"VI" c!"N" 2 = true by decide),
    is_lv hl (show isChk c!"VA" c!"N" 2 = true by decide),
    is_lv hl (show isChk c!"SC" c!"N" 3 = true by decide),
    is_lv hl (show isChk c!"SI" c!"N" 3 = true by decide),
    is_lv hl (show isChk c!"SA" c!"N" 3 = true by decide)]

end levels

/-! ### rounding and clamping are monotone -/

theorem round_mono {x y : ℚ} (h : x ≤ y) :
    Spec.V4.roundHalfUp (max 0 (min 10 x)) ≤ Spec.V4.roundHalfUp (max 0 (min 10 y)) := by
  unfold Spec.V4.roundHalfUp
  rw [rat_floor_eq, rat_floor_eq]
  apply div_le_div_of_nonneg_right _ (by norm_num)
  have h1 : max 0 (min 10 x) ≤ max 0 (min 10 y) := max_le_max_left 0 (min_le_min_left 10 h)
  have h2 : ⌊max 0 (min 10 x) * 10 + 1 / 2⌋ ≤ ⌊max 0 (min 10 y) * 10 + 1 / 2⌋ :=
    Int.floor_mono (by linarith)
  exact_mod_cast h2

theorem round_nonneg (x : ℚ) : 0 ≤ Spec.V4.roundHalfUp (max 0 x) := by
  unfold Spec.V4.roundHalfUp
  rw [rat_floor_eq]
  apply div_nonneg _ (by norm_num)
  have h1 : (0 : ℚ) ≤ max 0 x := le_max_left 0 x
  have h2 : 0 ≤ ⌊max 0 x * 10 + 1 / 2⌋ := Int.floor_nonneg.mpr (by linarith)
  exact_mod_cast h2

/-- from the interpolated values to the scores -/
theorem score_mono_of {a a' : Str → Str} {r r' : ℤ}
    (hr : Spec.V4.rawScore a = some ((r : ℚ) / 504000))
    (hr' : Spec.V4.rawScore a' = some ((r' : ℚ) / 504000)) (hle : r ≤ r')
    (hni : Spec.V4.noImpact a' = true → Spec.V4.noImpact a = true) :
    ∀ x y, Spec.V4.score a = some x → Spec.V4.score a' = some y → x ≤ y := by
  intro x y hx hy
  unfold Spec.V4.score at hx hy
  rw [hr] at hx
  rw [hr'] at hy
  cases h : Spec.V4.noImpact a with
  | true =>
    rw [h] at hx
    simp only [if_true, Option.some.injEq] at hx
    subst hx
    cases h' : Spec.V4.noImpact a' with
    | true =>
      rw [h'] at hy
      simp only [if_true, Option.some.injEq] at hy
      rw [← hy]
    | false =>
      rw [h'] at hy
      simp only [Bool.false_eq_true, if_false, Option.map_some, Option.some.injEq] at hy
      rw [← hy]
      exact round_nonneg _
  | false =>
    have h' : Spec.V4.noImpact a' = false := by
      cases h' : Spec.V4.noImpact a' with
      | true => rw [hni h'] at h; cases h
      | false => rfl
    rw [h] at hx
    rw [h'] at hy
    simp only [Bool.false_eq_true, if_false, Option.map_some, Option.some.injEq] at hx hy
    rw [← hx, ← hy]
    apply round_mono
    have : (r : ℚ) ≤ r' := by exact_mod_cast hle
    exact div_le_div_of_nonneg_right this (by norm_num)

end Cvss.Lemmas.V4Mono
