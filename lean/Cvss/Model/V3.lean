/-
  Model of cvss/cvss3.py (class CVSS3) over the generated tables `Cvss.Gen.V3`.
  `Decimal` arithmetic is modelled by exact rationals; the only inexact `Decimal` operations in
  cvss3.py are the two powers (`** 15`, `** 13`), see `Props/C01.lean` (`v3_decimal_robust`).
-/
import Cvss.Basic
import Cvss.Gen.V3
import Cvss.Model.Parse
namespace Cvss.Model.V3
open Cvss Cvss.Model

def tables : Tables where
  abbrs := keys Gen.V3.abbrs
  legal := Gen.V3.values.map (fun (k, row) => (k, keys row))
  mandatory := Gen.V3.mandatory
  v4style := false

def X : Str := c!"X"

def prefixes : List Str := [c!"CVSS:3.0/", c!"CVSS:3.1/"]

def r (n : Int) (d : Nat) : Rat := mkRat n d

/-- the literal dict in `get_value` for Privileges Required under (Modified) Scope Changed -/
def prChanged : List (Str × Option Rat) :=
  [(c!"X", none), (c!"N", some (r 85 100)), (c!"L", some (r 68 100)), (c!"H", some (r 50 100))]

/-- the list iterated by `add_missing_optional` -/
def modifiedMetrics : List Str :=
  [c!"MAV", c!"MAC", c!"MPR", c!"MUI", c!"MC", c!"MS", c!"MI", c!"MA"]

/-- `add_missing_optional`: `none` ⇔ KeyError on the base metric -/
def addMissingOptional : MMap → List Str → Option MMap
  | m, [] => some m
  | m, a :: rest =>
    match lookup a m with
    | some v =>
      if v = X then
        match lookup (a.drop 1) m with
        | none => none
        | some b => addMissingOptional (insert a b m) rest
      else addMissingOptional m rest
    | none =>
      match lookup (a.drop 1) m with
      | none => none
      | some b => addMissingOptional (insert a b m) rest

structure Ctx where
  metrics : MMap       -- `self.metrics` after `add_missing_optional`
  scope : Str
  modScope : Str

/-- `get_value` -/
def getValue (c : Ctx) (abbr : Str) : Option Rat :=
  let sv := (lookup abbr c.metrics).getD X
  if (abbr = c!"PR" ∧ c.scope = c!"C") ∨ (abbr = c!"MPR" ∧ c.modScope = c!"C") then
    match lookup sv prChanged with
    | none => none
    | some w => w
  else
    match lookup abbr Gen.V3.values with
    | none => none
    | some row =>
      match lookup sv row with
      | none => none
      | some w => w

def getDescription (m : MMap) (abbr : Str) : Option Str :=
  match lookup abbr Gen.V3.valueNames with
  | none => none
  | some row => lookup ((lookup abbr m).getD X) row

def iscBase (c : Ctx) : Option Rat := do
  let cc ← getValue c c!"C"
  let i ← getValue c c!"I"
  let a ← getValue c c!"A"
  pure (1 - ((1 - cc) * (1 - i) * (1 - a)))

/-- `compute_isc` (`none` ⇔ RuntimeError "Invalid Scope") -/
def isc (c : Ctx) (ib : Rat) : Option Rat :=
  if c.scope = c!"U" then some (r 642 100 * ib)
  else if c.scope = c!"C" then some (r 752 100 * (ib - r 29 1000) - r 325 100 * (ib - r 2 100) ^ 15)
  else none

def esc (c : Ctx) : Option Rat := do
  let av ← getValue c c!"AV"
  let ac ← getValue c c!"AC"
  let pr ← getValue c c!"PR"
  let ui ← getValue c c!"UI"
  pure (r 822 100 * av * ac * pr * ui)

/-- `compute_base_score` -/
def baseScore (c : Ctx) : Option Rat := do
  let ib ← iscBase c
  let i ← isc c ib
  let e ← esc c
  if i ≤ 0 then pure 0
  else if c.scope = c!"U" then pure (roundUp1 (pyMin (i + e) 10))
  else if c.scope = c!"C" then pure (roundUp1 (pyMin (r 108 100 * (i + e)) 10))
  else none -- `assert self.scope in ("U", "C")`

/-- `compute_temporal_score` -/
def temporalScore (c : Ctx) (base : Rat) : Option Rat := do
  let e ← getValue c c!"E"
  let rl ← getValue c c!"RL"
  let rc ← getValue c c!"RC"
  pure (roundUp1 (base * e * rl * rc))

def modifiedIscBase (c : Ctx) : Option Rat := do
  let mc ← getValue c c!"MC"
  let cr ← getValue c c!"CR"
  let mi ← getValue c c!"MI"
  let ir ← getValue c c!"IR"
  let ma ← getValue c c!"MA"
  let ar ← getValue c c!"AR"
  pure (pyMin (1 - (1 - mc * cr) * (1 - mi * ir) * (1 - ma * ar)) (r 915 1000))

/-- `compute_modified_isc_30` / `compute_modified_isc` selected by `minor_version` -/
def modifiedIsc (c : Ctx) (minor : Nat) (mib : Rat) : Rat :=
  if c.modScope = c!"U" then r 642 100 * mib
  else if minor = 0 then r 752 100 * (mib - r 29 1000) - r 325 100 * (mib - r 2 100) ^ 15
  else r 752 100 * (mib - r 29 1000) - r 325 100 * (mib * r 9731 10000 - r 2 100) ^ 13

def modifiedEsc (c : Ctx) : Option Rat := do
  let av ← getValue c c!"MAV"
  let ac ← getValue c c!"MAC"
  let pr ← getValue c c!"MPR"
  let ui ← getValue c c!"MUI"
  pure (r 822 100 * av * ac * pr * ui)

/-- `compute_environmental_score` -/
def environmentalScore (c : Ctx) (minor : Nat) : Option Rat := do
  let mib ← modifiedIscBase c
  let mi := modifiedIsc c minor mib
  let me ← modifiedEsc c
  if mi ≤ 0 then pure 0
  else do
    let modified :=
      if c.modScope = c!"U" then roundUp1 (pyMin (mi + me) 10)
      else roundUp1 (pyMin (r 108 100 * (mi + me)) 10)
    let e ← getValue c c!"E"
    let rl ← getValue c c!"RL"
    let rc ← getValue c c!"RC"
    pure (roundUp1 (modified * e * rl * rc))

structure Obj where
  vector : Str
  minor : Nat
  /-- `self.original_metrics` -/
  orig : MMap
  /-- `self.metrics` (modified metrics filled in) -/
  metrics : MMap
  base : Rat
  temporal : Rat
  env : Rat
  deriving Repr

/-- everything `__init__` does after `check_mandatory`; `none` ⇔ a foreign exception -/
def build (s : Str) (minor : Nat) (m : MMap) : Option Obj := do
  -- handle_scope
  let scope ← lookup c!"S" m
  let ms := match lookup c!"MS" m with
    | none => scope
    | some v => if v = X then scope else v
  -- add_missing_optional
  let full ← addMissingOptional m modifiedMetrics
  let c : Ctx := { metrics := full, scope := scope, modScope := ms }
  let b ← baseScore c
  let t ← temporalScore c b
  let e ← environmentalScore c minor
  pure { vector := s, minor := minor, orig := m, metrics := full, base := b, temporal := t, env := e }

/-- `parse_vector()` followed by `check_mandatory()`: (minor version, metrics) -/
def parse (s : Str) : Except Err (Nat × MMap) :=
  match parseWithPrefix tables prefixes s with
  | .error e => .error e
  | .ok (i, m) =>
    match checkMandatory tables m with
    | .error e => .error e
    | .ok _ => .ok (i, m)

/-- `CVSS3(vector)` -/
def construct (s : Str) : Except Err Obj :=
  match parse s with
  | .error e => .error e
  | .ok (i, m) =>
    match build s i m with
    | none => .error .foreign
    | some o => .ok o

def Obj.scores (o : Obj) : List (Option Rat) := [some o.base, some o.temporal, some o.env]

def versionPrefix (minor : Nat) : Str := c!"CVSS:3." ++ natToStr minor ++ c!"/"

/-- `clean_vector(output_prefix)` -/
def cleanOf (minor : Nat) (orig : MMap) (outputPrefix : Bool) : Str :=
  (if outputPrefix then versionPrefix minor else []) ++
  join '/' ((keys Gen.V3.abbrs).filterMap (fun k =>
    match lookup k orig with
    | some v => if v ≠ X then some (k ++ ':' :: v) else none
    | none => none))

def Obj.clean (o : Obj) (outputPrefix : Bool := true) : Str := cleanOf o.minor o.orig outputPrefix

def sevOf (s : Rat) : Str :=
  if s = 0 then c!"None"
  else if s ≤ r 39 10 then c!"Low"
  else if s ≤ r 69 10 then c!"Medium"
  else if s ≤ r 89 10 then c!"High"
  else c!"Critical"

def Obj.severities (o : Obj) : List Str := [sevOf o.base, sevOf o.temporal, sevOf o.env]

def Obj.temporalVector (o : Obj) : Str :=
  join '/' (Gen.V3.temporal.map (fun k => k ++ ':' :: (lookup k o.metrics).getD X))

def Obj.environmentalVector (o : Obj) : Str :=
  join '/' (Gen.V3.environmental.map (fun k => k ++ ':' :: (lookup k o.metrics).getD X))

end Cvss.Model.V3
