/-
  Model of cvss/parser.py: `re.findall(r"(?:CVSS:3\.\d/)?[A-Za-z:/]{26,}", text)` as a structurally
  recursive left-to-right scanner (leftmost match, greedy, with the one possible back-track: drop the
  optional prefix), followed by construction and de-duplication through a set.
-/
import Cvss.Model.Any
namespace Cvss.Model.Extract
open Cvss Cvss.Model

/-- the character class `[A-Za-z:/]` -/
def inClass (c : Char) : Bool :=
  (65 ≤ c.toNat && c.toNat ≤ 90) || (97 ≤ c.toNat && c.toNat ≤ 122) || c = ':' || c = '/'

/-- match `CVSS:3\.\d/` at the head; returns the rest -/
def matchPrefix (isDigit : Char → Bool) : Str → Option Str
  | 'C' :: 'V' :: 'S' :: 'S' :: ':' :: '3' :: '.' :: d :: '/' :: rest => if isDigit d then some rest else none
  | _ => none

/-- longest run of class characters at the head: (run, rest) -/
def classRun : Str → Str × Str
  | [] => ([], [])
  | c :: cs => if inClass c then let r := classRun cs; (c :: r.1, r.2) else ([], c :: cs)

/-- try to match the whole pattern at the head of `s`: (match, rest) -/
def matchHere (isDigit : Char → Bool) (s : Str) : Option (Str × Str) :=
  let direct : Option (Str × Str) :=
    let r := classRun s
    if r.1.length ≥ 26 then some r else none
  match matchPrefix isDigit s with
  | some rest =>
    let r := classRun rest
    if r.1.length ≥ 26 then some (s.take 9 ++ r.1, r.2) else direct
  | none => direct

/-- `findall`: all non-overlapping matches, scanning left to right (fuel = length of the text) -/
def findAll (isDigit : Char → Bool) : Nat → Str → List Str
  | 0, _ => []
  | _, [] => []
  | fuel + 1, c :: cs =>
    match matchHere isDigit (c :: cs) with
    | some (m, rest) => m :: findAll isDigit fuel rest
    | none => findAll isDigit fuel cs

/-- ASCII digits plus the generated table of other Unicode decimal digits -/
def isDigitWith (nd : List (Nat × Nat)) (c : Char) : Bool :=
  (48 ≤ c.toNat && c.toNat ≤ 57) || nd.any (fun (a, b) => a ≤ c.toNat && c.toNat ≤ b)

/-- `cvsss.add(cvss)`: a Python set keeps the element already present -/
def addDedup (acc : List AnyObj) (o : AnyObj) : List AnyObj :=
  if acc.any (fun a => a.eq o) then acc else acc ++ [o]

/-- the loop over matches; `none` ⇔ an exception other than CVSSError escapes -/
def collect : List AnyObj → List Str → Option (List AnyObj)
  | acc, [] => some acc
  | acc, m :: rest =>
    let res := if startsWith c!"CVSS:3." m then construct .v3 m else construct .v2 m
    match res with
    | .ok o => collect (addDedup acc o) rest
    | .error .foreign => none
    | .error _ => collect acc rest

/-- `parse_cvss_from_text(text)` (as a duplicate-free list; Python returns `list(set)`) -/
def parseText (isDigit : Char → Bool) (text : Str) : Option (List AnyObj) :=
  collect [] (findAll isDigit text.length text)

end Cvss.Model.Extract
