/-
  The calculator's output with the library's message texts filled in (Model/Cli.lean leaves the error line abstract).
-/
import Cvss.Model.Cli
import Cvss.Model.Messages
namespace Cvss.Model.Cli
open Cvss Cvss.Model

/-- the report with the error line replaced by the message the selected class raises for this vector -/
def reportMsg (f : Flags) (s : Str) : Option (List Str) :=
  match report f s with
  | none => none
  | some ls =>
    if ls = [errorLine] then
      match Messages.constructMsg (classOf (version f)) s with
      | some m => some [m]
      | none => some ls
    else some ls

/-- `main()` with message texts -/
def mainMsg (f : Flags) (stdin : List Str) : Outcome :=
  let vec : Option Str := match f.vector with
    | some s => if s = [] then none else some s
    | none => none
  match vec with
  | some s =>
    match reportMsg f s with
    | some ls => .lines ls
    | none => .crash
  | none =>
    match Interactive.ask (version f) f.all stdin with
    | .eof _ => .eof
    | .keyError => .crash
    | .result s _ _ =>
      match reportMsg f s with
      | some ls => .lines ls
      | none => .crash

end Cvss.Model.Cli
