/-
  Model of `parse_vector` / `check_mandatory` of cvss2.py, cvss3.py, cvss4.py, generic in the tables.
-/
import Cvss.Basic
namespace Cvss.Model
open Cvss

/-- `self.metrics`: a Python dict, kept in insertion order. -/
abbrev MMap := List (Str × Str)

/-- what the field parser of one version consults -/
structure Tables where
  /-- keys of `METRICS_ABBREVIATIONS` in table order -/
  abbrs : List Str
  /-- the table whose inner keys decide whether a value is legal
      (`METRICS_VALUES` for v2/v3, `METRICS_VALUE_NAMES` for v4) -/
  legal : List (Str × List Str)
  mandatory : List Str
  /-- order of the three per-field tests (`cvss4.py` tests "duplicate" first and looks the metric up
      in `METRICS_VALUE_NAMES`; `cvss2.py`/`cvss3.py` test `metric in METRICS_ABBREVIATIONS` first) -/
  v4style : Bool

/-- body of the `for field in fields:` loop -/
def parseField (T : Tables) (acc : MMap) (field : Str) : Except Err MMap :=
  if field = [] then .error .malformed
  else
    match splitOn ':' field with
    | [m, v] =>
      if T.v4style then
        if hasKey m acc then .error .malformed
        else
          match lookup m T.legal with
          | none => .error .malformed
          | some vs => if v ∈ vs then .ok (acc ++ [(m, v)]) else .error .malformed
      else if m ∈ T.abbrs then
        match lookup m T.legal with
        | none => .error .foreign -- `METRICS_VALUES[metric]` would raise KeyError
        | some vs =>
          if v ∈ vs then
            if hasKey m acc then .error .malformed else .ok (acc ++ [(m, v)])
          else .error .malformed
      else .error .malformed
    | _ => .error .malformed -- `metric, value = field.split(":")` raises ValueError

def parseFields (T : Tables) : MMap → List Str → Except Err MMap
  | acc, [] => .ok acc
  | acc, f :: fs =>
    match parseField T acc f with
    | .error e => .error e
    | .ok acc' => parseFields T acc' fs

/-- `check_mandatory` -/
def checkMandatory (T : Tables) (m : MMap) : Except Err Unit :=
  if T.mandatory.all (fun k => hasKey k m) then .ok () else .error .mandatory

/-- `parse_vector` for a version without prefix (v2) -/
def parseNoPrefix (T : Tables) (s : Str) : Except Err MMap :=
  if s = [] then .error .malformed
  else if endsWithChar '/' s then .error .malformed
  else parseFields T [] (splitOn '/' s)

/-- `parse_vector` for a version whose vector must start with one of `pfxs` (each ends in '/');
    returns the index of the matching prefix.  `self.vector.split("/")[1:]` drops the first piece. -/
def parseWithPrefix (T : Tables) (pfxs : List Str) (s : Str) : Except Err (Nat × MMap) :=
  if s = [] then .error .malformed
  else if endsWithChar '/' s then .error .malformed
  else
    match pfxs.findIdx? (fun p => startsWith p s) with
    | none => .error .malformed
    | some i =>
      match parseFields T [] ((splitOn '/' s).drop 1) with
      | .error e => .error e
      | .ok m => .ok (i, m)

/-- the assignment read off a metric map: the stated token, or the version's Not Defined token for an
    absent metric (this is what the specifications' equations are applied to) -/
def assignment (nd : Str) (m : MMap) : Str → Str := fun k => (lookup k m).getD nd

end Cvss.Model
