/-
  Model of Python's `float(text)` (ASCII inputs) and of `float == float` against a one-decimal score:
  the literal grammar of `float()` and correctly rounded (round-half-even) IEEE-754 binary64.
-/
import Cvss.Basic
namespace Cvss.Model.Float
open Cvss

/-- value of a successfully parsed float literal -/
inductive FVal
  | nan
  | inf (neg : Bool)
  | fin (q : Rat)
  deriving Repr, DecidableEq

/-- ASCII characters `float()` strips: C `isspace` (space, \t \n \v \f \r).  NOT U+001C–U+001F, which
    `str.strip()` does strip (see `isSpaceStr`) -/
def isSpace (c : Char) : Bool :=
  c.toNat = 32 || (9 ≤ c.toNat && c.toNat ≤ 13)

/-- ASCII characters `str.strip()` / `str.isspace()` treat as white space -/
def isSpaceStr (c : Char) : Bool :=
  c.toNat = 32 || (9 ≤ c.toNat && c.toNat ≤ 13) || (28 ≤ c.toNat && c.toNat ≤ 31)

def isDigit (c : Char) : Bool := 48 ≤ c.toNat && c.toNat ≤ 57

def lower (c : Char) : Char := if 65 ≤ c.toNat ∧ c.toNat ≤ 90 then Char.ofNat (c.toNat + 32) else c

def strip (s : Str) : Str := ((s.dropWhile isSpace).reverse.dropWhile isSpace).reverse

/-- `str.strip()` on ASCII input -/
def stripStr (s : Str) : Str := ((s.dropWhile isSpaceStr).reverse.dropWhile isSpaceStr).reverse

/-- digits with single underscores allowed only between digits; returns (digit values, rest).
    `none` ⇔ an underscore is misplaced.  May return an empty digit list. -/
def digitRun : Str → Bool → Option (List Nat × Str)
  | [], _ => some ([], [])
  | c :: cs, prevDigit =>
    if isDigit c then
      match digitRun cs true with
      | none => none
      | some (ds, rest) => some ((c.toNat - 48) :: ds, rest)
    else if c = '_' then
      -- must be between two digits
      if prevDigit then
        match cs with
        | d :: _ => if isDigit d then digitRun cs false else none
        | [] => none
      else none
    else some ([], c :: cs)

def digitsVal (ds : List Nat) : Nat := ds.foldl (fun a d => a * 10 + d) 0

/-- decimal exponents beyond these bounds certainly overflow to inf / underflow to 0
    (binary64: max ≈ 1.8e308, min subnormal ≈ 4.9e-324) -/
def bigExp : Int := 400

/-- the numeric part after the sign: `digits [. digits] [e [sign] digits]` or `. digits …` -/
def parseDecimal (s : Str) : Option (Option Rat × Bool) := -- (finite value or overflow, ·)
  match digitRun s false with
  | none => none
  | some (ip, rest) =>
    let afterFrac : Option (List Nat × Str) :=
      match rest with
      | '.' :: r2 =>
        match digitRun r2 false with
        | none => none
        | some (fp, r3) => some (fp, r3)
      | _ => some ([], rest)
    match afterFrac with
    | none => none
    | some (fp, r3) =>
      if ip = [] ∧ fp = [] then none
      else
        let expPart : Option (Int × Str) :=
          match r3 with
          | e :: r4 =>
            if e = 'e' ∨ e = 'E' then
              let (neg, r5) := match r4 with
                | '+' :: t => (false, t)
                | '-' :: t => (true, t)
                | t => (false, t)
              match digitRun r5 false with
              | none => none
              | some (ed, r6) =>
                if ed = [] then none
                else some ((if neg then -(digitsVal ed : Int) else (digitsVal ed : Int)), r6)
            else some (0, r3)
          | [] => some (0, [])
        match expPart with
        | none => none
        | some (ex, r7) =>
          if r7 ≠ [] then none
          else
            let mant := digitsVal (ip ++ fp)
            if mant = 0 then some (some 0, false)
            else
              -- position of the leading digit relative to the decimal point
              let sig := (ip ++ fp).dropWhile (· = 0)
              let pos : Int := (sig.length : Int) - (fp.length : Int) + ex
              if pos > bigExp then some (none, true)          -- overflow → inf
              else if pos < -bigExp then some (some 0, false)  -- underflow → 0
              else
                let e10 : Int := ex - (fp.length : Int)
                let q : Rat :=
                  if e10 ≥ 0 then (mant : Rat) * ((10 : Rat) ^ e10.toNat)
                  else (mant : Rat) / ((10 : Rat) ^ (-e10).toNat)
                some (some q, false)

/-- Python `float(text)` on ASCII text; `none` ⇔ ValueError -/
def parseFloat (text : Str) : Option FVal :=
  let s := strip text
  let (neg, body) := match s with
    | '+' :: t => (false, t)
    | '-' :: t => (true, t)
    | t => (false, t)
  let lw := body.map lower
  if lw = c!"inf" ∨ lw = c!"infinity" then some (.inf neg)
  else if lw = c!"nan" then some .nan
  else
    match parseDecimal body with
    | none => none
    | some (none, _) => some (.inf neg)
    | some (some q, _) => some (.fin (if neg then -q else q))

/-- round a positive rational to the nearest binary64 (ties to even); `none` ⇔ overflow to inf -/
def roundPos (q : Rat) : Option Rat :=
  -- find e with 2^52 ≤ q / 2^e < 2^53, e ≥ -1074
  let n := q.num.toNat
  let d := q.den
  let e0 : Int := (Nat.log2 n : Int) - (Nat.log2 d : Int) - 52
  -- e0 is within 1 of the right exponent; adjust
  let scaled (e : Int) : Rat := if e ≥ 0 then q / ((2 : Rat) ^ e.toNat) else q * ((2 : Rat) ^ (-e).toNat)
  let e1 : Int := if scaled e0 < (2 : Rat) ^ 52 then e0 - 1 else if scaled e0 ≥ (2 : Rat) ^ 53 then e0 + 1 else e0
  let e : Int := if e1 < -1074 then -1074 else e1
  let x := scaled e
  let fl := x.floor
  let frac := x - (fl : Rat)
  let m : Int :=
    if frac < 1 / 2 then fl
    else if frac > 1 / 2 then fl + 1
    else if fl % 2 = 0 then fl else fl + 1
  let v : Rat := if e ≥ 0 then (m : Rat) * ((2 : Rat) ^ e.toNat) else (m : Rat) / ((2 : Rat) ^ (-e).toNat)
  if v ≥ (2 : Rat) ^ 1024 then none else some v

/-- the binary64 value `float()` returns for an exact rational (`none` ⇔ ±inf) -/
def toBinary64 (q : Rat) : Option Rat :=
  if q = 0 then some 0
  else if q > 0 then roundPos q
  else (roundPos (-q)).map (fun v => -v)

/-- `score_float == float(text)` where the score is the exact one-decimal rational `score` -/
def eqScore (score : Rat) : FVal → Bool
  | .nan => false
  | .inf _ => false
  | .fin q => toBinary64 q == toBinary64 score

end Cvss.Model.Float
