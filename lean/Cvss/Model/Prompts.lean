/-
  Model of everything `ask_interactively` PRINTS (cvss/interactive.py): banner, metric headings with value names and
  selection hints, optional ANSI colouring, the repeated question line, and of the calculator's complete stdout.
-/
import Cvss.Model.CliMsg
namespace Cvss.Model.Prompts
open Cvss Cvss.Model Cvss.Model.Interactive

def abbrNamesOf : IVer → List (Str × Str)
  | .i2 => Gen.V2.abbrs | .i30 => Gen.V3.abbrs | .i31 => Gen.V3.abbrs | .i4 => Gen.V4.abbrs

def banner : IVer → Str
  | .i2 => c!"Interactive CVSS2 calculator"
  | .i4 => c!"Interactive CVSS4 calculator"
  | _ => c!"Interactive CVSS3 calculator"

/-- `s.replace(letter, "(" + letter + ")")` -/
def hintLetter (letter : Char) (s : Str) : Str :=
  s.flatMap (fun c => if c = letter then ['(', c, ')'] else [c])

/-- the `for letter in value:` loop -/
def hints (value name : Str) : Str := value.foldl (fun acc l => hintLetter l acc) name

/-- the "Exceptions for hints" -/
def fixHints (v : IVer) (h : Str) : Str :=
  match v with
  | .i2 =>
    if h = c!"(P)roof-of-(C)oncept" then c!"(P)roof-(O)f-(C)oncept"
    else if h = c!"(U)nconfirmed" then c!"(U)n(C)onfirmed"
    else if h = c!"(U)ncorroborated" then c!"(U)nco(R)roborated"
    else h
  | _ => if h = c!"Not Defined" then c!"(X)Not Defined" else h

def esc033 : Char := Char.ofNat 27

/-- `color(text)` -/
def color (t : Str) : Str :=
  let yellow : Str := [esc033] ++ c!"[33m" ++ [esc033] ++ c!"[1m"
  let reset : Str := [esc033] ++ c!"[0m"
  let blue : Str := [esc033] ++ c!"[94m" ++ [esc033] ++ c!"[1m|" ++ [esc033] ++ c!"[0m"
  let t1 := t.flatMap (fun c => if c = '(' then yellow else [c])
  let t2 := t1.flatMap (fun c => if c = ')' then reset else [c])
  t2.flatMap (fun c => if c = '|' then blue else [c])

def joinStr (sep : Str) : List Str → Str
  | [] => []
  | [a] => a
  | a :: b :: r => a ++ sep ++ joinStr sep (b :: r)

/-- heading of one metric: "Full name: hint | hint | …\n" -/
def heading (v : IVer) (noColors : Bool) (fullName : Str) (row : List (Str × Str)) : Str :=
  let names := row.map (fun (value, name) => fixHints v (hints value name))
  let line := joinStr c!" | " names
  fullName ++ c!": " ++ (if noColors then line else color line) ++ c!"\n"

/-- one question line (no newline: the answer is typed after it) -/
def question (fullName : Str) (row : List (Str × Str)) : Str :=
  fullName ++ c!": " ++ join '/' (keys row) ++ c!" "

/-- what is printed while asking the given metrics; `(text, vector or none on EOF)` -/
def dialogueLoop (v : IVer) (noColors : Bool) : List Str → List Str → Str → List Str → Str × Option (List Str)
  | [], _, out, fields => (out, some fields)
  | m :: ms, answers, out, fields =>
    match lookup m (abbrNamesOf v), lookup m (valueNamesOf v) with
    | some full, some row =>
      let out1 := out ++ heading v noColors full row
      match askOne v (keys row) answers with
      | none => (out1 ++ (List.replicate (answers.length + 1) (question full row)).flatten, none)
      | some (x, rest, n) =>
        dialogueLoop v noColors ms rest (out1 ++ (List.replicate n (question full row)).flatten ++ c!"\n")
          (fields ++ [m ++ ':' :: x])
    | _, _ => (out, none)

/-- complete stdout of `ask_interactively(version, all_metrics, no_colors)` on the given answers -/
def dialogue (v : IVer) (allMetrics noColors : Bool) (answers : List Str) : Str × Option Str :=
  let r := dialogueLoop v noColors (if allMetrics then abbrsOf v else mandatoryOf v) answers (banner v ++ c!"\n\n") []
  (r.1, r.2.map (fun fields => prefixOf v ++ join '/' fields))

/-- complete stdout of `cvss_calculator.main()` (exit status is 0 in every case) -/
def stdout (f : Cli.Flags) (stdin : List Str) : Option Str :=
  let vec : Option Str := match f.vector with
    | some s => if s = [] then none else some s
    | none => none
  let render (ls : List Str) : Str := (ls.map (fun l => l ++ c!"\n")).flatten
  match vec with
  | some s => (Cli.reportMsg f s).map render
  | none =>
    let d := dialogue (Cli.version f) f.all f.noColors stdin
    match d.2 with
    | none => some (d.1 ++ c!"\n")           -- EOFError: `print()`
    | some s => (Cli.reportMsg f s).map (fun ls => d.1 ++ render ls)

end Cvss.Model.Prompts
