/-
  Model of the MESSAGE TEXTS of the library's exceptions (cvss2.py, cvss3.py, cvss4.py): which message a rejected
  string gets, following the order of the tests in `parse_vector`, `check_mandatory` and `from_rh_vector`.
  `Props/C17` shows the messages are raised exactly when the message-free model (`construct`, `fromRh`) fails.
-/
import Cvss.Model.Any
namespace Cvss.Model.Messages
open Cvss Cvss.Model

def q (s : Str) : Str := '"' :: s ++ c!"\""

/-- version digit used in the texts -/
def vd : Ver → Str
  | .v2 => c!"2" | .v3 => c!"3" | .v4 => c!"4"

def tablesOf : Ver → Tables
  | .v2 => V2.tables | .v3 => V3.tables | .v4 => V4.tables

/-- message of the `for field in fields:` loop body, or the extended map -/
def fieldMsg (v : Ver) (vector : Str) (acc : MMap) (field : Str) : Except Str MMap :=
  let T := tablesOf v
  if field = [] then .error (c!"Empty field in CVSS" ++ vd v ++ c!" vector " ++ q vector)
  else
    match splitOn ':' field with
    | [m, val] =>
      if T.v4style then
        if hasKey m acc then .error (c!"Duplicate metric " ++ q m)
        else
          match lookup m T.legal with
          | none => .error (c!"Invalid metric key in CVSS4 vector " ++ q field)
          | some vs =>
            if val ∈ vs then .ok (acc ++ [(m, val)])
            else .error (c!"Invalid metric value in CVSS4 vector " ++ q field)
      else if m ∈ T.abbrs then
        match lookup m T.legal with
        | none => .error c!"<KeyError>"
        | some vs =>
          if val ∈ vs then
            if hasKey m acc then .error (c!"Duplicate metric " ++ q m) else .ok (acc ++ [(m, val)])
          else .error (c!"Unknown value " ++ q val ++ c!" in field " ++ q field)
      else .error (c!"Unknown metric " ++ q m ++ c!" in field " ++ q field)
    | _ => .error (c!"Malformed CVSS" ++ vd v ++ c!" field " ++ q field)

def fieldsMsg (v : Ver) (vector : Str) : MMap → List Str → Except Str MMap
  | acc, [] => .ok acc
  | acc, f :: fs =>
    match fieldMsg v vector acc f with
    | .error e => .error e
    | .ok acc' => fieldsMsg v vector acc' fs

def prefixesOf : Ver → List Str
  | .v2 => [] | .v3 => V3.prefixes | .v4 => [V4.pfx]

/-- `parse_vector` + `check_mandatory` with message texts -/
def parseMsg (v : Ver) (s : Str) : Except Str MMap :=
  if s = [] then .error (c!"Malformed CVSS" ++ vd v ++ c!" vector, vector is empty")
  else if endsWithChar '/' s then .error (c!"Malformed CVSS" ++ vd v ++ c!" vector, trailing \"/\"")
  else
    let fields : Except Str (List Str) :=
      match v with
      | .v2 => .ok (splitOn '/' s)
      | _ =>
        if (prefixesOf v).any (fun p => startsWith p s) then .ok ((splitOn '/' s).drop 1)
        else .error (c!"Malformed CVSS" ++ vd v ++ c!" vector " ++ q s ++
                     c!" is missing mandatory prefix or uses unsupported CVSS version")
    match fields with
    | .error e => .error e
    | .ok fs =>
      match fieldsMsg v s [] fs with
      | .error e => .error e
      | .ok m =>
        let missing := (tablesOf v).mandatory.filter (fun k => !hasKey k m)
        if missing = [] then .ok m
        else .error (c!"Missing mandatory metrics " ++ q (missing.foldl (fun acc k => if acc = [] then k else acc ++ c!", " ++ k) []))

/-- `str(e)` for `CVSSn(s)`; `none` when the constructor succeeds -/
def constructMsg (v : Ver) (s : Str) : Option Str :=
  match parseMsg v s with
  | .error e => some e
  | .ok _ => none

/-- `str(e)` for `CVSSn.from_rh_vector(text)`; `none` when it succeeds -/
def fromRhMsg (v : Ver) (text : Str) : Option Str :=
  let malformed := c!"Malformed CVSS" ++ vd v ++ c!" vector in Red Hat notation " ++ q text
  match splitFirst '/' text with
  | none => some malformed
  | some (score, baseVector) =>
    match Float.parseFloat score with
    | none => some malformed
    | some fv =>
      match constructMsg v baseVector with
      | some e => some e
      | none =>
        match construct v baseVector with
        | .error _ => some c!"<foreign>"
        | .ok o =>
          if Float.eqScore o.base fv then none
          else some (c!"CVSS" ++ vd v ++ c!" vector in Red Hat notation " ++ q baseVector ++ c!" has score of " ++
                     q (showScore o.base) ++ c!" which does not match specified score of " ++ q score)

end Cvss.Model.Messages
