/-
  Model of cvss/interactive.py `ask_interactively(version, all_metrics, no_colors)`:
  which questions are asked, which answers are accepted, and the returned string.
  Prompt texts and colours are not modelled.
-/
import Cvss.Model.Any
namespace Cvss.Model.Interactive
open Cvss Cvss.Model

/-- the `version` argument: 2, 3.0, 3.1, 4.0 -/
inductive IVer | i2 | i30 | i31 | i4
  deriving DecidableEq, Repr, Inhabited

def abbrsOf : IVer → List Str
  | .i2 => keys Gen.V2.abbrs | .i30 => keys Gen.V3.abbrs | .i31 => keys Gen.V3.abbrs | .i4 => keys Gen.V4.abbrs

def mandatoryOf : IVer → List Str
  | .i2 => Gen.V2.mandatory | .i30 => Gen.V3.mandatory | .i31 => Gen.V3.mandatory | .i4 => Gen.V4.mandatory

def valueNamesOf : IVer → List (Str × List (Str × Str))
  | .i2 => Gen.V2.valueNames | .i30 => Gen.V3.valueNames | .i31 => Gen.V3.valueNames | .i4 => Gen.V4.valueNames

def prefixOf : IVer → Str
  | .i2 => [] | .i30 => c!"CVSS:3.0/" | .i31 => c!"CVSS:3.1/" | .i4 => c!"CVSS:4.0/"

def ndOf : IVer → Str
  | .i2 => c!"ND" | _ => c!"X"

/-- `string_input().strip().upper()` on ASCII input, then the empty-answer default -/
def normalize (v : IVer) (answer : Str) : Str :=
  let a := upper (Float.stripStr answer)
  if a = [] then ndOf v else a

/-- which legal value an (already normalised, upper-cased) answer selects:
    `[value for value in values if value.upper() == input_value]`, first match -/
def select (values : List Str) (a : Str) : Option Str :=
  values.find? (fun v => upper v = a)

/-- the `while True:` loop for one metric: consume answers until one is accepted.
    Returns (accepted value, remaining answers, number consumed); `none` ⇔ EOFError. -/
def askOne (v : IVer) (values : List Str) : List Str → Option (Str × List Str × Nat)
  | [] => none
  | a :: rest =>
    match select values (normalize v a) with
    | some x => some (x, rest, 1)
    | none =>
      match askOne v values rest with
      | none => none
      | some (x, r, n) => some (x, r, n + 1)

inductive Outcome
  | result (vector : Str) (consumed : Nat) (asked : List (Str × Nat))   -- metric, answers consumed for it
  | eof (asked : List (Str × Nat))                                    -- questions reached before EOF
  | keyError                                                           -- METRICS_VALUE_NAMES[metric]
  deriving Repr

def loop (v : IVer) : List Str → List Str → List Str → List (Str × Nat) → Outcome
  | [], _, fields, asked =>
    .result (prefixOf v ++ join '/' fields) (asked.foldl (fun n p => n + p.2) 0) asked
  | m :: ms, answers, fields, asked =>
    match lookup m (valueNamesOf v) with
    | none => .keyError
    | some row =>
      match askOne v (keys row) answers with
      | none => .eof (asked ++ [(m, answers.length + 1)])
      | some (x, rest, n) => loop v ms rest (fields ++ [m ++ ':' :: x]) (asked ++ [(m, n)])

/-- `ask_interactively(version, all_metrics)` fed with the given answers -/
def ask (v : IVer) (allMetrics : Bool) (answers : List Str) : Outcome :=
  loop v (if allMetrics then abbrsOf v else mandatoryOf v) answers [] []

end Cvss.Model.Interactive
