/-
  Model of cvss/cvss_calculator.py `main()`: version dispatch, interactive fall-back, report format.
  Exception message texts are not modelled: an error is reported as the single line `errorLine`,
  which the harness instantiates with `str(exception)` obtained from the API.
-/
import Cvss.Model.Json
import Cvss.Model.Interactive
namespace Cvss.Model.Cli
open Cvss Cvss.Model

structure Flags where
  f2 : Bool
  f3 : Bool
  f4 : Bool
  all : Bool
  noColors : Bool
  json : Bool
  vector : Option Str      -- `-v VECTOR`
  deriving Repr

/-- `version_mapping.get(first truthy key of args.__dict__, DEFAULT_VERSION)`;
    `args.__dict__` is in insertion order: "2", "3", "4", "all", "vector", "no_colors", "json" -/
def version (f : Flags) : Interactive.IVer :=
  if f.f2 then .i2 else if f.f3 then .i30 else if f.f4 then .i4 else .i31

def classOf : Interactive.IVer → Ver
  | .i2 => .v2 | .i30 => .v3 | .i31 => .v3 | .i4 => .v4

def PAD : Nat := 24

def scoreNames : List Str := [c!"Base Score", c!"Temporal Score", c!"Environmental Score"]

/-- `print(*score)` for slot i -/
def scoreText (v : Interactive.IVer) (o : AnyObj) (i : Nat) : Option Str :=
  match o.scores[i]? with
  | none => none                       -- IndexError → `pass`
  | some sc =>
    let num : Str := match sc with
      | none => c!"None"
      | some x => showScore x
    if v = .i2 then some num
    else
      match o.severities[i]? with
      | none => none
      | some sev => some (num ++ c!" (" ++ sev ++ c!")")

def jsonEscape (s : Str) : Str :=
  s.flatMap (fun c => if c = '"' then c!"\\\"" else if c = '\\' then c!"\\\\" else [c])

def jvalText : JVal → Str
  | .str s => '"' :: jsonEscape s ++ c!"\""
  | .num x => showScore x

/-- `json.dumps(obj, indent=2)` of a flat object, as lines -/
def jsonLines (o : JObj) : List Str :=
  if o = [] then [c!"{}"]
  else
    let n := o.length
    [c!"{"] ++
    (o.zipIdx.map (fun (kv, i) =>
      c!"  \"" ++ jsonEscape kv.1 ++ c!"\": " ++ jvalText kv.2 ++ (if i + 1 < n then c!"," else []))) ++
    [c!"}"]

def errorLine : Str := c!"<error message>"

/-- the part of stdout printed after the vector string is known; `none` ⇔ an exception escapes -/
def report (f : Flags) (vectorString : Str) : Option (List Str) :=
  let v := version f
  match construct (classOf v) vectorString with
  | .error .foreign => none
  | .error _ => some [errorLine]
  | .ok o =>
    let head : Str := match v with
      | .i2 => c!"CVSS2" | .i4 => c!"CVSS4" | _ => c!"CVSS3"
    let scoreLines := (scoreNames.zipIdx.filterMap (fun (name, i) =>
      match scoreText v o i with
      | none => none
      | some t => some (name ++ c!":" ++ List.replicate (PAD - name.length - 2) ' ' ++ t)))
    let tail := [c!"Cleaned vector:        " ++ o.clean, c!"Red Hat vector:        " ++ o.rh]
    if f.json then
      match o.asJson true true with
      | none => none
      | some j => some ([head] ++ scoreLines ++ tail ++ [c!"CVSS vector in JSON:"] ++ jsonLines j)
    else some ([head] ++ scoreLines ++ tail)

inductive Outcome
  | lines (ls : List Str)       -- report lines (after any interactive dialogue), exit status 0
  | eof                         -- EOFError during interactive entry: prints a newline, exit status 0
  | crash                       -- an exception escapes
  deriving Repr

/-- `main()` given the lines available on stdin -/
def main (f : Flags) (stdin : List Str) : Outcome :=
  let vec : Option Str := match f.vector with
    | some s => if s = [] then none else some s
    | none => none
  match vec with
  | some s =>
    match report f s with
    | some ls => .lines ls
    | none => .crash
  | none =>
    match Interactive.ask (version f) f.all stdin with
    | .eof _ => .eof
    | .keyError => .crash
    | .result s _ _ =>
      match report f s with
      | some ls => .lines ls
      | none => .crash

end Cvss.Model.Cli
