/-
  Model of `as_json(sort, minimal)` of the three classes.
-/
import Cvss.Model.Any
namespace Cvss.Model
open Cvss

inductive JVal
  | str (s : Str)
  | num (x : Rat)
  deriving Repr, DecidableEq

abbrev JObj := List (Str × JVal)

/-- `us()` of cvss2.py -/
def us2 (t : Str) : Str := replaceChar ' ' '_' (replaceChar '-' '_' (upper t))

/-- `us()` of cvss3.py / cvss4.py -/
def us3 (t : Str) : Str := if t = c!"Adjacent" then c!"ADJACENT_NETWORK" else us2 t

/-- lexicographic order on strings by code point (Python `str.__lt__`) -/
def strLt : Str → Str → Bool
  | [], [] => false
  | [], _ :: _ => true
  | _ :: _, [] => false
  | a :: as, b :: bs => if a.toNat < b.toNat then true else if b.toNat < a.toNat then false else strLt as bs

def insertSorted (kv : Str × JVal) : JObj → JObj
  | [] => [kv]
  | x :: xs => if strLt kv.1 x.1 then kv :: x :: xs else x :: insertSorted kv xs

/-- `OrderedDict(sorted(data.items()))` (keys are distinct) -/
def sortObj (o : JObj) : JObj := o.foldl (fun acc kv => insertSorted kv acc) []

/-- `add_metric_to_data` for a list of metrics; `none` ⇔ KeyError -/
def addMetrics (jsonKeys : List (Str × Str)) (descr : Str → Option Str) (usf : Str → Str) :
    JObj → List Str → Option JObj
  | data, [] => some data
  | data, m :: rest =>
    match lookup m jsonKeys, descr m with
    | some k, some d => addMetrics jsonKeys descr usf (insert k (.str (usf d)) data) rest
    | _, _ => none

/-- Decimal truthiness used by cvss2.py: `float(self.temporal_score) if self.temporal_score else 0.0` -/
def truthy : Option Rat → Bool
  | none => false
  | some x => x ≠ 0

def asJson2 (o : V2.Obj) (sort minimal : Bool) : Option JObj := do
  let add := addMetrics Gen.V2.jsonKeys (V2.getDescription o.metrics) us2
  let d0 : JObj := [(c!"version", .str c!"2.0"), (c!"vectorString", .str o.vector), (c!"baseScore", .num o.base)]
  let d1 ← add d0 Gen.V2.mandatory
  let d2 ←
    if !minimal || o.temporal.isSome then do
      let d ← add d1 Gen.V2.temporal
      pure (insert c!"temporalScore" (.num (if truthy o.temporal then o.temporal.getD 0 else 0)) d)
    else pure d1
  let d3 ←
    if !minimal || o.env.isSome then do
      let d ← add d2 Gen.V2.environmental
      pure (insert c!"environmentalScore" (.num (if truthy o.env then o.env.getD 0 else 0)) d)
    else pure d2
  pure (if sort then sortObj d3 else d3)

def asJson3 (o : V3.Obj) (sort minimal : Bool) : Option JObj := do
  let add := addMetrics Gen.V3.jsonKeys (V3.getDescription o.metrics) us3
  let d0 : JObj := [(c!"version", .str (c!"3." ++ natToStr o.minor)), (c!"vectorString", .str o.vector)]
  let d1 ← add d0 Gen.V3.mandatory
  let d1 := insert c!"baseSeverity" (.str (us3 (V3.sevOf o.base))) (insert c!"baseScore" (.num o.base) d1)
  let d2 ←
    if !minimal || Gen.V3.temporal.any (fun k => hasKey k o.orig) then do
      let d ← add d1 Gen.V3.temporal
      pure (insert c!"temporalSeverity" (.str (us3 (V3.sevOf o.temporal)))
        (insert c!"temporalScore" (.num o.temporal) d))
    else pure d1
  let d3 ←
    if !minimal || Gen.V3.environmental.any (fun k => hasKey k o.orig) then do
      let d ← add d2 Gen.V3.environmental
      pure (insert c!"environmentalSeverity" (.str (us3 (V3.sevOf o.env)))
        (insert c!"environmentalScore" (.num o.env) d))
    else pure d2
  pure (if sort then sortObj d3 else d3)

def asJson4 (o : V4.Obj) (sort _minimal : Bool) : Option JObj := do
  let add := addMetrics Gen.V4.jsonKeys (V4.getDescription o.metrics) us3
  let d0 : JObj := [(c!"version", .str c!"4"), (c!"vectorString", .str o.vector)]
  let d1 ← add d0 Gen.V4.metricsOrder
  let d2 := insert c!"baseSeverity" (.str o.severity) (insert c!"baseScore" (.num o.base) d1)
  pure (if sort then sortObj d2 else d2)

def AnyObj.asJson : AnyObj → Bool → Bool → Option JObj
  | .o2 o, s, m => asJson2 o s m
  | .o3 o, s, m => asJson3 o s m
  | .o4 o, s, m => asJson4 o s m

end Cvss.Model
