/-
  Model of cvss/cvss2.py (class CVSS2) over the generated tables `Cvss.Gen.V2`.
  `Decimal` arithmetic is modelled by exact rationals (exactness: every v2 intermediate has at most
  23 significant digits, below the 28-digit context precision).
-/
import Cvss.Basic
import Cvss.Gen.V2
import Cvss.Model.Parse
namespace Cvss.Model.V2
open Cvss Cvss.Model

def tables : Tables where
  abbrs := keys Gen.V2.abbrs
  legal := Gen.V2.values.map (fun (k, row) => (k, keys row))
  mandatory := Gen.V2.mandatory
  v4style := false

def ND : Str := c!"ND"

/-- `get_value`: `METRICS_VALUES[abbr][self.metrics.get(abbr, "ND")]`; `none` ⇔ KeyError or a `None`
    weight entering arithmetic -/
def getValue (m : MMap) (abbr : Str) : Option Rat :=
  match lookup abbr Gen.V2.values with
  | none => none
  | some row =>
    match lookup ((lookup abbr m).getD ND) row with
    | none => none
    | some w => w

/-- `get_value_description` -/
def getDescription (m : MMap) (abbr : Str) : Option Str :=
  match lookup abbr Gen.V2.valueNames with
  | none => none
  | some row => lookup ((lookup abbr m).getD ND) row

def r (n : Int) (d : Nat) : Rat := mkRat n d

def impactEq (m : MMap) : Option Rat := do
  let c ← getValue m c!"C"
  let i ← getValue m c!"I"
  let a ← getValue m c!"A"
  pure (r 1041 100 * (1 - (1 - c) * (1 - i) * (1 - a)))

def adjustedImpactEq (m : MMap) : Option Rat := do
  let c ← getValue m c!"C"
  let cr ← getValue m c!"CR"
  let i ← getValue m c!"I"
  let ir ← getValue m c!"IR"
  let a ← getValue m c!"A"
  let ar ← getValue m c!"AR"
  pure (pyMin 10 (r 1041 100 * (1 - (1 - c * cr) * (1 - i * ir) * (1 - a * ar))))

/-- `base_score_equation(adjusted_impact)` -/
def baseEq (m : MMap) (adjusted : Bool) : Option Rat := do
  let impact ← if adjusted then adjustedImpactEq m else impactEq m
  let av ← getValue m c!"AV"
  let ac ← getValue m c!"AC"
  let au ← getValue m c!"Au"
  let expl := 20 * av * ac * au
  let f : Rat := if impact = 0 then 0 else r 1176 1000
  pure (roundHalfUp1 (((r 6 10 * impact) + (r 4 10 * expl) - r 15 10) * f))

def baseScore (m : MMap) : Option Rat := do
  let b ← baseEq m false
  pure (pyMax 0 b)

/-- `temporal_score_equation(adjusted_impact)`; `base` is `self.base_score` -/
def temporalEq (m : MMap) (base : Rat) (adjusted : Bool) : Option Rat := do
  let b ← if adjusted then baseEq m true else pure base
  let e ← getValue m c!"E"
  let rl ← getValue m c!"RL"
  let rc ← getValue m c!"RC"
  pure (roundHalfUp1 (b * e * rl * rc))

/-- `all(self.metrics.get(a, "ND") == "ND" for a in group)` -/
def allND (m : MMap) (group : List Str) : Bool :=
  group.all (fun a => (lookup a m).getD ND = ND)

structure Obj where
  vector : Str
  metrics : MMap
  base : Rat
  temporal : Option Rat
  env : Option Rat
  deriving Repr

/-- scores as computed by `__init__`; outer `none` ⇔ an exception outside the CVSSError hierarchy -/
def computeScores (m : MMap) : Option (Rat × Option Rat × Option Rat) := do
  let base ← baseScore m
  let temporal ←
    if allND m Gen.V2.temporal then pure none
    else do
      let t ← temporalEq m base false
      pure (some (pyMax 0 t))
  let env ←
    if allND m Gen.V2.environmental then pure none
    else do
      let ta ← temporalEq m base true
      let cdp ← getValue m c!"CDP"
      let td ← getValue m c!"TD"
      pure (some (pyMax 0 (roundHalfUp1 ((ta + (10 - ta) * cdp) * td))))
  pure (base, temporal, env)

/-- `parse_vector()` followed by `check_mandatory()` -/
def parse (s : Str) : Except Err MMap :=
  match parseNoPrefix tables s with
  | .error e => .error e
  | .ok m =>
    match checkMandatory tables m with
    | .error e => .error e
    | .ok _ => .ok m

/-- `CVSS2(vector)` -/
def construct (s : Str) : Except Err Obj :=
  match parse s with
  | .error e => .error e
  | .ok m =>
    match computeScores m with
    | none => .error .foreign
    | some (b, t, e) => .ok { vector := s, metrics := m, base := b, temporal := t, env := e }

/-- `scores()` -/
def Obj.scores (o : Obj) : List (Option Rat) := [some o.base, o.temporal, o.env]

/-- `clean_vector()` -/
def cleanOf (m : MMap) : Str :=
  join '/' ((keys Gen.V2.abbrs).filterMap (fun k =>
    match lookup k m with
    | some v => if v ≠ ND then some (k ++ ':' :: v) else none
    | none => none))

def Obj.clean (o : Obj) : Str := cleanOf o.metrics

def sevOf : Option Rat → Str
  | none => c!"None"
  | some s => if s ≤ r 39 10 then c!"Low" else if s ≤ r 69 10 then c!"Medium" else c!"High"

/-- `severities()` -/
def Obj.severities (o : Obj) : List Str := o.scores.map sevOf

def Obj.temporalVector (o : Obj) : Str :=
  join '/' (Gen.V2.temporal.map (fun k => k ++ ':' :: (lookup k o.metrics).getD ND))

def Obj.environmentalVector (o : Obj) : Str :=
  join '/' (Gen.V2.environmental.map (fun k => k ++ ':' :: (lookup k o.metrics).getD ND))

end Cvss.Model.V2
