/-
  Version-independent view of the three classes: observables shared by CVSS2 / CVSS3 / CVSS4,
  Red Hat notation, equality and hash key.
-/
import Cvss.Model.V2
import Cvss.Model.V3
import Cvss.Model.V4
import Cvss.Model.Float
namespace Cvss.Model
open Cvss

inductive Ver | v2 | v3 | v4
  deriving DecidableEq, Repr, Inhabited

inductive AnyObj
  | o2 (o : V2.Obj)
  | o3 (o : V3.Obj)
  | o4 (o : V4.Obj)
  deriving Repr

def construct : Ver → Str → Except Err AnyObj
  | .v2, s => (V2.construct s).map .o2
  | .v3, s => (V3.construct s).map .o3
  | .v4, s => (V4.construct s).map .o4

namespace AnyObj

def ver : AnyObj → Ver
  | .o2 _ => .v2 | .o3 _ => .v3 | .o4 _ => .v4

def vector : AnyObj → Str
  | .o2 o => o.vector | .o3 o => o.vector | .o4 o => o.vector

def scores : AnyObj → List (Option Rat)
  | .o2 o => o.scores | .o3 o => o.scores | .o4 o => o.scores

def severities : AnyObj → List Str
  | .o2 o => o.severities | .o3 o => o.severities | .o4 o => o.severities

/-- `clean_vector(output_prefix)`; CVSS2.clean_vector takes no argument -/
def clean : AnyObj → (outputPrefix : Bool := true) → Str
  | .o2 o, _ => o.clean | .o3 o, p => o.clean p | .o4 o, p => o.clean p

def base : AnyObj → Rat
  | .o2 o => o.base | .o3 o => o.base | .o4 o => o.base

/-- `original_metrics` (v2: `metrics`) -/
def orig : AnyObj → MMap
  | .o2 o => o.metrics | .o3 o => o.orig | .o4 o => o.orig

end AnyObj

/-- `str(float)` of a non-negative one-decimal score -/
def showScore (x : Rat) : Str :=
  let t := (x * 10).floor.toNat
  natToStr (t / 10) ++ '.' :: natToStr (t % 10)

/-- `rh_vector()` -/
def AnyObj.rh (o : AnyObj) : Str := showScore o.base ++ '/' :: o.clean

/-- `__eq__` between two library objects -/
def AnyObj.eq (a b : AnyObj) : Bool := a.ver = b.ver && a.clean = b.clean

/-- what `__hash__` hashes -/
def AnyObj.hashKey (o : AnyObj) : Str := o.clean

/-- `X.from_rh_vector(text)` -/
def fromRh (v : Ver) (text : Str) : Except Err AnyObj :=
  match splitFirst '/' text with
  | none => .error .rhMalformed
  | some (score, baseVector) =>
    match Float.parseFloat score with
    | none => .error .rhMalformed
    | some fv =>
      match construct v baseVector with
      | .error e => .error e
      | .ok o => if Float.eqScore o.base fv then .ok o else .error .rhMismatch

end Cvss.Model
