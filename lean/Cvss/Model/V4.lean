/-
  Model of cvss/cvss4.py (class CVSS4) over the generated tables `Cvss.Gen.V4`.
  Binary floating point is modelled by exact rationals; `EPSILON` is kept (it is part of the code);
  see `Props/C02.lean` (`v4_epsilon_robust`) for why the perturbation cannot change a result.
-/
import Cvss.Basic
import Cvss.Gen.V4
import Cvss.Model.Parse
namespace Cvss.Model.V4
open Cvss Cvss.Model

def tables : Tables where
  abbrs := keys Gen.V4.abbrs
  legal := Gen.V4.valueNames.map (fun (k, row) => (k, keys row))
  mandatory := Gen.V4.mandatory
  v4style := true

def X : Str := c!"X"
def pfx : Str := c!"CVSS:4.0/"

def r (n : Int) (d : Nat) : Rat := mkRat n d

def modifiedMetrics : List Str :=
  [c!"MAV", c!"MAC", c!"MAT", c!"MPR", c!"MUI", c!"MVC", c!"MVI", c!"MVA", c!"MSC", c!"MSI", c!"MSA"]

def defaultedMetrics : List Str :=
  [c!"S", c!"AU", c!"R", c!"V", c!"RE", c!"U", c!"CR", c!"IR", c!"AR", c!"E"]

/-- first loop of `add_missing_optional` (`none` ⇔ KeyError) -/
def fillModified : MMap → List Str → Option MMap
  | m, [] => some m
  | m, a :: rest =>
    let needs : Bool := match lookup a m with
      | some v => decide (v = X)
      | none => true
    if needs then
      match lookup (a.drop 1) m with
      | none => none
      | some b => fillModified (insert a b m) rest
    else fillModified m rest

/-- second loop of `add_missing_optional` -/
def fillDefaults : MMap → List Str → MMap
  | m, [] => m
  | m, a :: rest => if hasKey a m then fillDefaults m rest else fillDefaults (insert a X m) rest

/-- `m(metric)`; `none` is Python's `None` -/
def mEff (m : MMap) (metric : Str) : Option Str :=
  let selected := lookup metric m
  if metric = c!"E" ∧ selected = some X then some c!"A"
  else if metric = c!"CR" ∧ selected = some X then some c!"H"
  else if metric = c!"IR" ∧ selected = some X then some c!"H"
  else if metric = c!"AR" ∧ selected = some X then some c!"H"
  else
    match lookup ('M' :: metric) m with
    | some ms => if ms ≠ X then some ms else selected
    | none => selected

/-- the six digits of `macroVector()`; `none` ⇔ the string would contain "None" -/
def macroVector (m : MMap) : Option (List Nat) :=
  let is (k : Str) (v : Str) : Bool := mEff m k = some v
  let avN := is c!"AV" c!"N"; let prN := is c!"PR" c!"N"; let uiN := is c!"UI" c!"N"
  let avP := is c!"AV" c!"P"
  let eq1 : Nat :=
    if avN && prN && uiN then 0
    else if (avN || prN || uiN) && !(avN && prN && uiN) && !avP then 1
    else 2
  let eq2 : Nat := if is c!"AC" c!"L" && is c!"AT" c!"N" then 0 else 1
  let vcH := is c!"VC" c!"H"; let viH := is c!"VI" c!"H"; let vaH := is c!"VA" c!"H"
  let eq3 : Nat :=
    if vcH && viH then 0
    else if !(vcH && viH) && (vcH || viH || vaH) then 1
    else 2
  let sS := is c!"MSI" c!"S" || is c!"MSA" c!"S"
  let sH := is c!"SC" c!"H" || is c!"SI" c!"H" || is c!"SA" c!"H"
  let eq4 : Nat := if sS then 0 else if sH then 1 else 2
  let eq5 : Option Nat :=
    if is c!"E" c!"A" then some 0 else if is c!"E" c!"P" then some 1
    else if is c!"E" c!"U" then some 2 else none
  let eq6 : Nat :=
    if (is c!"CR" c!"H" && vcH) || (is c!"IR" c!"H" && viH) || (is c!"AR" c!"H" && vaH) then 0 else 1
  match eq5 with
  | none => none
  | some e5 => some [eq1, eq2, eq3, eq4, e5, eq6]

def mvKey (d : List Nat) : Str := d.flatMap natToStr

/-- the literal `*_levels` dicts of `compute_base_score`, in tenths -/
def levels : List (Str × List (Str × Rat)) :=
  [ (c!"AV", [(c!"N", 0), (c!"A", r 1 10), (c!"L", r 2 10), (c!"P", r 3 10)]),
    (c!"PR", [(c!"N", 0), (c!"L", r 1 10), (c!"H", r 2 10)]),
    (c!"UI", [(c!"N", 0), (c!"P", r 1 10), (c!"A", r 2 10)]),
    (c!"AC", [(c!"L", 0), (c!"H", r 1 10)]),
    (c!"AT", [(c!"N", 0), (c!"P", r 1 10)]),
    (c!"VC", [(c!"H", 0), (c!"L", r 1 10), (c!"N", r 2 10)]),
    (c!"VI", [(c!"H", 0), (c!"L", r 1 10), (c!"N", r 2 10)]),
    (c!"VA", [(c!"H", 0), (c!"L", r 1 10), (c!"N", r 2 10)]),
    (c!"SC", [(c!"H", r 1 10), (c!"L", r 2 10), (c!"N", r 3 10)]),
    (c!"SI", [(c!"S", 0), (c!"H", r 1 10), (c!"L", r 2 10), (c!"N", r 3 10)]),
    (c!"SA", [(c!"S", 0), (c!"H", r 1 10), (c!"L", r 2 10), (c!"N", r 3 10)]),
    (c!"CR", [(c!"H", 0), (c!"M", r 1 10), (c!"L", r 2 10)]),
    (c!"IR", [(c!"H", 0), (c!"M", r 1 10), (c!"L", r 2 10)]),
    (c!"AR", [(c!"H", 0), (c!"M", r 1 10), (c!"L", r 2 10)]) ]

/-- order of the 14 `severity_distance_*` computations -/
def distMetrics : List Str :=
  [c!"AV", c!"PR", c!"UI", c!"AC", c!"AT", c!"VC", c!"VI", c!"VA", c!"SC", c!"SI", c!"SA",
   c!"CR", c!"IR", c!"AR"]

/-- `X_levels[self.m(X)] - X_levels[self.extract_value_metric(X, max_vector)]`;
    the max vector is the structured list the translator extracted with the library's own
    `extract_value_metric` -/
def distance (m : MMap) (maxv : List (Str × Str)) (k : Str) : Option Rat := do
  let tbl ← lookup k levels
  let cur ← mEff m k
  let lc ← lookup cur tbl
  let mv ← lookup k maxv
  let lm ← lookup mv tbl
  pure (lc - lm)

def distances (m : MMap) (maxv : List (Str × Str)) : Option (List Rat) :=
  distMetrics.mapM (distance m maxv)

/-- the `for max_vector in max_vectors: … continue / break` loop; the variables keep the values of
    the last iteration when no max vector qualifies; an empty list leaves them unbound (NameError) -/
def search (m : MMap) : List (List (Str × Str)) → Option (List Rat) → Option (List Rat)
  | [], last => last
  | mv :: rest, _ =>
    match distances m mv with
    | none => none
    | some d => if d.any (· < 0) then search m rest (some d) else some d

/-- the five nested loops building `max_vectors` -/
def product (e1 e2 e36 e4 e5 : List (List (Str × Str))) : List (List (Str × Str)) :=
  e1.flatMap fun a => e2.flatMap fun b => e36.flatMap fun c => e4.flatMap fun d =>
    e5.map fun e => a ++ b ++ c ++ d ++ e

/-- Python `max(a, b)` where a missing table row is `nan` -/
def pyMaxNan : Option Rat → Option Rat → Option Rat
  | none, _ => none
  | some x, none => some x
  | some x, some y => some (if y > x then y else x)

def lookupScore (d : List Nat) : Option Rat := lookup (mvKey d) Gen.V4.lookupTable

/-- contribution of one equivalence class: (counted?, normalized severity);
    outer `none` ⇔ ZeroDivisionError -/
def contribution (value : Rat) (lower : Option Rat) (cur maxSev : Rat) : Option (Nat × Rat) :=
  match lower with
  | none => some (0, 0)                       -- value - nan = nan; `nan >= 0` is False
  | some l =>
    let avail := value - l
    if avail ≥ 0 then
      if maxSev = 0 then none else some (1, avail * (cur / maxSev))
    else some (0, 0)

/-- `final_rounding` -/
def finalRounding (x : Rat) : Rat := roundHalfUp1 (x + Gen.V4.epsilon)

/-- `compute_base_score`; `none` ⇔ an exception (KeyError, ValueError, NameError, ZeroDivisionError) -/
def baseScore (m : MMap) : Option Rat := do
  if [c!"VC", c!"VI", c!"VA", c!"SC", c!"SI", c!"SA"].all (fun k => mEff m k = some c!"N") then
    pure 0
  else
    let mv ← macroVector m
    let value ← lookupScore mv
    match mv with
    | [e1, e2, e3, e4, e5, e6] =>
      let s1 := lookupScore [e1 + 1, e2, e3, e4, e5, e6]
      let s2 := lookupScore [e1, e2 + 1, e3, e4, e5, e6]
      let s36 :=
        if e3 = 1 ∧ e6 = 1 then lookupScore [e1, e2, e3 + 1, e4, e5, e6]
        else if e3 = 0 ∧ e6 = 1 then lookupScore [e1, e2, e3 + 1, e4, e5, e6]
        else if e3 = 1 ∧ e6 = 0 then lookupScore [e1, e2, e3, e4, e5, e6 + 1]
        else if e3 = 0 ∧ e6 = 0 then
          pyMaxNan (lookupScore [e1, e2, e3, e4, e5, e6 + 1]) (lookupScore [e1, e2, e3 + 1, e4, e5, e6])
        else lookupScore [e1, e2, e3 + 1, e4, e5, e6 + 1]
      let s4 := lookupScore [e1, e2, e3, e4 + 1, e5, e6]
      let s5 := lookupScore [e1, e2, e3, e4, e5 + 1, e6]
      let m1 ← lookup (natToStr e1) Gen.V4.maxEq1
      let m2 ← lookup (natToStr e2) Gen.V4.maxEq2
      let m36 ← lookup (natToStr e3 ++ natToStr e6) Gen.V4.maxEq36
      let m4 ← lookup (natToStr e4) Gen.V4.maxEq4
      let m5 ← lookup (natToStr e5) Gen.V4.maxEq5
      let d ← search m (product m1 m2 m36 m4 m5) none
      match d with
      | [dAV, dPR, dUI, dAC, dAT, dVC, dVI, dVA, dSC, dSI, dSA, dCR, dIR, dAR] =>
        let c1 := dAV + dPR + dUI
        let c2 := dAC + dAT
        let c36 := dVC + dVI + dVA + dCR + dIR + dAR
        let c4 := dSC + dSI + dSA
        let step : Rat := r 1 10
        let ms1 ← lookup e1 Gen.V4.maxSeverityEq1
        let ms2 ← lookup e2 Gen.V4.maxSeverityEq2
        let ms36 ← lookup (e3, e6) Gen.V4.maxSeverityEq36
        let ms4 ← lookup e4 Gen.V4.maxSeverityEq4
        let k1 ← contribution value s1 c1 (ms1 * step)
        let k2 ← contribution value s2 c2 (ms2 * step)
        let k36 ← contribution value s36 c36 (ms36 * step)
        let k4 ← contribution value s4 c4 (ms4 * step)
        -- eq5: percent_to_next_eq5_severity = 0
        let k5 : Nat × Rat := match s5 with
          | none => (0, 0)
          | some l => if value - l ≥ 0 then (1, 0) else (0, 0)
        let n := k1.1 + k2.1 + k36.1 + k4.1 + k5.1
        let mean : Rat := if n = 0 then 0 else (k1.2 + k2.2 + k36.2 + k4.2 + k5.2) / n
        let v := value - mean
        let v := pyMax 0 v
        let v := pyMin 10 v
        pure (finalRounding v)
      | _ => none
    | _ => none

def sevOf (s : Rat) : Str :=
  if s = 0 then c!"None"
  else if s ≤ r 39 10 then c!"Low"
  else if s ≤ r 69 10 then c!"Medium"
  else if s ≤ r 89 10 then c!"High"
  else c!"Critical"

structure Obj where
  vector : Str
  orig : MMap
  metrics : MMap
  base : Rat
  severity : Str
  deriving Repr

def build (s : Str) (m : MMap) : Option Obj := do
  let m1 ← fillModified m modifiedMetrics
  let full := fillDefaults m1 defaultedMetrics
  let b ← baseScore full
  pure { vector := s, orig := m, metrics := full, base := b, severity := sevOf b }

/-- `parse_vector()` followed by `check_mandatory()` -/
def parse (s : Str) : Except Err MMap :=
  match parseWithPrefix tables [pfx] s with
  | .error e => .error e
  | .ok (_, m) =>
    match checkMandatory tables m with
    | .error e => .error e
    | .ok _ => .ok m

/-- `CVSS4(vector)` -/
def construct (s : Str) : Except Err Obj :=
  match parse s with
  | .error e => .error e
  | .ok m =>
    match build s m with
    | none => .error .foreign
    | some o => .ok o

def Obj.scores (o : Obj) : List (Option Rat) := [some o.base]
def Obj.severities (o : Obj) : List Str := [o.severity]

def cleanOf (orig : MMap) (outputPrefix : Bool) : Str :=
  (if outputPrefix then pfx else []) ++
  join '/' ((keys Gen.V4.abbrs).filterMap (fun k =>
    match lookup k orig with
    | some v => if v ≠ X then some (k ++ ':' :: v) else none
    | none => none))

def Obj.clean (o : Obj) (outputPrefix : Bool := true) : Str := cleanOf o.orig outputPrefix

def getDescription (m : MMap) (abbr : Str) : Option Str :=
  match lookup abbr Gen.V4.valueNames with
  | none => none
  | some row => lookup ((lookup abbr m).getD X) row

end Cvss.Model.V4
