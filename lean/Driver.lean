/-
  Line-protocol driver over the executable model (import-free of Mathlib; built as a `lean_exe`).
  One request per line, TAB-separated; strings are decimal code points joined by ',' ("e" = empty).
  One response line per request.
-/
import Cvss.Model.Cli
import Cvss.Model.CliMsg
import Cvss.Model.Prompts
import Cvss.Model.Extract
import Cvss.Gen.Unicode
import Cvss.Spec.All
open Cvss Cvss.Model

def decodeStr (s : String) : Option Str :=
  if s = "e" then some []
  else (s.splitOn ",").mapM (fun t => t.toNat?.map Char.ofNat)

def esc (s : Str) : String :=
  String.ofList (s.flatMap (fun c =>
    if c = '\t' then ['\\', 't'] else if c = '\n' then ['\\', 'n'] else if c = '\r' then ['\\', 'r']
    else if c = '\\' then ['\\', '\\'] else [c]))

def showRat (x : Rat) : String :=
  if x.den = 1 then toString x.num else s!"{x.num}/{x.den}"

/-- a score as the text Python's `repr(float)` gives for a one-decimal value -/
def showOptScore : Option Rat → String
  | none => "None"
  | some x =>
    if x ≥ 0 ∧ (x * 10).den = 1 then String.ofList (showScore x) else "?" ++ showRat x

def parseVer (s : String) : Option Ver :=
  if s = "2" then some .v2 else if s = "3" then some .v3 else if s = "4" then some .v4 else none

def parseIVer (s : String) : Option Interactive.IVer :=
  if s = "2" then some .i2 else if s = "3.0" then some .i30 else if s = "3.1" then some .i31
  else if s = "4" then some .i4 else none

def showJson (j : Option JObj) : String :=
  match j with
  | none => "KEYERROR"
  | some o => ",".intercalate (o.map (fun (k, v) =>
      esc k ++ ":" ++ (match v with
        | .str s => "\"" ++ esc s ++ "\""
        | .num x => showOptScore (some x))))

def obsField (o : AnyObj) (c : Char) : String :=
  match c with
  | 's' => " ".intercalate (o.scores.map showOptScore)
  | 'v' => "|".intercalate (o.severities.map (fun s => esc s))
  | 'c' => esc o.clean
  | 'n' => esc (o.clean false)
  | 'r' => esc o.rh
  | 't' => match o with
    | .o2 x => esc x.temporalVector | .o3 x => esc x.temporalVector | .o4 _ => "-"
  | 'e' => match o with
    | .o2 x => esc x.environmentalVector | .o3 x => esc x.environmentalVector | .o4 _ => "-"
  | 'j' => showJson (o.asJson false false)
  | 'k' => showJson (o.asJson false true)
  | 'J' => showJson (o.asJson true false)
  | 'K' => showJson (o.asJson true true)
  | 'm' => match o with
    | .o3 x => toString x.minor | _ => "-"
  | _ => "?"

def showRes (mask : String) : Except Err AnyObj → String
  | .error e => "err\t" ++ e.name
  | .ok o => "ok\t" ++ "\t".intercalate (mask.toList.map (obsField o))

def isDigitU : Char → Bool := Extract.isDigitWith Gen.Unicode.nd

def handle (line : String) : String :=
  match line.splitOn "\t" with
  | ["C", v, mask, s] =>
    match parseVer v, decodeStr s with
    | some ver, some str => showRes mask (construct ver str)
    | _, _ => "bad-op"
  | ["R", v, mask, s] =>
    match parseVer v, decodeStr s with
    | some ver, some str => showRes mask (fromRh ver str)
    | _, _ => "bad-op"
  | ["Q", v, a, b] =>   -- equality / hash key of two constructed objects
    match parseVer v, decodeStr a, decodeStr b with
    | some ver, some sa, some sb =>
      match construct ver sa, construct ver sb with
      | .ok x, .ok y => s!"ok\t{if x.eq y then 1 else 0}\t{if x.hashKey = y.hashKey then 1 else 0}"
      | _, _ => "err"
    | _, _, _ => "bad-op"
  | ["X", s] =>
    match decodeStr s with
    | some str =>
      match Extract.parseText isDigitU str with
      | none => "raise"
      | some os =>
        let items := os.map (fun o => (match o.ver with | .v2 => "2" | .v3 => "3" | .v4 => "4") ++ "=" ++ esc o.clean ++ "=" ++ esc o.vector)
        "ok\t" ++ ";".intercalate items
    | none => "bad-op"
  | "D" :: v :: all :: nc :: answers =>    -- complete stdout of ask_interactively
    match parseIVer v, answers.mapM decodeStr with
    | some iv, some ans =>
      let d := Prompts.dialogue iv (all = "1") (nc = "1") ans
      "out\t" ++ esc d.1 ++ "\t" ++ (match d.2 with | some s => "result:" ++ esc s | none => "eof")
    | _, _ => "bad-op"
  | "LS" :: flags :: vec :: answers =>     -- complete stdout of cvss_calculator.main()
    let has (c : Char) : Bool := flags.toList.contains c
    let v : Option (Option Str) := if vec = "none" then some none else (decodeStr vec).map some
    match v, answers.mapM decodeStr with
    | some vv, some ans =>
      let f : Cli.Flags := { f2 := has '2', f3 := has '3', f4 := has '4', all := has 'a',
                             noColors := has 'n', json := has 'j', vector := vv }
      match Prompts.stdout f ans with
      | some s => "out\t" ++ esc s
      | none => "crash"
    | _, _ => "bad-op"
  | ["M", v, s] =>     -- str(exception) of the constructor, "-" when it succeeds
    match parseVer v, decodeStr s with
    | some ver, some str => match Messages.constructMsg ver str with | some m => "msg\t" ++ esc m | none => "-"
    | _, _ => "bad-op"
  | ["MR", v, s] =>    -- str(exception) of from_rh_vector
    match parseVer v, decodeStr s with
    | some ver, some str => match Messages.fromRhMsg ver str with | some m => "msg\t" ++ esc m | none => "-"
    | _, _ => "bad-op"
  | ["XF", s] =>      -- raw matches of the scanner model of the regex
    match decodeStr s with
    | some str => "ok\t" ++ "\u0001".intercalate ((Extract.findAll isDigitU str.length str).map esc)
    | none => "bad-op"
  | "I" :: v :: all :: answers =>
    match parseIVer v, answers.mapM decodeStr with
    | some iv, some ans =>
      match Interactive.ask iv (all = "1") ans with
      | .result vec n asked => s!"result\t{esc vec}\t{n}\t" ++ ",".intercalate (asked.map (fun (m, k) => esc m ++ ":" ++ toString k))
      | .eof asked => "eof\t" ++ ",".intercalate (asked.map (fun (m, k) => esc m ++ ":" ++ toString k))
      | .keyError => "keyerror"
    | _, _ => "bad-op"
  | "L" :: flags :: vec :: answers =>
    -- flags: string over {2,3,4,a,n,j}; vec: "none" or encoded string
    let has (c : Char) : Bool := flags.toList.contains c
    let v : Option (Option Str) := if vec = "none" then some none else (decodeStr vec).map some
    match v, answers.mapM decodeStr with
    | some vv, some ans =>
      let f : Cli.Flags := { f2 := has '2', f3 := has '3', f4 := has '4', all := has 'a',
                             noColors := has 'n', json := has 'j', vector := vv }
      match Cli.mainMsg f ans with
      | .lines ls => "lines\t" ++ "\t".intercalate (ls.map esc)   -- tab-separated: `esc` escapes tabs and newlines
      | .eof => "eof"
      | .crash => "crash"
    | _, _ => "bad-op"
  | ["F", s] =>     -- float() model
    match decodeStr s with
    | some str =>
      match Float.parseFloat str with
      | none => "err"
      | some .nan => "nan"
      | some (.inf n) => if n then "-inf" else "inf"
      | some (.fin q) =>
        match Float.toBinary64 q with
        | none => if q < 0 then "-inf" else "inf"
        | some b => showRat b
    | none => "bad-op"
  | "S" :: rest => Spec.handle rest
  | _ => "bad-op"

partial def loop (hin : IO.FS.Stream) (hout : IO.FS.Stream) : IO Unit := do
  let line ← hin.getLine
  if line.isEmpty then return ()
  let l := if line.back = '\n' then (line.dropEnd 1).toString else line
  hout.putStrLn (handle l)
  loop hin hout

def main : IO Unit := do
  let hin ← IO.getStdin
  let hout ← IO.getStdout
  loop hin hout
  hout.flush
