/-
  Line-protocol driver over the TRANSLATED SOURCE (`Cvss.Gen.Code2/3/4`, regenerated from the text of
  /repo's cvss2.py / cvss3.py / cvss4.py by tools/gen_code.py).  The harness runs the real methods on
  the same inputs and compares: this validates the translator and `Cvss/Py.lean` against CPython, and
  when a source-tie proof no longer checks it tells a semantic change of the source from a rewrite.
  Request:  <version> TAB <vector as decimal code points joined by ','>      One response line each.
-/
import Cvss.Gen.Code2
import Cvss.Gen.Code3
import Cvss.Gen.Code4
import Cvss.Model.V2
import Cvss.Model.V3
import Cvss.Model.V4
open Cvss Cvss.Model Cvss.Gen

def decodeStr (s : String) : Option Str :=
  if s = "e" then some []
  else (s.splitOn ",").mapM (fun t => t.toNat?.map Char.ofNat)

def showRat (x : Rat) : String := s!"{x.num}/{x.den}"

def showORat : Option Rat → String
  | none => "None"
  | some x => showRat x

def showMap (m : List (Str × Str)) : String :=
  ",".intercalate (m.map (fun (k, v) => String.ofList k ++ ":" ++ String.ofList v))

def showOStr : Py.M Str → String
  | .error _ => "EXC"
  | .ok x => String.ofList x

def showOList : Py.M (List Str) → String
  | .error _ => "EXC"
  | .ok xs => "|".intercalate (xs.map String.ofList)

def showJ : Py.J → String
  | .null => "null"
  | .str x => "\"" ++ String.ofList x ++ "\""
  | .num x => showRat x

def showJson (r : Py.M (List (Str × Py.J))) : String :=
  match r with
  | .error _ => "EXC"
  | .ok o => ",".intercalate (o.map (fun (k, v) => String.ofList k ++ "=" ++ showJ v))

def showScores2 : Py.M (List (Option Rat)) → String
  | .error _ => "EXC"
  | .ok xs => " ".intercalate (xs.map showORat)

def showScores3 : Py.M (List Rat) → String
  | .error _ => "EXC"
  | .ok xs => " ".intercalate (xs.map showRat)

def excName : Py.Exc → String
  | .malformed => "MalformedError" | .mandatory => "MandatoryError" | .rhMalformed => "RHMalformedError"
  | .rhMismatch => "RHScoreDoesNotMatch" | .keyError => "KeyError" | .typeError => "TypeError"
  | .valueError => "ValueError" | .indexError => "IndexError" | .assertionError => "AssertionError"
  | .nameError => "NameError" | .zeroDivision => "ZeroDivisionError" | .other => "other"

def v4Metrics : List Str :=
  [c!"AV", c!"AC", c!"AT", c!"PR", c!"UI", c!"VC", c!"VI", c!"VA", c!"SC", c!"SI", c!"SA", c!"CR", c!"IR", c!"AR",
   c!"E", c!"MSI", c!"MSA", c!"MAV", c!"S", c!"U"]

def handle (line : String) : String :=
  match line.splitOn "\t" with
  | ["2", s] =>
    match decodeStr s with
    | none => "bad-op"
    | some str =>
      match Model.V2.parse str with
      | .error _ => "rejected"
      | .ok m =>
        match Code2.init_tail (Code2.initSelf str m) str with
        | .error _ => "exc"
        | .ok o => s!"ok\t{showORat o.base_score} {showORat o.temporal_score} {showORat o.environmental_score}\t{showOStr (Code2.clean_vector o)}\t{showOList (Code2.severities o)}\t{showOStr (Code2.temporal_vector o)}\t{showOStr (Code2.environmental_vector o)}\t{showJson (Code2.as_json o false false)};{showJson (Code2.as_json o false true)};{showJson (Code2.as_json o true false)};{showJson (Code2.as_json o true true)}\t{showScores2 (Code2.scores o)}"
  | ["3", s] =>
    match decodeStr s with
    | none => "bad-op"
    | some str =>
      match Model.V3.parse str with
      | .error _ => "rejected"
      | .ok (i, m) =>
        match Code3.init_tail { Code3.initSelf str m with minor_version := some (i : Int) } str with
        | .error _ => "exc"
        | .ok o =>
          s!"ok\t{showORat o.base_score} {showORat o.temporal_score} {showORat o.environmental_score}\t{showMap o.metrics}\t{match o.original_metrics with | some x => showMap x | none => "None"}\t{showOStr (Code3.clean_vector o true)}\t{showOStr (Code3.clean_vector o false)}\t{showOList (Code3.severities o)}\t{showOStr (Code3.temporal_vector o)}\t{showOStr (Code3.environmental_vector o)}\t{showJson (Code3.as_json o false false)};{showJson (Code3.as_json o false true)};{showJson (Code3.as_json o true false)};{showJson (Code3.as_json o true true)}\t{showScores3 (Code3.scores o)}"
  | ["4", s] =>
    match decodeStr s with
    | none => "bad-op"
    | some str =>
      match Model.V4.parse str with
      | .error _ => "rejected"
      | .ok m0 =>
        -- `m()` / `macroVector()` are read on the constructed object, i.e. after `add_missing_optional`
        match Model.V4.fillModified m0 Model.V4.modifiedMetrics with
        | none => "exc"
        | some m1 =>
          let m := Model.V4.fillDefaults m1 Model.V4.defaultedMetrics
          let self := Code4.initSelf str m
          let ms := v4Metrics.map (fun k => match Code4.m self k with
            | .error _ => "EXC" | .ok none => "None" | .ok (some v) => String.ofList v)
          let mv := match Code4.macroVector self with | .error _ => "EXC" | .ok v => String.ofList v
          let orig := { self with original_metrics := m0 }
          s!"ok\t{mv}\t{" ".intercalate ms}\t{showOStr (Code4.clean_vector orig true)}\t{showOStr (Code4.clean_vector orig false)}"
  | ["K2", s] =>       -- the whole translated constructor on ANY string: outcome class, scores, metric dict
    match decodeStr s with
    | none => "bad-op"
    | some str =>
      match Code2.construct str with
      | .error e => "err\t" ++ excName e
      | .ok o => s!"ok\t{showORat o.base_score} {showORat o.temporal_score} {showORat o.environmental_score}\t{showMap o.metrics}"
  | ["K3", s] =>
    match decodeStr s with
    | none => "bad-op"
    | some str =>
      match Code3.construct str with
      | .error e => "err\t" ++ excName e
      | .ok o => s!"ok\t{showORat o.base_score} {showORat o.temporal_score} {showORat o.environmental_score}\t{showMap o.metrics}\t{match o.minor_version with | some i => toString i | none => "None"}"
  | ["K4", s] =>       -- the whole translated v4 constructor (incl. compute_base_score) on ANY string
    match decodeStr s with
    | none => "bad-op"
    | some str =>
      match Code4.construct str with
      | .error e => "err\t" ++ excName e
      | .ok o => s!"ok\t{showORat o.base_score}\t{match o.severity with | some x => String.ofList x | none => "None"}\t{showMap o.metrics}\t{showMap o.original_metrics}"
  | ["R2", s] =>       -- the translated classmethod from_rh_vector on ANY string, then rh_vector() of the result
    match decodeStr s with
    | none => "bad-op"
    | some str =>
      match Code2.from_rh_vector str with
      | .error e => "err\t" ++ excName e
      | .ok o => s!"ok\t{showORat o.base_score}\t{showOStr (Code2.rh_vector o)}"
  | ["R3", s] =>
    match decodeStr s with
    | none => "bad-op"
    | some str =>
      match Code3.from_rh_vector str with
      | .error e => "err\t" ++ excName e
      | .ok o => s!"ok\t{showORat o.base_score}\t{showOStr (Code3.rh_vector o)}"
  | ["R4", s] =>
    match decodeStr s with
    | none => "bad-op"
    | some str =>
      match Code4.from_rh_vector str with
      | .error e => "err\t" ++ excName e
      | .ok o => s!"ok\t{showORat o.base_score}\t{showOStr (Code4.rh_vector o)}"
  | ["E2", a, b] =>   -- `==` and the hash key of two constructed objects, as translated
    match decodeStr a, decodeStr b with
    | some sa, some sb =>
      match Code2.construct sa, Code2.construct sb with
      | .ok oa, .ok ob =>
        s!"ok\t{match Code2.__eq__ oa ob with | .ok r => toString r | .error _ => "EXC"}\t{showOStr (Code2.__hash__ oa)}"
      | _, _ => "rejected"
    | _, _ => "bad-op"
  | ["E3", a, b] =>   -- `==` and the hash key of two constructed objects, as translated
    match decodeStr a, decodeStr b with
    | some sa, some sb =>
      match Code3.construct sa, Code3.construct sb with
      | .ok oa, .ok ob =>
        s!"ok\t{match Code3.__eq__ oa ob with | .ok r => toString r | .error _ => "EXC"}\t{showOStr (Code3.__hash__ oa)}"
      | _, _ => "rejected"
    | _, _ => "bad-op"
  | ["E4", a, b] =>   -- `==` and the hash key of two constructed objects, as translated
    match decodeStr a, decodeStr b with
    | some sa, some sb =>
      match Code4.construct sa, Code4.construct sb with
      | .ok oa, .ok ob =>
        s!"ok\t{match Code4.__eq__ oa ob with | .ok r => toString r | .error _ => "EXC"}\t{showOStr (Code4.__hash__ oa)}"
      | _, _ => "rejected"
    | _, _ => "bad-op"
  | ["J4", s, num, den] =>   -- v4 compute_severity / as_json as translated, on the object the real code scored
    match decodeStr s, num.toInt?, den.toNat? with
    | some str, some n, some d =>
      match Model.V4.parse str with
      | .error _ => "rejected"
      | .ok m0 =>
        match Model.V4.fillModified m0 Model.V4.modifiedMetrics with
        | none => "exc"
        | some m1 =>
          let m := Model.V4.fillDefaults m1 Model.V4.defaultedMetrics
          let self := { Code4.initSelf str m with original_metrics := m0, base_score := some (mkRat n d) }
          match Code4.compute_severity self with
          | .error _ => "exc"
          | .ok o => s!"ok\t{match o.severity with | some x => String.ofList x | none => "None"}\t{showJson (Code4.as_json o false false)};{showJson (Code4.as_json o false true)};{showJson (Code4.as_json o true false)};{showJson (Code4.as_json o true true)}"
    | _, _, _ => "bad-op"
  | _ => "bad-op"

partial def loop (h : IO.FS.Stream) (out : IO.FS.Stream) : IO Unit := do
  let line ← h.getLine
  if line.isEmpty then return ()
  let l := if line.endsWith "\n" then (line.dropEnd 1).toString else line
  out.putStrLn (handle l)
  loop h out

def main : IO Unit := do
  let i ← IO.getStdin
  let o ← IO.getStdout
  loop i o
