/-
  Line-protocol driver over the TRANSLATED SOURCE (`Cvss.Gen.Code2/3/4`, regenerated from the text of
  /repo's cvss2.py / cvss3.py / cvss4.py by tools/gen_code.py).  The harness runs the real methods on
  the same inputs and compares: this validates the translator and `Cvss/Py.lean` against CPython, and
  when a source-tie proof no longer checks it tells a semantic change of the source from a rewrite.
  Request:  <version> TAB <vector as decimal code points joined by ','>      One response line each.
-/
import Cvss.Gen.Code2
import Cvss.Gen.Code3
import Cvss.Gen.Code4
import Cvss.Model.V2
import Cvss.Model.V3
import Cvss.Model.V4
open Cvss Cvss.Model Cvss.Gen

def decodeStr (s : String) : Option Str :=
  if s = "e" then some []
  else (s.splitOn ",").mapM (fun t => t.toNat?.map Char.ofNat)

def showRat (x : Rat) : String := s!"{x.num}/{x.den}"

def showORat : Option Rat → String
  | none => "None"
  | some x => showRat x

def showMap (m : List (Str × Str)) : String :=
  ",".intercalate (m.map (fun (k, v) => String.ofList k ++ ":" ++ String.ofList v))

def showOStr : Option Str → String
  | none => "EXC"
  | some x => String.ofList x

def showOList : Option (List Str) → String
  | none => "EXC"
  | some xs => "|".intercalate (xs.map String.ofList)

def v4Metrics : List Str :=
  [c!"AV", c!"AC", c!"AT", c!"PR", c!"UI", c!"VC", c!"VI", c!"VA", c!"SC", c!"SI", c!"SA", c!"CR", c!"IR", c!"AR",
   c!"E", c!"MSI", c!"MSA", c!"MAV", c!"S", c!"U"]

def handle (line : String) : String :=
  match line.splitOn "\t" with
  | ["2", s] =>
    match decodeStr s with
    | none => "bad-op"
    | some str =>
      match Model.V2.parse str with
      | .error _ => "rejected"
      | .ok m =>
        match Code2.init_tail (Code2.initSelf str m) str with
        | none => "exc"
        | some o => s!"ok\t{showORat o.base_score} {showORat o.temporal_score} {showORat o.environmental_score}\t{showOStr (Code2.clean_vector o)}\t{showOList (Code2.severities o)}\t{showOStr (Code2.temporal_vector o)}\t{showOStr (Code2.environmental_vector o)}"
  | ["3", s] =>
    match decodeStr s with
    | none => "bad-op"
    | some str =>
      match Model.V3.parse str with
      | .error _ => "rejected"
      | .ok (i, m) =>
        match Code3.init_tail { Code3.initSelf str m with minor_version := some (i : Int) } str with
        | none => "exc"
        | some o =>
          s!"ok\t{showORat o.base_score} {showORat o.temporal_score} {showORat o.environmental_score}\t{showMap o.metrics}\t{match o.original_metrics with | some x => showMap x | none => "None"}\t{showOStr (Code3.clean_vector o true)}\t{showOStr (Code3.clean_vector o false)}\t{showOList (Code3.severities o)}\t{showOStr (Code3.temporal_vector o)}\t{showOStr (Code3.environmental_vector o)}"
  | ["4", s] =>
    match decodeStr s with
    | none => "bad-op"
    | some str =>
      match Model.V4.parse str with
      | .error _ => "rejected"
      | .ok m0 =>
        -- `m()` / `macroVector()` are read on the constructed object, i.e. after `add_missing_optional`
        match Model.V4.fillModified m0 Model.V4.modifiedMetrics with
        | none => "exc"
        | some m1 =>
          let m := Model.V4.fillDefaults m1 Model.V4.defaultedMetrics
          let self := Code4.initSelf str m
          let ms := v4Metrics.map (fun k => match Code4.m self k with
            | none => "EXC" | some none => "None" | some (some v) => String.ofList v)
          let mv := match Code4.macroVector self with | none => "EXC" | some v => String.ofList v
          let orig := { self with original_metrics := m0 }
          s!"ok\t{mv}\t{" ".intercalate ms}\t{showOStr (Code4.clean_vector orig true)}\t{showOStr (Code4.clean_vector orig false)}"
  | _ => "bad-op"

partial def loop (h : IO.FS.Stream) (out : IO.FS.Stream) : IO Unit := do
  let line ← h.getLine
  if line.isEmpty then return ()
  let l := if line.endsWith "\n" then (line.dropEnd 1).toString else line
  out.putStrLn (handle l)
  loop h out

def main : IO Unit := do
  let i ← IO.getStdin
  let o ← IO.getStdout
  loop i o
