#!/bin/bash
# Build the framework offline from files on disk: regenerate tables from /repo, build all proofs and the driver.
set -e
cd "$(dirname "$0")"
/venv/bin/python tools/gen_tables.py --repo "${CVSS_REPO:-/repo}" || true
cd lean
lake build Cvss driver 2>&1 | tail -5
