#!/bin/bash
# Build the framework offline from files on disk: regenerate tables and the source translation from /repo,
# build all proofs, the model driver and the driver of the translated source.
set -e
cd "$(dirname "$0")"
/venv/bin/python tools/gen_tables.py --repo "${CVSS_REPO:-/repo}" || true
/venv/bin/python tools/gen_code.py --repo "${CVSS_REPO:-/repo}" > /dev/null || true
cd lean
lake build Cvss driver 2>&1 | tail -5
# source tie (an addition to the registered tie: failing to build it must not fail the setup)
lake build codedriver $(ls Cvss/Props/CodeTie*.lean | sed -e "s#/#.#g" -e "s#\.lean\$##") 2>&1 | tail -3 || true
